"""C14: the per-period lifecycle methods of robotpy_ext/autonomous/selector.py -- `_on_autonomous_enable`, `_on_iteration`,
`disable`, `start`, `periodic`, `endCompetition` -- translated from the current source statement by statement (fail-closed:
anything outside the forms below raises Shape) into Gallina functions

    gen_<method> (r : selector) (s : sel) (now : Z) (st : lstate) [time_elapsed : Z] : option (lstate * list event)

(None = the call raises AttributeError) by symbolic execution, and proved equal to the functions of Selector/Model.v
(`on_autonomous_enable`, `on_iteration`, `do_disable`, and `step` on `Start` / `Periodic` / `Disable` /
`EndCompetition`) for EVERY selector, selection, clock reading and state: Selector/SrcLifecycle.v is the committed
reference translation (`python -m harness.c14_translate --ref /repo`), Selector/SrcLifecycleProofs.v proves reference =
model, and every check translates $VERIF_REPO's source again (work/C14/Gen_lifecycle.v) and proves it equal to the
reference by reflexivity.

Reading of the source (trusted):
  self.active_mode / self.timer / self.robot_exit   -> the fields active / timer / robot_exit of `lstate`
                                                    (timer: None = the attribute does not exist yet, Some t0 = a wpilib.Timer
                                                    started when the FPGA clock read t0)
  E is None / E is not None (E a local or one of these attributes holding an optional value)
                                                 -> `match E with Some x => .. | None => .. end`; in the Some branch E IS x
  A and B, not A                                 -> short-circuit composition of the above
  `if E:` / `while E:` on an object or string    -> NOT translated (Shape): the truth value of an instance is the class's business
                                                    (__bool__/__len__), only `robot_exit`-like booleans are read as bool
  wpilib.SmartDashboard.getString('Auto Selector', None) -> fst s  (the dashboard string, if any)
  K in self.modes  (K known to be a string)      -> dict_mem K (modes r);  self.modes[K] under that test -> dict_get K (modes r)
  self.chooser.getSelected()                     -> chooser_selected (chooser_of r) (snd s)
  X.on_enable() / X.on_iteration(t) / X.on_disable()  (X known to be an instance m, i.e. under `is not None`)
                                                 -> the event OnEnable m / OnIteration m t / OnDisable m is appended
  T = wpilib.Timer() ; T.start()  (consecutive)  -> T := Some now;   T.get() -> now - t0 if T = Some t0, AttributeError (the
                                                    whole call: None) if the attribute does not exist
  self.<method>(args) of this class              -> the callee's body, executed in place with its parameters bound
  logger.<anything>(...), docstrings, `pass`     -> nothing
"""
import ast
import os

from .pytr import Shape, txt

PATH = "robotpy_ext/autonomous/selector.py"
CLASS = "AutonomousModeSelector"
FIELDS = ["active_mode", "timer", "robot_exit"]
PROJ = {"active_mode": "active", "timer": "timer", "robot_exit": "robot_exit"}
OPT = {"active_mode": "m", "timer": "t"}          # optional-valued attributes and the prefix of the name of their content
EVENTS = {"on_enable": "OnEnable", "on_iteration": "OnIteration", "on_disable": "OnDisable"}
METHODS = [("_on_autonomous_enable", []), ("_on_iteration", ["time_elapsed"]), ("disable", []), ("start", []),
           ("periodic", []), ("endCompetition", [])]
GETSTRING = "wpilib.SmartDashboard.getString('Auto Selector', None)"
NEW_TIMER = "<a wpilib.Timer that was not started>"


class Env:
    def __init__(self):
        self.f = {}          # attribute -> term
        self.loc = {}        # local -> term
        self.kind = {}       # local -> 'optstr' | 'optinst' | 'z' | 'timer'
        self.ev = []         # event terms, in order
        self.facts = set()   # strings K known to be keys of self.modes
        self.n = [0]

    def copy(self):
        e = Env()
        e.f, e.loc, e.kind, e.ev, e.facts, e.n = dict(self.f), dict(self.loc), dict(self.kind), list(self.ev), set(self.facts), self.n
        return e

    def fresh(self, p):
        self.n[0] += 1
        return "%s%d" % (p, self.n[0])

    def subst(self, old, new):
        for d in (self.f, self.loc):
            for k, v in d.items():
                if v == old:
                    d[k] = new


def some_of(t):
    t = t.strip()
    if t.startswith("(Some ") and t.endswith(")"):
        return t[6:-1]
    return None


class Tr:
    def __init__(self, repo):
        tree = ast.parse(open(os.path.join(repo, PATH)).read())
        cs = [n for n in tree.body if isinstance(n, ast.ClassDef) and n.name == CLASS]
        if len(cs) != 1:
            raise Shape("class %s not found in %s" % (CLASS, PATH))
        self.methods = {}
        for n in cs[0].body:
            if isinstance(n, ast.FunctionDef):
                if n.name in self.methods:
                    raise Shape("method %s is defined twice" % n.name)
                self.methods[n.name] = n

    def method(self, name, params):
        if name not in self.methods:
            raise Shape("method %s.%s not found" % (CLASS, name))
        f = self.methods[name]
        if f.decorator_list:
            raise Shape("%s is decorated" % name)
        a = f.args
        if a.vararg or a.kwarg or a.kwonlyargs or a.defaults or [x.arg for x in a.args] != ["self"] + params:
            raise Shape("%s: parameters are %s, expected %s" % (name, [x.arg for x in a.args], ["self"] + params))
        return f

    # ------------------------------------------------------------------ values
    def target(self, n):
        """('attr', name) | ('loc', name) for an assignable / testable place, else None"""
        if isinstance(n, ast.Name):
            return ("loc", n.id)
        if isinstance(n, ast.Attribute) and isinstance(n.value, ast.Name) and n.value.id == "self" and n.attr in FIELDS:
            return ("attr", n.attr)
        return None

    def read(self, n, env):
        p = self.target(n)
        if p is None:
            raise Shape("not a local or a known attribute: %s" % txt(n)[:70])
        kind, name = p
        if kind == "attr":
            return env.f[name]
        if name not in env.loc:
            raise Shape("unknown name %s" % name)
        return env.loc[name]

    def value(self, n, env, k):
        """evaluate an expression; k(term, kind, env) continues (an evaluation can branch: AttributeError)"""
        t = txt(n)
        if isinstance(n, ast.Constant) and n.value is None:
            return k("None", "none", env)
        if isinstance(n, ast.Constant) and n.value is True:
            return k("true", "bool", env)
        if isinstance(n, ast.Constant) and n.value is False:
            return k("false", "bool", env)
        if t == GETSTRING:
            return k("(fst s)", "optstr", env)
        if t == "self.chooser.getSelected()":
            return k("(chooser_selected (chooser_of r) (snd s))", "optinst", env)
        if t == "wpilib.Timer()":
            return k(NEW_TIMER, "timer", env)
        if isinstance(n, ast.Subscript) and txt(n.value) == "self.modes":
            key = some_of(self.read(n.slice, env)) if self.target(n.slice) else None
            if key is None or key not in env.facts:
                raise Shape("self.modes[%s] outside a test `%s in self.modes` on a string" % (txt(n.slice), txt(n.slice)))
            return k("(dict_get %s (modes r))" % key, "optinst", env)
        if isinstance(n, ast.Call) and isinstance(n.func, ast.Attribute) and n.func.attr == "get" and not n.args and not n.keywords \
                and self.target(n.func.value):
            cur = self.read(n.func.value, env)
            if cur == NEW_TIMER:
                raise Shape("%s: the timer was not started" % t)
            t0 = some_of(cur)
            if t0 is not None:
                return k("(now - %s)%%Z" % t0, "z", env)
            x = env.fresh("t")
            e1 = env.copy()
            e1.subst(cur, "(Some %s)" % x)
            # the attribute does not exist: AttributeError out of the whole call
            return "(match %s with Some %s => %s | None => None end)" % (cur, x, k("(now - %s)%%Z" % x, "z", e1))
        if self.target(n):
            kind, name = self.target(n)
            return k(self.read(n, env), env.kind.get(name, "attr") if kind == "loc" else "attr", env)
        raise Shape("expression not recognised: %s" % t[:80])

    # ------------------------------------------------------------------ conditions
    def cond(self, n, env, kt, kf):
        t = txt(n)
        if isinstance(n, ast.BoolOp):
            is_and = isinstance(n.op, ast.And)

            def chain(i, e):
                if i == len(n.values):
                    return kt(e) if is_and else kf(e)
                if is_and:
                    return self.cond(n.values[i], e, lambda e2: chain(i + 1, e2), kf)
                return self.cond(n.values[i], e, kt, lambda e2: chain(i + 1, e2))
            return chain(0, env)
        if isinstance(n, ast.UnaryOp) and isinstance(n.op, ast.Not):
            return self.cond(n.operand, env, kf, kt)
        if isinstance(n, ast.Compare) and len(n.ops) == 1 and isinstance(n.ops[0], (ast.Is, ast.IsNot)) \
                and isinstance(n.comparators[0], ast.Constant) and n.comparators[0].value is None and self.target(n.left):
            pos, neg = (kf, kt) if isinstance(n.ops[0], ast.Is) else (kt, kf)
            kind, name = self.target(n.left)
            if kind == "attr" and name not in OPT:
                raise Shape("`%s`: self.%s is not an optional value" % (t, name))
            cur = self.read(n.left, env)
            if cur == "None":
                return neg(env.copy())
            if some_of(cur) is not None:
                return pos(env.copy())
            pre = OPT.get(name, "a") if kind == "attr" else {"optstr": "a", "optinst": "m"}.get(env.kind.get(name), "x")
            x = env.fresh(pre)
            e1, e2 = env.copy(), env.copy()
            e1.subst(cur, "(Some %s)" % x)
            e2.subst(cur, "None")
            return "(match %s with Some %s => %s | None => %s end)" % (cur, x, pos(e1), neg(e2))
        if isinstance(n, ast.Compare) and len(n.ops) == 1 and isinstance(n.ops[0], ast.In) and txt(n.comparators[0]) == "self.modes" \
                and self.target(n.left):
            key = some_of(self.read(n.left, env))
            kind, name = self.target(n.left)
            if key is None or kind != "loc" or env.kind.get(name) != "optstr":
                raise Shape("`%s`: %s is not known to be a string here" % (t, txt(n.left)))
            e1 = env.copy()
            e1.facts.add(key)
            return "(if dict_mem %s (modes r) then %s else %s)" % (key, kt(e1), kf(env.copy()))
        if self.target(n) == ("attr", "robot_exit"):
            return "(if %s then %s else %s)" % (env.f["robot_exit"], kt(env.copy()), kf(env.copy()))
        if self.target(n):
            raise Shape("`if %s`: the truth value of an object is not translated (only `is None` / `is not None` tell a "
                        "mode from no mode; bool() of an instance is up to its class)" % t)
        raise Shape("condition not recognised: %s" % t[:80])

    # ------------------------------------------------------------------ statements
    def run(self, stmts, env, k, depth=0):
        """k(env): the method is over (fell off its end / return)"""
        if depth > 60:
            raise Shape("method too long / recursive")
        if not stmts:
            return k(env)
        s, rest = stmts[0], stmts[1:]
        t = txt(s)

        def go(e):
            return self.run(rest, e, k, depth + 1)
        if isinstance(s, ast.Pass) or (isinstance(s, ast.Expr) and isinstance(s.value, ast.Constant) and isinstance(s.value.value, str)):
            return go(env)
        if isinstance(s, ast.Expr) and isinstance(s.value, ast.Call) and txt(s.value.func).startswith("logger."):
            return go(env)
        if isinstance(s, ast.Return) and s.value is None:
            return k(env)
        if isinstance(s, ast.If):
            return self.cond(s.test, env, lambda e: self.run(list(s.body) + rest, e, k, depth + 1),
                             lambda e: self.run(list(s.orelse) + rest, e, k, depth + 1))
        if isinstance(s, ast.Assign) and len(s.targets) == 1 and self.target(s.targets[0]):
            kind, name = self.target(s.targets[0])

            def store(term, vk, e):
                e = e.copy()
                if kind == "attr":
                    want = {"active_mode": ("optinst", "none"), "timer": ("timer",), "robot_exit": ("bool",)}[name]
                    if vk not in want and not (vk == "attr" and name == "active_mode"):
                        raise Shape("%s: a value of kind %s is stored into self.%s" % (t[:60], vk, name))
                    e.f[name] = term
                else:
                    e.loc[name] = term
                    e.kind[name] = vk
                return go(e)
            return self.value(s.value, env, store)
        if isinstance(s, ast.Expr) and isinstance(s.value, ast.Call):
            c = s.value
            f = c.func
            # T.start() right after T = wpilib.Timer()
            if isinstance(f, ast.Attribute) and f.attr == "start" and not c.args and not c.keywords and self.target(f.value):
                if self.read(f.value, env) != NEW_TIMER:
                    raise Shape("%s: not a timer that was just created" % t)
                e = env.copy()
                e.subst(NEW_TIMER, "(Some now)")
                return go(e)
            # a callback of the mode
            if isinstance(f, ast.Attribute) and f.attr in EVENTS and self.target(f.value) and not c.keywords:
                m = some_of(self.read(f.value, env))
                if m is None:
                    raise Shape("%s: called on a value that may be None (no `is not None` test in force)" % t)
                nargs = 1 if f.attr == "on_iteration" else 0
                if len(c.args) != nargs:
                    raise Shape("%s: %d argument(s) expected" % (t, nargs))
                if nargs == 0:
                    e = env.copy()
                    e.ev.append("%s %s" % (EVENTS[f.attr], m))
                    return go(e)

                def with_arg(term, vk, e):
                    if vk != "z":
                        raise Shape("%s: the argument is not an elapsed time" % t)
                    e = e.copy()
                    e.ev.append("%s %s %s" % (EVENTS[f.attr], m, term))
                    return go(e)
                return self.value(c.args[0], env, with_arg)
            # a method of this class: executed in place
            if isinstance(f, ast.Attribute) and isinstance(f.value, ast.Name) and f.value.id == "self" and f.attr in self.methods \
                    and not c.keywords:
                callee = self.methods[f.attr]
                names = [a.arg for a in callee.args.args[1:]]
                if callee.decorator_list or callee.args.defaults or callee.args.vararg or callee.args.kwarg or len(names) != len(c.args):
                    raise Shape("call %s: arguments do not match the definition" % t)

                def bind(i, e, acc):
                    if i == len(names):
                        e2 = e.copy()
                        saved = (dict(e.loc), dict(e.kind))
                        e2.loc, e2.kind = dict(acc), {nm: "z" for nm in acc}

                        def back(e3):
                            e4 = e3.copy()
                            e4.loc, e4.kind = dict(saved[0]), dict(saved[1])
                            return go(e4)
                        return self.run(list(callee.body), e2, back, depth + 1)

                    def got(term, vk, e5):
                        if vk != "z":
                            raise Shape("call %s: argument %d is not a number" % (t, i))
                        return bind(i + 1, e5, dict(acc, **{names[i]: term}))
                    return self.value(c.args[i], e, got)
                return bind(0, env, {})
        raise Shape("statement not recognised (line %d): %s" % (getattr(s, "lineno", 0), t[:80]))

    # ------------------------------------------------------------------ output
    def definition(self, prefix, name, params):
        f = self.method(name, params)
        env = Env()
        env.f = {a: "(%s st)" % PROJ[a] for a in FIELDS}
        for p in params:
            env.loc[p] = p
            env.kind[p] = "z"

        def done(e):
            for a in FIELDS:
                if e.f[a] == NEW_TIMER:
                    raise Shape("%s leaves a timer that was not started in self.%s" % (name, a))
            return "Some (mkL %s %s %s, [%s])" % (e.f["active_mode"], e.f["timer"], e.f["robot_exit"], "; ".join(e.ev))
        term = self.run(list(f.body), env, done)
        ps = "".join(" (%s : Z)" % p for p in params)
        return ("(* selector.py: %s.%s *)\nDefinition %s_%s (r : selector) (s : sel) (now : Z) (st : lstate)%s : option (lstate * list event) :=\n  %s."
                % (CLASS, name, prefix, name.strip("_"), ps, term))


def definitions(repo, prefix):
    tr = Tr(repo)
    return [tr.definition(prefix, name, params) for name, params in METHODS]


HEADER = ("From Coq Require Import String List ZArith Bool.\nImport ListNotations.\nOpen Scope string_scope.\n"
          "Open Scope list_scope.\nFrom RV Require Import Selector.Model")


def reference(repo):
    return "\n".join(definitions(repo, "ref"))


def coq(repo):
    L = [HEADER + " Selector.SrcLifecycle Selector.SrcLifecycleProofs.\n"] + definitions(repo, "gen")
    for name, params in METHODS:
        n = name.strip("_")
        ps = "".join(" " + p for p in params)
        L.append("Lemma regen_%s : forall r s now st%s, gen_%s r s now st%s = ref_%s r s now st%s.\nProof. reflexivity. Qed."
                 % (n, ps, n, ps, n, ps))
    L.append(r"""
(* so the lifecycle methods, as the source has them now, ARE the model's *)
Theorem src_lifecycle_is_model : forall r s now st t,
  gen_on_autonomous_enable r s now st = Some (on_autonomous_enable r st s) /\
  gen_on_iteration r s now st t = Some (st, on_iteration st t) /\
  gen_disable r s now st = step r st Disable /\
  gen_start r s now st = step r st (Start s now) /\
  gen_periodic r s now st = step r st (Periodic now) /\
  gen_endCompetition r s now st = step r st EndCompetition.
Proof.
  intros. rewrite regen_on_autonomous_enable, regen_on_iteration, regen_disable, regen_start, regen_periodic, regen_endCompetition.
  apply ref_lifecycle_is_model.
Qed.
Print Assumptions src_lifecycle_is_model.
""")
    return "\n".join(L)


def obligation(ctx):
    from .common import REPO
    name = "regen:selector.py (the lifecycle methods have the statement shapes the translator recognises)"
    try:
        text = coq(REPO)
    except Shape as e:
        ctx.obligation(name, False, str(e))
        return False
    except (SyntaxError, OSError, KeyError, IndexError, AttributeError) as e:
        ctx.obligation(name, False, repr(e))
        return False
    ctx.obligation(name, True, "")
    rc, out = ctx.coq_file("Gen_lifecycle", text)
    ok = rc == 0 and out.count("Closed under the global context") == 1
    ctx.obligation("regen:Gen_lifecycle (_on_autonomous_enable / _on_iteration / disable / start / periodic / endCompetition "
                   "translated from the source == Selector.Model.on_autonomous_enable / on_iteration / step for every selector, "
                   "selection, clock reading and state; Selector/SrcLifecycleProofs.v)", ok, out[-1500:])
    return ok


if __name__ == "__main__":
    import sys
    a = sys.argv[1:]
    if a and a[0] == "--ref":
        print(reference(a[1] if len(a) > 1 else "/repo"))
    else:
        print(coq(a[0] if a else "/repo"))
