"""C08: variable injection delivers exactly the named robot object or fails at startup.

Tie to the source: robots are generated as data ("spec"), built with type() on
top of the real magicbot.MagicRobot and started through the real
_create_components() (as the repository's tests do) or robotInit().  What is
observed: the exception class, or -- by id() -- the constructor kwargs of every
component, every annotated / preset attribute of every component and mode at
each setup() call and after startup.  The same spec is emitted as a Coq term
and Inject.Model.check_case_in compares model and implementation inside Coq.
Every robot is started while the (simulated) driver station reports the state
spec["env"]: FMS attached or not, robot enabled or not.
"""
import collections.abc
import functools
import hashlib
import inspect
import json
import logging
import os
import sys
import types
import typing

from .common import (CORPUS, coq_bool, coq_list, coq_nat, coq_string, parse_eval_lists, shards)

NS = "c08_ns"


class CallableInt(int):
    """an int that can be called (callable object of a builtin value type)"""

    def __call__(self, *a):
        return int(self)


def _scale(k, x):
    return k * x


BUILTIN = {0: object, 1: int, 2: str, 3: list, 4: float, 5: dict, 6: tuple, 7: bool,
           8: collections.abc.Sequence, 9: logging.Logger,
           10: collections.abc.Callable, 11: functools.partial, 12: type, 13: types.FunctionType,
           14: types.BuiltinFunctionType, 16: CallableInt}
OTHER_CLS = 15
CALLABLE_ABC = 10
# the callable variant (a subclass defining __call__) of the generated data class c has id c + CALL_OFF
CALL_OFF = 30
# direct "is a" edges between the builtin class ids (everything is an object)
BUILTIN_UP = {7: [1], 3: [8], 6: [8], 2: [8], 11: [10], 12: [10], 13: [10], 14: [10], 16: [1, 10]}
ALIASES = {"list[int]": 3, "List[K]": 3, "Sequence[int]": 8, "dict[str,int]": 5, "Tuple[int,int]": 6,
           "Callable[[int],int]": 10}
KIND_CLS = {"zero": 1, "int": 1, "empty": 2, "str": 2, "list": 3, "elist": 3, "etuple": 6,
            "true": 7, "false": 7, "float": 4, "fnum": 4, "edict": 5,
            "partial": 11, "klass": 12, "func": 13, "builtin": 14, "cint": 16}
KIND_TRUTHY = {"inst": True, "zero": False, "int": True, "empty": False, "str": True, "list": True,
               "elist": False, "etuple": False, "true": True, "false": False, "float": False, "fnum": True,
               "edict": False, "partial": True, "klass": True, "func": True, "builtin": True, "cint": True}
# pool kinds whose value is callable() without being a bound method: functools.partial, a class
# object, a plain function (on the instance, or a staticmethod of the robot class), a builtin
# function, an int subclass with __call__; plus instances ("inst") of a callable data class
CALLABLE_KINDS = ("partial", "klass", "func", "builtin", "cint")
INHERITED_CALLABLE = ["isReal", "isSimulation", "getRuntimeType"]    # static pybind11 functions of RobotBase


def callable_cid(cid):
    return 20 + CALL_OFF <= cid < 100


def pool_callable(kind, cid):
    """callable(value) for a pool entry (never a bound method)"""
    return kind in CALLABLE_KINDS or (kind == "inst" and callable_cid(cid))
UNKNOWN = 4999
MISSING = object()

# ---------------------------------------------------------------------------
# attributes that "already have a value" through a descriptor / marker the framework binds
# ---------------------------------------------------------------------------
# preset value ["tunable", kind, truthy] = magicbot.tunable(default), ["reset", kind, truthy] =
# magicbot.will_reset_to(default); the default is a float / int / str / bool, truthy or falsy.  What an
# attribute is CALLED fixes its kind, so one NetworkTables key never changes type between the robots
# of a batch.
BOUND_KINDS = ["float", "int", "str", "bool"]
BOUND_CLS = {"float": 4, "int": 1, "str": 2, "bool": 7}
BOUND_NAMES = {"gain": "float", "kp": "float", "count": "int", "cells": "int", "tag": "str", "label": "str",
               "flag": "bool", "inverted": "bool"}
BOUND_POOL_KIND = {("float", True): "fnum", ("float", False): "float", ("int", True): "int", ("int", False): "zero",
                   ("str", True): "str", ("str", False): "empty", ("bool", True): "true", ("bool", False): "false"}


def bound_kind(name):
    return BOUND_NAMES.get(name) or BOUND_KINDS[sum(ord(ch) for ch in name) % 4]


def bound_default(kind, truthy):
    return {"float": (0.0, 0.25), "int": (0, 7), "str": ("", "t"), "bool": (False, True)}[kind][1 if truthy else 0]


def is_param(v):
    return isinstance(v, list) and v[0] == "param"


def is_bound(v):
    return isinstance(v, list) and v[0] in ("tunable", "reset")


def bound_oid(target, k, j):
    """identity the model uses for 'the value the j-th preset of component class / mode k reads'"""
    return (700 + 20 * k + j) if target == "c" else (860 + 10 * k + j)


# ---------------------------------------------------------------------------
# several instances of ONE class whose presets differ (hasattr is a fact about the instance)
# ---------------------------------------------------------------------------
# component presets: where = "init_if:<p>"  -- __init__ sets it iff the constructor argument p is truthy (p is injected,
#                                              typically from "<component name>_<p>", so it differs per component);
#                            "init_nth:<i>" -- only the i-th constructed instance of the class sets it in __init__.
# modes: md["class_of"] = name of an earlier mode with the same annotations / class-level presets / setup: an instance of
#        THAT class; presets with where = "inst" are assigned on this one instance after construction.
def comp_instances(spec, taken=None):
    """[(component name, class index, how many instances of that class were constructed before it)] in creation order"""
    if taken is None:
        taken = {x[0] for x in spec["rattrs"]}
    out, seen = [], {}
    for n, form, i in robot_hints(spec):
        if n.startswith("_") or n in taken or form[0] != "comp":
            continue
        out.append((n, form[1], seen.get(form[1], 0)))
        seen[form[1]] = seen.get(form[1], 0) + 1
    return out


def flag_arg(spec, cname, p):
    """truthiness of the constructor argument p of component cname (served by robot attributes: plain name, else prefixed)"""
    m = {n: v for n, lvl, kind, v in spec["rattrs"] if kind == "plain" and v is not None and not n.startswith("_") and n != "logger"}
    o = m.get(p)
    if o is None:
        o = m.get("%s_%s" % (cname, p))
    if o is None:
        return False
    kind = [x[1] for x in spec["pool"] if x[0] == o]
    return bool(kind) and KIND_TRUTHY[kind[0]]


def effective_presets(spec, k, cname, nth):
    """[(index in the class's preset list, name, value)]: what THIS instance has after construction"""
    out = []
    for j, (n, where, v) in enumerate(spec["comps"][k]["presets"]):
        if where.startswith("init_if:"):
            if not flag_arg(spec, cname, where[8:]):
                continue
        elif where.startswith("init_nth:"):
            if int(where[9:]) != nth:
                continue
        out.append((j, n, v))
    return out


def instance_of(spec, cname):
    for n, k, nth in comp_instances(spec):
        if n == cname:
            return k, nth
    return None


def mode_class_owner(spec, j):
    """index of the mode whose class mode j is an instance of (j itself unless class_of names an earlier, identical one)"""
    md = spec["modes"][j]
    want = md.get("class_of")
    if want is None:
        return j
    cl = lambda m: ([list(h) for h in m["hints"]], [list(x) for x in m["presets"] if x[1] != "inst"], bool(m["setup"]))
    for i in range(j):
        if spec["modes"][i]["name"] == want and mode_class_owner(spec, i) == i and cl(spec["modes"][i]) == cl(md):
            return i
    return j


# ---------------------------------------------------------------------------
# default values of __init__ parameters: cc["defaults"] = {parameter: kind}
# ---------------------------------------------------------------------------
# kind: "None" | "number" (3 for an int annotation, else 1.0) | "false" | "object" (a fresh instance of the annotated class when
# that is a generated data class, else object()) | "pool:<oid>" (an object of the pool -- typically one the robot stores under
# ANOTHER name).  The library never looks at them: every annotated parameter is an injection request.
DEFAULT_KINDS = ["None", "number", "object", "pool"]


def default_kind(dk):
    return "pool-object" if dk.startswith("pool:") else dk


def default_text(dk):
    return {"None": "None", "number": "a number", "false": "False", "object": "a fresh object"}.get(dk, "another object of the robot (%s)" % dk)


class BoundState:
    """what the harness sees of a descriptor-backed attribute at one moment"""

    def __init__(self, intact, in_dict, detail):
        self.intact, self.in_dict, self.detail = intact, in_dict, detail


def bound_state(obj, n, v, is_component):
    """Is the attribute n of obj still what `n: T = tunable(d)` / `will_reset_to(d)` made it?
    tunable: the class attribute is still that tunable, NOTHING is stored under n in obj.__dict__ and
    obj.n reads d (AttributeError = not bound: 'abs');  will_reset_to: the class attribute is still the
    marker and -- component, after _setup_reset_vars -- obj.__dict__[n] is d, -- mode -- nothing is stored."""
    import inspect
    from magicbot.magic_tunable import tunable
    from magicbot.magic_reset import will_reset_to
    d = bound_default(v[1], v[2])
    cattr = inspect.getattr_static(type(obj), n, MISSING)
    stored = vars(obj).get(n, MISSING)
    if v[0] == "tunable":
        try:
            got = getattr(obj, n)
        except AttributeError:
            return MISSING
        ok = isinstance(cattr, tunable) and stored is MISSING and type(got) is type(d) and got == d
        return BoundState(ok, stored, "reads %r, __dict__ has %s" % (got, "nothing" if stored is MISSING else repr(stored)))
    if is_component:
        ok = isinstance(cattr, will_reset_to) and stored is not MISSING and type(stored) is type(d) and stored == d
        return BoundState(ok, MISSING if ok else stored, "__dict__ has %s" % ("nothing" if stored is MISSING else repr(stored)))
    ok = isinstance(cattr, will_reset_to) and stored is MISSING
    return BoundState(ok, stored, "__dict__ has %s" % ("nothing" if stored is MISSING else repr(stored)))

ATTR_NAMES = ["a", "b", "c", "d", "x", "y", "a_b", "b_c", "gyro", "motor"]
COMP_NAMES = ["a", "b", "c", "d", "e", "a_b", "x"]
INHERITED = ["control_loop_wait_time", "use_teleop_in_autonomous", "error_report_interval"]

# Names a name-based test of the injection code could trip on although the property gives them no
# special role.  The only names the property (and the model) treat specially are a leading underscore
# and -- following the code -- exactly "logger".
_L = "logger"
LOGGER_SUBSTRINGS = sorted({_L[i:j] for i in range(len(_L)) for j in range(i + 1, len(_L) + 1)} - {_L},
                           key=lambda x: (len(x), x))        # l o g e r lo og gg ge er log ... ogger (19)
LOGGER_SUPERSTRINGS = ["loggers", "logger_", "logger2", "xlogger", "my_logger", "logger_x"]
LOGGER_CASE = ["Logger", "LOGGER", "loggeR"]
ODD_SHAPES = ["a_", "x_", "a__b", "x1", "Z", "camelCase", "UPPER_CASE"]
ODD_NAMES = LOGGER_SUBSTRINGS + LOGGER_SUPERSTRINGS + LOGGER_CASE + ODD_SHAPES
ODD_COMP_NAMES = ["log", "g", "er", "lo", "Logger", "logger2", "x_"]


def name_class(n):
    """the class of unusual (but perfectly ordinary public) names n belongs to, or None"""
    if n == _L or n.startswith("_"):
        return None
    if n in _L:
        return "substring-of-logger"
    if _L in n:
        return "contains-logger"
    if n.lower() == _L:
        return "case-variant-of-logger"
    if n.endswith("_") or "__" in n:
        return "trailing-or-double-underscore"
    if n != n.lower() or any(ch.isdigit() for ch in n):
        return "uppercase-or-digit"
    return None


# ---------------------------------------------------------------------------
# the driver station while the robot program starts (spec["env"])
# ---------------------------------------------------------------------------
ENV_OFF = {"fms": False, "enabled": False}


def spec_env(spec):
    """the state of the driver station the robot of this spec is started in; specs written before
    the dimension existed have none: no FMS, disabled"""
    e = dict(ENV_OFF)
    e.update(spec.get("env") or {})
    return {"fms": bool(e["fms"]), "enabled": bool(e["enabled"])}


def env_text(env):
    return "FMS %s, robot %s" % ("attached" if env["fms"] else "not attached", "enabled" if env["enabled"] else "disabled")


def rand_env(rng):
    fms = rng.random() < 0.4
    return {"fms": fms, "enabled": rng.random() < (0.4 if fms else 0.15)}


def set_driver_station(env):
    """Make wpilib.DriverStation report `env` (simulated driver station: new control word, then the
    refresh the robot's main loop would do) and return what it reports afterwards."""
    import wpilib
    from wpilib.simulation import DriverStationSim
    DriverStationSim.setDsAttached(True)
    DriverStationSim.setFmsAttached(bool(env["fms"]))
    DriverStationSim.setEnabled(bool(env["enabled"]))
    DriverStationSim.notifyNewData()
    wpilib.DriverStation.refreshData()
    return {"fms": bool(wpilib.DriverStation.isFMSAttached()), "enabled": bool(wpilib.DriverStation.isEnabled())}


# ---------------------------------------------------------------------------
# class ids and the isinstance table (computed from the spec, not by CPython)
# ---------------------------------------------------------------------------
def comp_cid(k):
    return 100 + 2 * k


def comp_base_cid(k):
    return 101 + 2 * k


def mode_cid(k):
    return 300 + k


def parents_of(spec):
    up = {k: list(v) for k, v in BUILTIN_UP.items()}
    for cid, par in spec["data_classes"]:
        up[cid] = [par] if par else []
        up[cid + CALL_OFF] = [cid, CALLABLE_ABC]
    for k, cc in enumerate(spec["comps"]):
        up[comp_cid(k)] = [comp_base_cid(k)] if cc["base"] else []
    return up


def is_sub(up, a, b):
    if a == b or b == 0:
        return True
    seen, todo = set(), [a]
    while todo:
        x = todo.pop()
        if x == b:
            return True
        if x in seen:
            continue
        seen.add(x)
        todo += up.get(x, [])
    return False


def form_type(form):
    """hint form -> ('type', cid) | ('nontype',)  -- what inject.py makes of it"""
    k = form[0]
    if k in ("cls", "fwd"):
        return ("type", form[1])
    if k == "alias":
        return ("type", ALIASES[form[1]])
    return ("nontype",)


def coq_hint(form):
    k = form[0]
    if k in ("cls", "fwd"):
        return "(HType %s)" % coq_nat(form[1])
    if k == "alias":
        return "(HAlias (Some %s))" % coq_nat(ALIASES[form[1]])
    if k == "optional":
        return "(HAlias None)"
    return "HNonType"


# ---------------------------------------------------------------------------
# building the Python side
# ---------------------------------------------------------------------------
class Built:
    pass


def _ns_module():
    m = sys.modules.get(NS)
    if m is None:
        m = types.ModuleType(NS)
        sys.modules[NS] = m
    return m


def build(spec):
    """spec -> Built (robot class, pools, registries). Imports magicbot lazily."""
    import magicbot
    b = Built()
    b.spec = spec
    ns = _ns_module()
    ns.__dict__.clear()
    ns.__dict__["__name__"] = NS
    ns.__dict__["typing"] = typing
    cls_of = dict(BUILTIN)
    for cid, par in spec["data_classes"]:
        c = type("K%d" % cid, (cls_of[par] if par else object,), {"__module__": NS})
        cls_of[cid] = c
        setattr(ns, c.__name__, c)
        cv = type("K%d" % (cid + CALL_OFF), (c,), {"__module__": NS, "__call__": lambda self, *a: None})
        cls_of[cid + CALL_OFF] = cv
        setattr(ns, cv.__name__, cv)
    b.cls_of = cls_of
    # pool of values
    pool = {}
    for oid, kind, cid in spec["pool"]:
        if kind == "inst":
            v = cls_of[cid]()
        elif kind == "zero":
            v = 0
        elif kind == "empty":
            v = ""
        elif kind == "int":
            v = 100000 + oid
        elif kind == "str":
            v = "s%d" % oid
        elif kind == "list":
            v = [oid]
        elif kind == "elist":
            v = []
        elif kind == "etuple":
            v = ()
        elif kind == "true":
            v = True
        elif kind == "false":
            v = False
        elif kind == "float":
            v = 0.0
        elif kind == "fnum":
            v = 1000.5 + oid
        elif kind == "edict":
            v = {}
        elif kind == "partial":
            v = functools.partial(_scale, oid)
        elif kind == "klass":
            v = type("V%d" % oid, (object,), {"__module__": NS})
        elif kind == "func":
            v = (lambda x, _o=oid: x)
        elif kind == "builtin":
            v = len
        elif kind == "cint":
            v = CallableInt(200000 + oid)
        else:
            raise ValueError(kind)
        pool[oid] = v
    b.pool = pool
    funcs = {oid for oid, kind, cid in spec["pool"] if kind == "func"}
    b.ctor_log = []      # (instance, kwargs dict) in construction order
    b.snaps = []         # raw snapshots taken by setup()
    b.robot = None

    def val(v):
        return None if v is None else pool[v]

    def hint_obj(form, owner_cls_name=None):
        k = form[0]
        if k == "cls":
            return cls_of[form[1]]
        if k == "fwd":
            return cls_of[form[1]].__name__
        if k == "alias":
            return {"list[int]": list[int], "List[K]": typing.List[object],
                    "Sequence[int]": typing.Sequence[int], "dict[str,int]": dict[str, int],
                    "Tuple[int,int]": typing.Tuple[int, int],
                    "Callable[[int],int]": typing.Callable[[int], int]}[form[1]]
        if k == "optional":
            return typing.Optional[cls_of[form[1]]]
        if k == "union":
            return cls_of[form[1]] | None
        return 1

    def snap():
        b.snaps.append(raw_snapshot(b))

    def make_bound(v):
        d = bound_default(v[1], v[2])
        return magicbot.tunable(d) if v[0] == "tunable" else magicbot.will_reset_to(d)

    # component classes
    comp_classes = []
    for k, cc in enumerate(spec["comps"]):
        levels = [dict(), dict()]
        ann = [dict(), dict()]
        for n, lvl, form in cc["hints"]:
            ann[lvl if cc["base"] else 1][n] = form
        init_presets = []
        bound_ann = [dict(), dict()]
        for n, where, v in cc["presets"]:
            if where == "init" or where.startswith("init_"):
                init_presets.append((n, v, where))
            else:
                lvl = 0 if (where == "class0" and cc["base"]) else 1
                if is_bound(v):
                    levels[lvl][n] = make_bound(v)
                    for hn, hl, hf in cc["hints"]:      # `n: float = tunable(..)`: the annotation is there when the class is made
                        if hn == n and (hl if cc["base"] else 1) == lvl and hf[0] == "cls" and hf[1] in BUILTIN:
                            bound_ann[lvl][n] = BUILTIN[hf[1]]
                else:
                    levels[lvl][n] = val(v)
        init = cc["init"]
        if init is not None or init_presets:
            params = [p for p, _ in (init or [])]

            def mk_init(params=params, init_presets=init_presets, init=init):
                def __init__(self, **kw):
                    nth = sum(1 for inst, _ in b.ctor_log if type(inst) is type(self))
                    b.ctor_log.append((self, dict(kw)))
                    for n, v, where in init_presets:
                        if where.startswith("init_if:") and not kw.get(where[8:]):
                            continue
                        if where.startswith("init_nth:") and int(where[9:]) != nth:
                            continue
                        if is_param(v):
                            setattr(self, n, kw[v[1]])
                        else:
                            setattr(self, n, val(v))
                g = ns.__dict__           # forward references in the annotations resolve here
                dfl = cc.get("defaults") or {}
                sig = []
                for p in params:
                    if p in dfl:        # `p: T = <default>`: the default object lives in the module namespace
                        dk, form = dfl[p], dict((x[0], x[1]) for x in init)[p]
                        cid = form[1] if form[0] in ("cls", "fwd") else None
                        g["_dflt_%d_%s" % (k, p)] = (None if dk == "None" else False if dk == "false" else
                                                    (3 if cid == 1 else 1.0) if dk == "number" else
                                                    pool[int(dk[5:])] if dk.startswith("pool:") else
                                                    (cls_of[cid]() if cid is not None and 20 <= cid < 100 and cid in cls_of else object()))
                        sig.append("%s=_dflt_%d_%s" % (p, k, p))
                    else:
                        sig.append(p)
                # parameters without a default cannot follow one with a default unless they are keyword-only
                seen_default, kwonly = False, False
                for x in sig:
                    if "=" in x:
                        seen_default = True
                    elif seen_default:
                        kwonly = True
                src = "def __init__(self%s%s):\n    _impl_%d(self%s)\n" % (
                    ", *" if kwonly else "", "".join(", %s" % x for x in sig), k, "".join(", %s=%s" % (p, p) for p in params))
                g["_impl_%d" % k] = __init__
                exec(src, g)
                f = g.pop("__init__")
                f.__annotations__ = {}
                return f
            initf = mk_init()
        else:
            def initf(self):
                b.ctor_log.append((self, {}))
            initf.__name__ = "__init__"
        for lvl in (0, 1):
            levels[lvl]["__module__"] = NS
            levels[lvl]["__annotations__"] = dict(bound_ann[lvl])
        init_lvl = cc.get("init_level", 1) if cc["base"] else 1
        levels[init_lvl]["__init__"] = initf
        levels[1 if not cc["base"] else (k % 2)]["execute"] = lambda self: None
        if cc["setup"]:
            levels[1]["setup"] = lambda self: snap()
        if cc["falsy"]:
            levels[1]["__bool__"] = lambda self: False
        if cc["base"]:
            basec = type("CB%d" % k, (object,), levels[0])
            derived = type("C%d" % k, (basec,), levels[1])
            cls_of[comp_base_cid(k)] = basec
            setattr(ns, basec.__name__, basec)
        else:
            basec = None
            derived = type("C%d" % k, (object,), levels[1])
        cls_of[comp_cid(k)] = derived
        setattr(ns, derived.__name__, derived)
        comp_classes.append((basec, derived, ann, initf, init))
    # annotations are filled once every class exists (they may refer to each other)
    for k, (basec, derived, ann, initf, init) in enumerate(comp_classes):
        if basec is not None:
            basec.__annotations__ = {n: hint_obj(f) for n, f in ann[0].items()}
        derived.__annotations__ = {n: hint_obj(f) for n, f in ann[1].items()}
        if init is not None:
            initf.__annotations__ = {p: hint_obj(f) for p, f in init}
            initf.__annotations__["return"] = None
    b.comp_classes = [d for (_, d, _, _, _) in comp_classes]
    # mode classes / objects
    b.modes = []
    for k, md in enumerate(spec["modes"]):
        instp = [(n, v) for n, where, v in md["presets"] if where == "inst"]
        owner = mode_class_owner(spec, k)
        if owner != k:          # one more instance of an earlier mode's class; MODE_NAME is what tells them apart
            m = cls_of[mode_cid(owner)]()
            m.MODE_NAME = md["name"]
            for n, v in instp:
                setattr(m, n, val(v))
            cls_of[mode_cid(k)] = cls_of[mode_cid(owner)]
            b.modes.append(m)
            continue
        d = {"__module__": NS, "MODE_NAME": md["name"],
             "__annotations__": {n: hint_obj(f) for n, f in md["hints"]}}
        initp = []
        based = {"__module__": NS}
        for n, where, v in md["presets"]:
            if where == "inst":
                continue
            if where == "init":
                initp.append((n, v))
            elif is_bound(v):
                (based if where == "base" else d)[n] = make_bound(v)
            else:
                (based if where == "base" else d)[n] = val(v)
        if initp:
            def minit(self, initp=initp):
                for n, v in initp:
                    setattr(self, n, val(v))
            d["__init__"] = minit
        if md["setup"]:
            d["setup"] = lambda self: snap()
        mbase = type("MB%d" % k, (object,), based) if len(based) > 1 else object
        mann = d["__annotations__"]
        d["__annotations__"] = {n: t for n, t in mann.items() if is_bound(dict((x[0], x[2]) for x in md["presets"]).get(n))
                                and isinstance(t, type)}
        mc = type("M%d" % k, (mbase,), d)
        mc.__annotations__ = mann
        cls_of[mode_cid(k)] = mc
        m = mc()
        for n, v in instp:
            setattr(m, n, val(v))
        b.modes.append(m)
    # the robot class
    base_d = {"__module__": NS, "__annotations__": {}}
    der_d = {"__module__": NS, "__annotations__": {}}
    create = []

    def rh_obj(form):
        if form[0] == "comp":
            return b.comp_classes[form[1]]
        if form[0] == "cls":
            return cls_of[form[1]]
        return hint_obj(form[1])
    for n, lvl, form in spec["rhints"]:
        (base_d if (lvl == "base" and spec["rbase"]) else der_d)["__annotations__"][n] = rh_obj(form)
    for n, lvl, kind, v in spec["rattrs"]:
        if lvl == "create":
            create.append((n, kind, v))
            continue
        d = base_d if (lvl == "base" and spec["rbase"]) else der_d
        if kind == "plain":
            # a plain function in a class body would become a bound method of the robot
            d[n] = staticmethod(val(v)) if v in funcs else val(v)
        elif kind == "method":
            d[n] = (lambda self: None)
        else:
            d[n] = property(lambda self, v=v: val(v))

    def createObjects(self):
        for n, kind, v in create:
            if kind == "method":      # a bound method of the robot, or of some other object
                setattr(self, n, types.MethodType(lambda self: None, self if len(n) % 2 else object()))
            else:
                setattr(self, n, val(v))
    (base_d if (spec["rbase"] and spec.get("create_in_base")) else der_d)["createObjects"] = createObjects
    der_d["teleopPeriodic"] = lambda self: None
    parent = magicbot.MagicRobot
    if spec["rbase"]:
        parent = type("RB", (parent,), base_d)
    b.robot_cls = type("R", (parent,), der_d)
    return b


def comp_hints(cc):
    """[(name, form)] as typing.get_type_hints merges them: base class first,
    a re-annotated name keeps its place and takes the derived annotation"""
    out, pos = [], {}
    for n, lvl, form in sorted(cc["hints"], key=lambda h: (h[1] if cc["base"] else 1)):
        if n in pos:
            out[pos[n]] = (n, form)
        else:
            pos[n] = len(out)
            out.append((n, form))
    return out


def robot_hints(spec):
    """[(name, form, index in spec['rhints'])] in get_type_hints order"""
    out, pos = [], {}
    ents = [(i, e) for i, e in enumerate(spec["rhints"])]
    ents.sort(key=lambda ie: 0 if (ie[1][1] == "base" and spec["rbase"]) else 1)
    for i, (n, lvl, form) in ents:
        if n in pos:
            out[pos[n]] = (n, form, i)
        else:
            pos[n] = len(out)
            out.append((n, form, i))
    return out


def merged_hints(b, k):
    return comp_hints(b.spec["comps"][k])


def watch_comp(b, k, cname):
    cc = b.spec["comps"][k]
    inst = instance_of(b.spec, cname)
    eff = effective_presets(b.spec, k, cname, inst[1] if inst else 0)
    return [n for n, _ in merged_hints(b, k)] + [p for p, _ in (cc["init"] or [])] + [n for _, n, _ in eff]


def watch_mode(b, k):
    md = b.spec["modes"][k]
    return [h[0] for h in md["hints"]] + [n for n, _, _ in md["presets"]]


def raw_snapshot(b):
    """raw attribute values (python objects) of every component and mode, now"""
    out = {"comps": {}, "modes": []}
    r = b.robot
    for n, lvl, form in b.spec["rhints"]:
        if form[0] != "comp":
            continue
        c = getattr(r, n, MISSING)
        if c is MISSING or not any(c is x for x, _ in b.ctor_log):
            continue
        bound = {x[0]: x[2] for x in b.spec["comps"][form[1]]["presets"] if is_bound(x[2])}
        out["comps"][n] = (c, [bound_state(c, a, bound[a], True) if a in bound else getattr(c, a, MISSING)
                               for a in watch_comp(b, form[1], n)])
    for k, m in enumerate(b.modes):
        bound = {x[0]: x[2] for x in b.spec["modes"][k]["presets"] if is_bound(x[2])}
        out["modes"].append([bound_state(m, a, bound[a], False) if a in bound else getattr(m, a, MISSING)
                             for a in watch_mode(b, k)])
    return out


class StubSelector:
    modes = {}

    def __init__(self, *a, **kw):
        self.modes = dict(StubSelector.modes)


def run_robot(spec):
    """Build and start; returns a result dict with canonical observations."""
    import magicbot.magicrobot as mr
    import magicbot.inject as mi
    b = build(spec)
    b.hints_ok = True
    res = {"b": b}
    extra = inherited_values(b)
    res["inherited"] = {n: [e[0], e[1], e[2], e[4], e[3] is None] for n, e in extra.items()}
    try:        # typing.get_type_hints is an input of the model: check the predicted merge order
        for k, c in enumerate(b.comp_classes):
            if list(typing.get_type_hints(c).keys()) != [n for n, _ in comp_hints(spec["comps"][k])]:
                res["hints_error"] = "component class %d: unexpected hint order" % k
        got = [n for n in typing.get_type_hints(b.robot_cls).keys()]
        if got != [n for n, _, _ in robot_hints(spec)]:
            res["hints_error"] = "robot: unexpected hint order %r" % got
    except Exception as e:       # the generator avoids this; record it if it happens
        b.hints_ok = False
        res["hints_error"] = repr(e)
    modes = {}
    for k, m in enumerate(b.modes):
        modes[m.MODE_NAME] = m
    env = spec_env(spec)
    res["env_seen"] = set_driver_station(env)        # in force from MagicRobot() to the end of start-up
    try:
        return _start(spec, b, res, modes)
    finally:
        set_driver_station(ENV_OFF)


def _start(spec, b, res, modes):
    import magicbot.magicrobot as mr
    import magicbot.inject as mi
    extra = inherited_values(b)
    try:
        bot = b.robot_cls()
        b.robot = bot
        if spec["path"] == "init":
            saved = mr.AutonomousModeSelector
            StubSelector.modes = modes
            mr.AutonomousModeSelector = StubSelector
            try:
                bot.robotInit()
            finally:
                mr.AutonomousModeSelector = saved
        else:
            bot.createObjects()
            bot._automodes = types.SimpleNamespace(modes=modes)
            bot._create_components()
        res["outcome"] = 0
    except Exception as e:
        if type(e) is mi.MagicInjectError:
            res["outcome"] = 1
        elif type(e) is TypeError:
            res["outcome"] = 2
        else:
            res["outcome"] = 3
        res["exc"] = "%s: %s" % (type(e).__name__, str(e)[:200])
        return res
    # canonicalise
    ids = {}
    for oid, v in b.pool.items():
        ids[id(v)] = oid
    for n, (oid, cid, truthy, v, kind) in extra.items():
        if v is not None:
            ids.setdefault(id(v), oid)
    comp_oid = {}
    for i, (n, lvl, form) in enumerate(spec["rhints"]):
        if form[0] == "comp":
            comp_oid[n] = 500 + i
    final = raw_snapshot(b)
    for n, (c, _) in final["comps"].items():
        ids[id(c)] = comp_oid[n]
    order = [n for n, _ in getattr(bot, "_components", [])]
    res["order"] = order

    def canon(v):
        if isinstance(v, BoundState):        # "bound": intact; else what sits in __dict__ over it
            return "bound" if v.intact else ("other" if v.in_dict is MISSING else canon(v.in_dict))
        if v is MISSING:
            return "abs"
        if v is None:
            return "none"
        if id(v) in ids:
            return ids[id(v)]
        return "other"
    kw_of = {id(c): kw for c, kw in b.ctor_log}
    ctor = []
    for n in order:
        c = getattr(bot, n, None)
        kws = kw_of.get(id(c), {})
        ctor.append([n, comp_oid.get(n, UNKNOWN), [[p, canon(v)] for p, v in kws.items()]])
    res["ctor"] = ctor

    kof = {n: form[1] for n, lvl, form in spec["rhints"] if form[0] == "comp"}

    def named(vals, names, presets, target, k):
        idx = {x[0]: j for j, x in enumerate(presets) if is_bound(x[2])}
        return [bound_oid(target, k, idx[a]) if (c == "bound" and a in idx) else c for a, c in zip(names, [canon(v) for v in vals])]

    def canon_snap(s):
        out = []
        for n in order:
            if n in s["comps"] and n in kof:
                out.append([n, named(s["comps"][n][1], watch_comp(b, kof[n], n), spec["comps"][kof[n]]["presets"], "c", kof[n])])
            else:
                out.append([n, None])
        return {"comps": out, "modes": [named(m, watch_mode(b, j), spec["modes"][j]["presets"], "m", j)
                                        for j, m in enumerate(s["modes"])]}
    res["final"] = canon_snap(final)
    res["setups"] = [canon_snap(s) for s in b.snaps]
    return res


def inherited_values(b):
    """public names of dir(robot class) that the spec did not generate but that a
    lookup could hit: name -> (oid, cid, truthy, value)"""
    spec = b.spec
    own = {n for n, _, _, _ in spec["rattrs"]}
    out = {}
    k = 0
    for n in sorted(lookup_names(spec) & set(dir(b.robot_cls))):
        if n in own or n.startswith("_"):
            continue
        v = getattr(b.robot_cls, n, None)
        cid = {float: 4, bool: 7, int: 1, str: 2, types.BuiltinFunctionType: 14}.get(
            type(v), 9 if isinstance(v, logging.Logger) else OTHER_CLS)
        kind = "plain"
        if isinstance(v, property) or type(v).__name__ == "tunable":
            kind = "property"
        elif inspect.isfunction(v):
            kind = "method"
        elif callable(v):       # e.g. the static pybind11 functions isReal / isSimulation: not bound methods
            kind = "callable"
        oid = 900 + k
        for po, pv in b.pool.items():       # True/False/0/'' are singletons: one identity, one id
            if pv is v:
                oid = po
        out[n] = (oid, cid, bool(v) if kind == "plain" else True, v, kind)
        k += 1
    return out


def lookup_names(spec):
    names = set()
    targets = []
    for n, lvl, form in spec["rhints"]:
        names.add(n)
        if form[0] == "comp":
            cc = spec["comps"][form[1]]
            targets.append((n, [h[0] for h in cc["hints"]] + [p for p, _ in (cc["init"] or [])]))
    for md in spec["modes"]:
        targets.append((md["name"], [h[0] for h in md["hints"]]))
    for c, ns in targets:
        for a in ns:
            names.add(a)
            names.add("%s_%s" % (c, a))
    return names


# ---------------------------------------------------------------------------
# the property, stated in Python over the spec (oracle for the search; the
# deciding comparison is the one inside Coq)
# ---------------------------------------------------------------------------
def analyse(spec, inherited):
    """What the property demands of this robot definition."""
    up = parents_of(spec)
    info = {}                                   # oid -> class id
    truthy = {}
    callables = {}                              # oid -> what kind of callable (never a bound method)
    for oid, kind, cid in spec["pool"]:
        info[oid] = cid if kind == "inst" else KIND_CLS[kind]
        truthy[oid] = KIND_TRUTHY[kind]
        if pool_callable(kind, cid):
            callables[oid] = "instance-with-__call__" if kind == "inst" else kind
    rattrs = {}                                 # every name of dir(robot): (kind, oid|None)
    for n, (oid, cid, tr, kind, isnone) in inherited.items():
        rattrs[n] = (kind, None if isnone else oid)
        info[oid] = cid
        truthy.setdefault(oid, bool(tr))
        if kind == "callable":
            callables[oid] = "inherited-static-function"
    for n, lvl, kind, v in spec["rattrs"]:
        rattrs[n] = (kind, v)
    # the robot's injectables: every public attribute except "logger", properties/tunables and BOUND
    # METHODS -- "the very object stored on the robot under the same name", callable or not
    inj = {}
    for n, (kind, v) in rattrs.items():
        if n.startswith("_") or n == "logger" or kind not in ("plain", "callable") or v is None:
            continue
        inj[n] = v
    comps, faults = [], []
    for n, form, i in robot_hints(spec):
        if n.startswith("_") or n in rattrs:
            continue
        if form[0] == "comp":
            comps.append((n, form[1], 500 + i))
            info[500 + i] = comp_cid(form[1])
            truthy[500 + i] = not spec["comps"][form[1]]["falsy"]
        elif form[0] == "nontype":
            faults.append(("robot", n, n, "nontype", 2))
        # ("cls", builtin) without a value is not generated

    def pick(m, c, a):
        return m.get(a, m.get("%s_%s" % (c, a)))

    def state(m, name, T):
        """how the object stored under `name` relates to the annotated type T"""
        if name not in m:
            return "None" if (name in rattrs and rattrs[name] == ("plain", None)) else "absent"
        o = m[name]
        if not is_sub(up, info[o], T):
            return "wrong"
        if not truthy.get(o, True):
            return "falsy"
        if o in callables:
            return "callable"
        return "right" if info[o] == T else "subclass"
    combos = []
    callable_reqs = []
    name_reqs = []

    def req(m, c, a, form, where):
        ft = form_type(form)
        if ft[0] == "nontype":
            faults.append((where, c, a, "nontype", 2))
            return None
        combos.append((where, state(m, a, ft[1]), state(m, "%s_%s" % (c, a), ft[1])))
        if name_class(a):
            name_reqs.append((where, name_class(a), "plain+prefixed-name" if (a in m and "%s_%s" % (c, a) in m) else
                              "plain-name" if a in m else "prefixed-name" if "%s_%s" % (c, a) in m else "absent"))
        o = pick(m, c, a)
        if o is None:
            faults.append((where, c, a, "absent", 1))
            return None
        if not is_sub(up, info[o], ft[1]):
            faults.append((where, c, a, "mistyped-under-plain-name" if a in m else "mistyped-under-prefixed-name", 1))
            return None
        if o in callables:
            callable_reqs.append((where, callables[o], "plain-name" if a in m else "prefixed-name"))
        return o
    exp_ctor, exp_attr, rel = {}, {}, {}
    ctor_reqs = []              # (component, parameter, kind of its default | None, "served" | fault kind)
    m = dict(inj)
    for n, k, oid in comps:
        cc = spec["comps"][k]
        args = []
        for p, form in (cc["init"] or []):
            nf = len(faults)
            if p.startswith("_"):
                faults.append(("ctor", n, p, "private-param", 1))
            else:
                args.append((p, req(m, n, p, form, "ctor")))
            ctor_reqs.append((n, p, (cc.get("defaults") or {}).get(p), faults[nf][3] if len(faults) > nf else "served"))
        exp_ctor[n] = args
        m[n] = oid
    nth_of = {n: nth for n, k, nth in comp_instances(spec, set(rattrs))}
    for n, k, oid in comps:
        cc = spec["comps"][k]
        has = {x[1] for x in effective_presets(spec, k, n, nth_of.get(n, 0))} | {"logger"}      # of THIS instance
        for a, form in comp_hints(cc):
            if a.startswith("_") or a in has:
                continue
            exp_attr[("c", n, a)] = req(m, n, a, form, "attr")
            rel[("c", n, a)] = classify(m, inj, comps, n, a)
    for j, md in enumerate(spec["modes"]):
        has = {x[0] for x in md["presets"]} | {"logger"}
        for a, form in md["hints"]:
            if a.startswith("_") or a in has:
                continue
            exp_attr[("m", j, a)] = req(m, md["name"], a, form, "mode")
    return {"comps": comps, "faults": faults, "exp_ctor": exp_ctor, "exp_attr": exp_attr, "rel": rel, "ctor_reqs": ctor_reqs,
            "info": info, "inj": inj, "combos": combos, "callable_reqs": callable_reqs, "callables": callables,
            "name_reqs": name_reqs}


def shared_note(spec, cname=None, mode=None):
    """' [one of the N components / modes of one class: ...]' when the target shares its class"""
    if cname is not None:
        inst = instance_of(spec, cname)
        same = [n for n, k, _ in comp_instances(spec) if inst and k == inst[0]]
        what = "components"
    else:
        o = mode_class_owner(spec, mode)
        same = [spec["modes"][j]["name"] for j in range(len(spec["modes"])) if mode_class_owner(spec, j) == o]
        what = "autonomous modes"
    if len(same) < 2:
        return ""
    return " [one of the %d %s that are instances of ONE class, in creation order: %s; each instance's own hasattr decides]" % (
        len(same), what, ", ".join(same))


def bound_text(v):
    return "%s(%r)" % ("tunable" if v[0] == "tunable" else "will_reset_to", bound_default(v[1], v[2]))


def classify(m, inj, comps, c, a):
    pa = "%s_%s" % (c, a)
    names = [x[0] for x in comps]
    if a in m:
        if a in names:
            return "component-earlier" if names.index(a) < names.index(c) else (
                "component-self" if a == c else "component-later")
        return "both" if pa in m else "by-name"
    return "prefix-only" if pa in m else "absent"


def oracle(spec, res):
    """list of violations of the PROPERTY on the implementation's behaviour"""
    an = analyse(spec, res["inherited"])
    v = []
    faults = an["faults"]
    if res["outcome"] != 0:
        if not faults:
            bound = ["%s.%s = %s" % (n, x[0], bound_text(x[2])) for n, k, _ in an["comps"] for x in spec["comps"][k]["presets"] if is_bound(x[2])]
            bound += ["%s.%s = %s" % (md["name"], x[0], bound_text(x[2])) for md in spec["modes"] for x in md["presets"] if is_bound(x[2])]
            v.append(("spurious-startup-failure", "startup raised %s although every request can be served%s" % (
                res.get("exc"), (" (attributes that already have a value: %s)" % ", ".join(bound)) if bound else "")))
        elif res["outcome"] == 3:
            v.append(("not-an-injection-error", "startup raised %s" % res.get("exc")))
        elif all(f[4] == 1 for f in faults) and res["outcome"] != 1:
            v.append(("not-an-injection-error", "missing/mistyped injectable reported as %s" % res.get("exc")))
        return v
    if faults:
        f = faults[0]
        dnote = ""
        if f[0] == "ctor":
            dk = [d for (cn, p, d, _) in an["ctor_reqs"] if cn == f[1] and p == f[2] and d]
            got = [o for (cn, _, kws) in res.get("ctor", []) if cn == f[1] for p, o in kws if p == f[2]]
            if dk:
                dnote = "; the parameter declares a default (%s), which is no substitute: the constructor received %r" % (
                    default_text(dk[0]), got[0] if got else "?")
        v.append(("started-with-%s-dependency/%s" % (f[3], f[0]),
                  "startup succeeded although the %s request %s.%s is %s (clause: 'if no such object exists or it is not an "
                  "instance of the annotated type, startup fails with an injection error')%s" % (f[0], f[1], f[2], f[3], dnote)))
        return v
    b = types.SimpleNamespace(spec=spec)
    order = res["order"]
    if order != [c[0] for c in an["comps"]]:
        v.append(("component-order", "components created as %r, declared %r" % (order, [c[0] for c in an["comps"]])))
        return v
    for n, oid, kws in res["ctor"]:
        if [[p, o] for p, o in an["exp_ctor"][n]] != kws:
            dfl = {p: d for (cn, p, d, _) in an["ctor_reqs"] if cn == n and d}
            v.append(("ctor-argument", "constructor of %s got %r, robot attributes and earlier components give %r%s" % (
                n, kws, an["exp_ctor"][n], ("; declared defaults (never to be used): %s" % ", ".join(
                    "%s=%s" % (p, default_text(d)) for p, d in sorted(dfl.items()))) if dfl else "")))
            return v
    kmap = {n: k for n, k, _ in an["comps"]}

    def check_snap(sn, when):
        for n, vals in sn["comps"]:
            if vals is None:
                v.append(("setup-before-all-components", "%s: component %s does not exist yet" % (when, n)))
                return
            cc = spec["comps"][kmap[n]]
            names = watch_comp(b, kmap[n], n)
            inst = instance_of(spec, n)
            presets = {a: (["bound", bound_oid("c", kmap[n], j)] if is_bound(pv) else pv)
                       for j, a, pv in effective_presets(spec, kmap[n], n, inst[1] if inst else 0)}
            kws = dict(an["exp_ctor"][n])
            for a, got in zip(names, vals):
                if ("c", n, a) in an["exp_attr"]:
                    if got != an["exp_attr"][("c", n, a)]:
                        v.append(("wrong-object", "%s: %s.%s is %r, the robot stores %r%s" % (when, n, a, got, an["exp_attr"][("c", n, a)],
                                                                                            shared_note(spec, cname=n))))
                        return
                else:
                    if a in presets:
                        pv = presets[a]
                        want = kws.get(pv[1], "abs") if is_param(pv) else pv[1] if isinstance(pv, list) else ("none" if pv is None else pv)
                    elif a == "logger":
                        want = "other"
                    else:
                        want = "abs"
                    if got != want:
                        if a in presets and isinstance(presets[a], list) and presets[a][0] == "bound":
                            bv = [x[2] for x in cc["presets"] if x[0] == a][0]
                            v.append(("descriptor-backed-attribute-touched", "%s: %s.%s = %s already has a value but is no longer the untouched "
                                      "attribute: observed %r (an object id = that robot object was written into __dict__ under the name; 'abs' = "
                                      "reading it raises AttributeError), expected %r (clause: 'attributes that already have a value are left "
                                      "untouched')" % (when, n, a, bound_text(bv), got, want)))
                            return
                        v.append(("touched", "%s: %s.%s (preset/private/unannotated) is %r, was %r%s" % (when, n, a, got, want,
                                                                                                       shared_note(spec, cname=n))))
                        return
        for j, vals in enumerate(sn["modes"]):
            md = spec["modes"][j]
            presets = {x[0]: (bound_oid("m", j, i) if is_bound(x[2]) else x[2]) for i, x in enumerate(md["presets"])}
            boundp = {x[0] for x in md["presets"] if is_bound(x[2])}
            for a, got in zip(watch_mode(b, j), vals):
                if ("m", j, a) in an["exp_attr"]:
                    want = an["exp_attr"][("m", j, a)]
                    kind = "wrong-object"
                else:
                    kind = "descriptor-backed-attribute-touched" if a in boundp else "touched"
                    want = ("none" if presets[a] is None else presets[a]) if a in presets else ("other" if a == "logger" else "abs")
                if got != want:
                    if a in boundp:
                        bv = [x[2] for x in md["presets"] if x[0] == a][0]
                        v.append((kind, "%s: mode %s.%s = %s already has a value but is no longer the untouched attribute: observed %r (an "
                                  "object id = that robot object was written into __dict__ under the name; 'abs' = reading it raises "
                                  "AttributeError), expected %r (clause: 'attributes that already have a value are left untouched')"
                                  % (when, md["name"], a, bound_text(bv), got, want)))
                        return
                    v.append((kind, "%s: mode %s.%s is %r, expected %r%s" % (when, md["name"], a, got, want, shared_note(spec, mode=j))))
                    return
    for i, sn in enumerate(res["setups"]):
        check_snap(sn, "at setup() call %d" % (i + 1))
        if v:
            return v
    check_snap(res["final"], "after startup")
    nset = sum(1 for n, k, _ in an["comps"] if spec["comps"][k]["setup"]) + sum(1 for md in spec["modes"] if md["setup"])
    if not v and len(res["setups"]) != nset:
        v.append(("setup-count", "%d setup() calls, %d expected" % (len(res["setups"]), nset)))
    return v


# ---------------------------------------------------------------------------
# emission of the model input and of the observation as Coq terms
# ---------------------------------------------------------------------------
def emit_case(spec, res):
    an_info = {}
    for oid, kind, cid in spec["pool"]:
        an_info[oid] = (cid if kind == "inst" else KIND_CLS[kind], KIND_TRUTHY[kind])

    def cobj(oid):
        c, t = an_info[oid]
        return "(Build_obj %s %s %s)" % (coq_nat(oid), coq_nat(c), coq_bool(t))

    def cval(v):
        return "None" if v is None else "(Some %s)" % cobj(v)

    def cpval(v, boid):
        if is_param(v):
            return "PParam %s" % coq_string(v[1])
        if is_bound(v):         # the value the bound descriptor reads, an object of its own
            return "PBound (Some (Build_obj %s %s %s))" % (coq_nat(boid), coq_nat(BOUND_CLS[v[1]]), coq_bool(bool(v[2])))
        return "PConst %s" % cval(v)

    def chints(l):
        return coq_list(["(%s, %s)" % (coq_string(n), coq_hint(f)) for n, f in l])
    a_classes, b_classes = set(c for c, _ in an_info.values()), set()

    def note(forms):
        for f in forms:
            ft = form_type(f)
            if ft[0] == "type":
                b_classes.add(ft[1])
    dirl = []
    for n, (oid, cid, truthy, kind, isnone) in res["inherited"].items():
        an_info[oid] = (cid, truthy)
        a_classes.add(cid)
        dirl.append((n, kind, None if isnone else oid))
    for n, lvl, kind, v in spec["rattrs"]:
        dirl.append((n, kind, v))
    dirl.sort()
    kinds = {"plain": "KPlain", "callable": "KCallable", "method": "KMethod", "property": "KDescriptor"}
    callable_oids = {oid for oid, kind, cid in spec["pool"] if pool_callable(kind, cid)}
    dirl = [(n, "callable" if (k == "plain" and v in callable_oids) else k, v) for n, k, v in dirl]
    r_dir = coq_list(["(Build_rattr %s %s %s)" % (coq_string(n), kinds[k], cval(v) if k in ("plain", "callable") else "None")
                      for n, k, v in dirl])

    def classdef(k, cname):
        cc = spec["comps"][k]
        pres = []
        inst = instance_of(spec, cname)
        for j, n, v in effective_presets(spec, k, cname, inst[1] if inst else 0):      # what THIS instance has
            pres.append("(%s, %s)" % (coq_string(n), cpval(v, bound_oid("c", k, j))))
        note([f for _, f in comp_hints(cc)] + [f for _, f in (cc["init"] or [])])
        return "(Build_classdef %s %s %s %s %s)" % (coq_nat(comp_cid(k)), chints(cc["init"] or []), chints(comp_hints(cc)),
                                                    coq_list(pres), coq_bool(cc["setup"]))
    rh = []
    for n, form, i in robot_hints(spec):
        if form[0] == "comp":
            a_classes.add(comp_cid(form[1]))
            rh.append("(%s, RClass (Build_compdef %s %s %s))" % (coq_string(n), coq_nat(500 + i),
                      coq_bool(not spec["comps"][form[1]]["falsy"]), classdef(form[1], n)))
        elif form[0] == "cls":
            rh.append("(%s, RClass (Build_compdef 4998%%nat true (Build_classdef %s [] [] [] false)))" % (coq_string(n), coq_nat(form[1])))
        else:
            rh.append("(%s, RNonType)" % coq_string(n))
    modes = []
    for mk, md in enumerate(spec["modes"]):
        note([f for _, f in md["hints"]])
        modes.append("(Build_modedef %s %s %s %s)" % (coq_string(md["name"]), chints([(n, f) for n, f in md["hints"]]),
                     coq_list(["(%s, %s)" % (coq_string(n), cpval(v, bound_oid("m", mk, j))) for j, (n, _, v) in enumerate(md["presets"])]), coq_bool(md["setup"])))
    robot = "(Build_robot %s %s %s)" % (r_dir, coq_list(rh), coq_list(modes))
    up = parents_of(spec)
    pairs = coq_list(["(%s, %s)" % (coq_nat(a), coq_nat(b)) for a in sorted(a_classes) for b in sorted(b_classes) if is_sub(up, a, b)])

    def tok(v):
        if v == "abs":
            return "TAbs"
        if v == "none":
            return "TNone"
        if v == "other":
            return "TOther"
        return "TNat %s" % coq_nat(v)

    def snap_toks(sn):
        out = []
        for n, vals in sn["comps"]:
            out += ["TSep", "TStr %s" % coq_string(n)] + [tok(x) for x in (vals or [])]
        for j, vals in enumerate(sn["modes"]):
            out += ["TSep", "TStr %s" % coq_string(spec["modes"][j]["name"])] + [tok(x) for x in vals]
        return coq_list(out)
    if res["outcome"] == 0:
        ct = []
        for n, oid, kws in res["ctor"]:
            ct += ["TSep", "TStr %s" % coq_string(n), "TNat %s" % coq_nat(oid)]
            for p, v in kws:
                ct += ["TStr %s" % coq_string(p), "TNat %s" % coq_nat(v if isinstance(v, int) else UNKNOWN)]
        obs = "(Build_observation %s %s %s)" % (coq_list(ct), coq_list([snap_toks(x) for x in res["setups"]]), snap_toks(res["final"]))
    else:
        obs = "(Build_observation [] [] [])"
    classes = set(f[4] for f in analyse(spec, res["inherited"])["faults"])
    strict = len(classes) <= 1
    ir = "(Build_impl_result %s %s %s)" % (coq_nat(res["outcome"]), coq_bool(strict), obs)
    env = spec_env(spec)
    dd = []         # the defaults the component classes declare, per component (the model carries them along, unread)
    for n, form, i in robot_hints(spec):
        dfl = (spec["comps"][form[1]].get("defaults") or {}) if form[0] == "comp" else {}
        if dfl:
            ents = []
            for q, dk in sorted(dfl.items()):
                ents.append("(%s, %s)" % (coq_string(q), cval(int(dk[5:])) if dk.startswith("pool:") and int(dk[5:]) in an_info else
                                          "None" if dk == "None" else "(Some (Build_obj 4997%nat 0%nat true))"))
            dd.append("(%s, %s)" % (coq_string(n), coq_list(ents)))
    return "(%s, %s, (Build_env %s %s), %s, %s)" % (pairs, coq_list(dd), coq_bool(env["fms"]), coq_bool(env["enabled"]), robot, ir)


HEADER = ("From Coq Require Import List String Bool Arith.\nFrom RV Require Import Inject.Model.\n"
          "Import ListNotations.\nOpen Scope string_scope.\nOpen Scope list_scope.\n")


def cases_file(terms):
    return (HEADER + "Definition cases : list (list (cls * cls) * list (name * init_defaults) * env * robot * impl_result) :=\n%s.\n"
            "Eval vm_compute in (bad_dflt 0 cases).\n" % coq_list(terms))


# ---------------------------------------------------------------------------
# generator
# ---------------------------------------------------------------------------
SINGLETONS = ("zero", "empty", "etuple", "true", "false", "float", "builtin")
FALSY = ("zero", "empty", "elist", "etuple", "false", "float", "edict")
OK_REL = ["name"] * 8 + ["prefix"] * 4 + ["both"] * 3 + ["none_prefix"] * 2 + ["subclass"] * 3 + ["falsy"] * 4 + [
    "preset_class", "preset_init", "preset_none", "private", "alias_ok", "alias_ok", "compref", "compref",
    "compref", "compref", "logger", "inherited", "fwd", "object"] + ["callable"] * 4 + ["callable_prefix"] * 2 + [
    "inherited_callable"] + ["oddname"] * 3 + ["oddname_both", "oddname_prefix"] + ["tunable"] * 4 + ["reset"] * 2
CTOR_REL = ["name"] * 6 + ["prefix"] * 3 + ["both", "none_prefix", "subclass", "falsy", "falsy", "alias_ok", "object",
                                            "fwd", "inherited"] + ["callable"] * 3 + ["callable_prefix", "inherited_callable"] + [
                                                "oddname", "oddname", "oddname_both", "oddname_prefix"]
BAD_REL = ["absent", "absent", "wrongtype", "wrongtype", "alias_wrong", "optional", "union", "lit", "compref_wrong",
           "method", "method", "property", "none_only"]


class Gen:
    def __init__(self, rng, flavour):
        self.r = rng
        self.flavour = flavour
        self.budget = {"valid": 0, "onefault": 1, "wild": 99}[flavour]
        nd = rng.randint(1, 3)
        self.data = [[20, 0]]
        for i in range(1, nd):
            self.data.append([20 + i, rng.choice([0] + [d[0] for d in self.data])])
        self.pool = []
        self.single = {}
        self.rattrs = {}            # name -> [level, kind, val]
        self.rbase = rng.random() < 0.3
        self.comp_names = []
        self.comp_class_of = {}
        self.forced = []
        # name pools: mostly the plain ones; one robot in four draws attribute names (one in six component /
        # mode names) from the unusual ones as well -- what a thing is called must not matter
        self.attr_names = list(ATTR_NAMES)
        self.comp_pool = list(COMP_NAMES)
        if rng.random() < 0.25:
            self.attr_names = rng.sample(ATTR_NAMES, 5) + rng.sample(ODD_NAMES, 6)
        if rng.random() < 0.17:
            self.comp_pool = COMP_NAMES[:5] + rng.sample(ODD_COMP_NAMES, 3)

    def supers(self, cid):
        up = {c: [p] if p else [] for c, p in self.data}
        up.update({c + CALL_OFF: [c, CALLABLE_ABC] for c, p in self.data})
        up.update(BUILTIN_UP)
        for k in range(8):
            up[comp_cid(k)] = [comp_base_cid(k)] if k < len(getattr(self, "comps", [])) and self.comps[k]["base"] else []
        return [b for b in [0, 1, 2, 3, 4, 5, 6, 7, 8] + [d[0] for d in self.data] + [comp_cid(k) for k in range(8)]
                + [comp_base_cid(k) for k in range(8)] + [10, 11, 12, 13, 14, 16] + [d[0] + CALL_OFF for d in self.data]
                if is_sub(up, cid, b)]

    def obj(self, kind, cid=0):
        if kind in SINGLETONS and kind in self.single:
            return self.single[kind]
        oid = len(self.pool) + 1
        self.pool.append([oid, kind, cid])
        if kind in SINGLETONS:
            self.single[kind] = oid
        return oid

    def cls_of(self, oid):
        _, kind, cid = self.pool[oid - 1]
        return cid if kind == "inst" else KIND_CLS[kind]

    def fresh(self, falsy=False):
        r = self.r
        if falsy:
            return self.obj(r.choice(FALSY))
        k = r.choice(["inst"] * 5 + ["int", "str", "list", "true"])
        return self.obj(k, r.choice(self.data)[0] if k == "inst" else 0)

    def fresh_callable(self):
        """a callable object that is not a bound method"""
        r = self.r
        k = r.choice(["inst"] * 4 + ["partial", "partial", "klass", "klass", "func", "builtin", "cint"])
        return self.obj(k, r.choice(self.data)[0] + CALL_OFF if k == "inst" else 0)

    def level(self):
        return self.r.choice(["class", "create", "create"] + (["base"] if self.rbase else []))

    def attr(self, name, make, kind="plain"):
        """robot attribute `name`: existing entry or a new one with value make()"""
        if name not in self.rattrs:
            self.rattrs[name] = [self.level(), kind, make() if kind == "plain" else None]
        return self.rattrs[name]

    def want_bad(self):
        if self.budget > 0 and self.r.random() < (0.5 if self.flavour == "onefault" else 0.15):
            self.budget -= 1
            return True
        return False

    def type_for(self, oid):
        s = self.supers(self.cls_of(oid))
        return self.r.choice(s + [s[-1]] * 2)

    def wrong_type_for(self, oid):
        s = set(self.supers(self.cls_of(oid)))
        cand = [c for c in [1, 2, 3, 4, 6] + [d[0] for d in self.data] if c not in s]
        return self.r.choice(cand)

    def hint(self, cname, a_pool, ctor=False):
        """one annotated attribute of a component/mode called cname: (name, form, preset|None)"""
        r = self.r
        bad = self.want_bad()
        rel = r.choice(BAD_REL) if bad else r.choice(CTOR_REL if ctor else OK_REL)
        if self.forced:
            rel = self.forced.pop()
        if r.random() < 0.9:      # mostly keep attribute names apart from component names
            a_pool = [x for x in a_pool if x not in self.comp_names] or a_pool
        a = r.choice(a_pool)
        pa = "%s_%s" % (cname, a)
        preset = None
        if rel == "name" or rel == "fwd" or rel == "object":
            e = self.attr(a, self.fresh)
            form = self.form_of_entry(e, a, cname)
            if rel == "fwd" and form[0] == "cls" and (form[1] >= 20 and form[1] < 100 or form[1] in (1, 2, 3, 4)):
                form = ["fwd", form[1]]
            if rel == "object":
                form = ["cls", 0]
        elif rel == "prefix":
            e = self.attr(pa, self.fresh)
            form = self.form_of_entry(e, a, cname, pa)
        elif rel == "both":
            self.attr(pa, self.fresh)
            e = self.attr(a, self.fresh)
            form = self.form_of_entry(e, a, cname)
        elif rel == "none_prefix":
            self.attr(a, lambda: None)
            e = self.attr(pa, self.fresh)
            form = self.form_of_entry(self.rattrs[a] if self.rattrs[a][2] is not None else e, a, cname, pa)
        elif rel == "none_only":
            self.attr(a, lambda: None)
            form = ["cls", 0]
        elif rel == "subclass":
            kids = [d for d in self.data if d[1]]
            if kids:
                d = r.choice(kids)
                self.attr(a, lambda: self.obj("inst", d[0]))
                form = self.form_of_entry(self.rattrs[a], a, cname, sup=True)
            else:
                self.attr(a, lambda: self.obj("true"))
                form = self.form_of_entry(self.rattrs[a], a, cname, sup=True)
        elif rel == "falsy":
            e = self.attr(a, lambda: self.fresh(True))
            form = self.form_of_entry(e, a, cname)
        elif rel in ("preset_class", "preset_init", "preset_none"):
            if r.random() < 0.5:
                self.attr(a, self.fresh)
            v = None if rel == "preset_none" else self.fresh(r.random() < 0.3)
            preset = [a, r.choice(["class0", "class1"]) if rel != "preset_init" else "init", v]
            form = r.choice([["cls", r.choice(self.data)[0]], ["optional", 20], ["cls", 0], ["lit"]])
        elif rel == "private":
            a = r.choice(["_p", "_q", "_a"])
            if r.random() < 0.5:
                self.attr(a, self.fresh)
            form = r.choice([["cls", 20], ["lit"], ["cls", 0]])
        elif rel == "alias_ok":
            al = r.choice(["list[int]", "List[K]", "Sequence[int]", "dict[str,int]", "Tuple[int,int]"])
            kind = {"list[int]": r.choice(["list", "elist"]), "List[K]": "list", "Sequence[int]": r.choice(["list", "etuple", "str"]),
                    "dict[str,int]": "edict", "Tuple[int,int]": "etuple"}[al]
            e = self.attr(a, lambda: self.obj(kind))
            form = ["alias", al] if e[1] == "plain" and e[2] is not None and is_sub(BUILTIN_UP, self.cls_of(e[2]), ALIASES[al]) \
                else self.form_of_entry(e, a, cname)
        elif rel == "alias_wrong":
            e = self.attr(a, lambda: self.obj("inst", 20))
            form = ["alias", r.choice(["list[int]", "dict[str,int]"])]
        elif rel in ("optional", "union", "lit"):
            self.attr(a, self.fresh)
            form = {"optional": ["optional", 20], "union": ["union", 20], "lit": ["lit"]}[rel]
        elif rel in ("compref", "compref_wrong"):
            if self.comp_names:
                a = r.choice([n for n in self.comp_names if n != cname] or self.comp_names)
                k = self.comp_class_of[a]
                if rel == "compref":
                    form = ["cls", r.choice([comp_cid(k), comp_cid(k), 0] + ([comp_base_cid(k)] if self.comps[k]["base"] else []))]
                else:
                    form = ["cls", r.choice([20, 1] + [comp_cid(j) for j in range(len(self.comps)) if j != k])]
            else:
                e = self.attr(a, self.fresh)
                form = self.form_of_entry(e, a, cname)
        elif rel == "logger":
            a = "logger"
            form = ["cls", 9]
        elif rel == "inherited":
            a = r.choice(INHERITED)
            form = ["cls", {"control_loop_wait_time": 4, "use_teleop_in_autonomous": r.choice([7, 1, 0]),
                            "error_report_interval": r.choice([4, 0])}[a]]
        elif rel == "callable":
            e = self.attr(a, self.fresh_callable)
            form = self.form_of_entry(e, a, cname)
            if form == ["cls", CALLABLE_ABC] and r.random() < 0.5:
                form = ["alias", "Callable[[int],int]"]
        elif rel == "callable_prefix":
            e = self.attr(pa, self.fresh_callable)
            form = self.form_of_entry(e, a, cname, pa)
        elif rel == "inherited_callable":
            a = r.choice(INHERITED_CALLABLE)
            form = r.choice([["cls", 0], ["cls", 14], ["cls", CALLABLE_ABC], ["alias", "Callable[[int],int]"]])
        elif rel in ("oddname", "oddname_both", "oddname_prefix"):
            # an unusual name (substring of "logger", containing it, case variant, trailing underscore ...):
            # stored under the plain name / under both names / under "<cname>_<name>" only
            a = r.choice([x for x in ODD_NAMES if x not in self.comp_names and x != cname])
            pa = "%s_%s" % (cname, a)
            mk = self.fresh if r.random() < 0.8 else (lambda: self.fresh(True))
            if rel == "oddname_prefix":
                e = self.attr(pa, mk)
                form = self.form_of_entry(e, a, cname, pa) if a not in self.rattrs else self.form_of_entry(self.rattrs[a], a, cname)
            else:
                if rel == "oddname_both":
                    self.attr(pa, self.fresh)
                e = self.attr(a, mk)
                form = self.form_of_entry(e, a, cname)
        elif rel in ("tunable", "reset"):
            # `a: float = tunable(0.25)` / `will_reset_to(..)`: already has a value (once the framework bound it), whatever
            # the robot stores under the same name or under "<cname>_<a>"
            a = r.choice(list(BOUND_NAMES) * 2 + [x for x in a_pool if x not in self.comp_names and not x.startswith("_")])
            pa = "%s_%s" % (cname, a)
            kind = bound_kind(a)
            same = lambda: self.obj(BOUND_POOL_KIND[(kind, r.random() < 0.7)])
            x = r.random()
            if x < 0.35:
                self.attr(a, same)
            elif x < 0.5:
                self.attr(pa, same)
            elif x < 0.6:
                self.attr(a, self.fresh)
            elif x < 0.65:
                self.attr(a, lambda: None)
            preset = [a, r.choice(["class0", "class1"]), [rel, kind, r.random() < 0.65]]
            form = ["cls", BOUND_CLS[kind]]
        elif rel == "absent":
            form = ["cls", r.choice([0, 20, 1])]
        elif rel == "wrongtype":
            e = self.attr(a, self.fresh)
            form = ["cls", self.wrong_type_for(e[2])] if e[1] == "plain" and e[2] is not None else ["cls", 20]
        elif rel in ("method", "property"):
            self.attr(a, None, kind=rel)
            form = ["cls", 0]
        else:
            raise ValueError(rel)
        return a, form, preset

    def form_of_entry(self, e, a, cname, name=None, sup=False):
        """a hint that the stored value satisfies (when there is one)"""
        if a in self.comp_names and name is None:
            k = self.comp_class_of[a]
            return ["cls", self.r.choice([comp_cid(k), 0])]
        if e[1] != "plain" or e[2] is None:
            return ["cls", 0]
        if sup:
            s = [c for c in self.supers(self.cls_of(e[2])) if c != self.cls_of(e[2])]
            return ["cls", self.r.choice(s)]
        return ["cls", self.type_for(e[2])]

    def make(self):
        r = self.r
        ncomp = r.choice([0, 1, 1, 1, 2, 2, 2, 2, 3, 3, 3, 4])
        ncls = max(1, ncomp - (1 if r.random() < 0.3 else 0)) if ncomp else 0
        self.comps = [{"base": r.random() < 0.3, "hints": [], "init": None, "init_level": r.choice([0, 1]),
                       "presets": [], "setup": r.random() < 0.6, "falsy": r.random() < 0.15} for _ in range(ncls)]
        names = r.sample(self.comp_pool, ncomp)
        users = {}
        for i, n in enumerate(names):
            k = i if i < ncls else r.randrange(ncls)
            self.comp_names.append(n)
            self.comp_class_of[n] = k
            users.setdefault(k, []).append(n)
        comp_rh = [[n, "base" if (self.rbase and r.random() < 0.4) else "class", ["comp", self.comp_class_of[n]]]
                   for n in names]
        decl = [n for n, _, _ in robot_hints({"rhints": comp_rh, "rbase": self.rbase})]
        for k, cc in enumerate(self.comps):
            cname = users[k][0]
            seen, pres = {}, {}
            for _ in range(r.choice([0, 1, 2, 2, 3, 3, 4, 5])):
                a, form, preset = self.hint(cname, self.attr_names)
                lvl = r.choice([0, 1]) if cc["base"] else 1
                if (a, lvl) in seen or (a in [x[0] for x in seen] and not cc["base"]):
                    continue
                if (a in pres and is_bound(pres[a][2])) or (preset and is_bound(preset[2]) and a in [x[0] for x in seen]):
                    continue            # one annotation per descriptor-backed name (`d: int = tunable(0.25)` is another story)
                seen[(a, lvl)] = form
                cc["hints"].append([a, lvl, form])
                if preset and a not in pres:
                    pres[a] = preset
            if r.random() < 0.35:
                cc["init"] = []
                used = set()
                for _ in range(r.choice([1, 1, 2, 3])):
                    first = min(decl.index(u) for u in users[k])
                    others = [n for n in decl[:first]] if r.random() < 0.9 else [n for n in decl if n not in users[k]]
                    if others and r.random() < 0.45:
                        p = r.choice(others)
                        kk = self.comp_class_of[p]
                        form = ["cls", r.choice([comp_cid(kk), 0])]
                    elif self.want_bad() and r.random() < 0.3:
                        p, form = "_p", ["cls", 0]
                    else:
                        p, form, _ = self.hint(cname, self.attr_names, ctor=True)
                        if p == "logger" or p.startswith("_"):
                            continue
                    if p in used:
                        continue
                    used.add(p)
                    cc["init"].append([p, form])
                    if r.random() < 0.4:        # `p: T = <default>`; the default is never an input of the injection
                        others = [x[0] for x in self.pool]
                        dk = r.choice(["None", "number", "object"] + (["pool:%d" % r.choice(others)] if others else []))
                        cc.setdefault("defaults", {})[p] = dk
                    if r.random() < 0.4 and not p.startswith("_"):
                        tgt = r.choice([p, p + "_kept", r.choice(self.attr_names)])
                        if tgt not in pres:
                            pres[tgt] = [tgt, "init", ["param", p]]
                            if r.random() < 0.5 and tgt not in [h[0] for h in cc["hints"]]:
                                cc["hints"].append([tgt, 1, form])
            cc["presets"] = list(pres.values())
            if len(users[k]) >= 2 and r.random() < 0.5:
                # the instances of this class differ in what they already have: hasattr is a fact about the instance
                cand = [h[0] for h in cc["hints"] if not h[0].startswith("_") and h[0] != "logger" and h[0] not in pres]
                a = r.choice(cand) if cand and r.random() < 0.85 else r.choice(self.attr_names)
                if a not in pres and not a.startswith("_"):
                    v = None if r.random() < 0.15 else self.fresh(r.random() < 0.25)
                    if r.random() < 0.4 and "sim" not in [p for p, _ in (cc["init"] or [])] and "sim" not in self.rattrs:
                        cc["init"] = (cc["init"] or []) + [["sim", ["cls", 7]]]
                        flags = [r.random() < 0.5 for _ in users[k]]
                        if len(set(flags)) == 1:
                            flags[r.randrange(len(flags))] ^= True
                        for u, fl in zip(users[k], flags):
                            self.rattrs["%s_sim" % u] = [self.level(), "plain", self.obj("true" if fl else "false")]
                        cc["presets"].append([a, "init_if:sim", v])
                    else:
                        cc["presets"].append([a, "init_nth:%d" % r.randrange(len(users[k])), v])
        modes = []
        for j in range(r.choice([0, 0, 0, 1, 1, 2])):
            mname = ["auto", "m1", "a"][j] if r.random() < 0.8 else r.choice(self.comp_pool)
            if mname in [m["name"] for m in modes]:
                continue
            md = {"name": mname, "hints": [], "presets": [], "setup": r.random() < 0.5}
            pres = {}
            for _ in range(r.choice([0, 1, 2, 3])):
                a, form, preset = self.hint(mname, self.attr_names)
                if a in [h[0] for h in md["hints"]]:
                    continue
                md["hints"].append([a, form])
                if preset:
                    pres[a] = [a, "init" if preset[1] == "init" else "base" if (is_bound(preset[2]) and preset[1] == "class0") else "class",
                               preset[2]]
            md["presets"] = list(pres.values())
            modes.append(md)
        if modes and len(modes) < 3 and r.random() < 0.3:
            # a second instance of the last mode's class; one of the two gets a value assigned on the instance
            import copy
            twin = copy.deepcopy(modes[-1])
            twin["name"] = [x for x in ("twin", "m2", "b") if x not in [m["name"] for m in modes]][0]
            twin["class_of"] = modes[-1]["name"]
            cand = [h[0] for h in twin["hints"] if not h[0].startswith("_") and h[0] != "logger" and h[0] not in [x[0] for x in twin["presets"]]]
            if cand and r.random() < 0.8:
                v = None if r.random() < 0.15 else self.fresh(r.random() < 0.25)
                (twin if r.random() < 0.5 else modes[-1])["presets"].append([r.choice(cand), "inst", v])
            modes.append(twin)
        # a few unrelated robot attributes
        for _ in range(r.choice([0, 1, 2])):
            n = r.choice(self.attr_names + ["_p", "%s_%s" % (r.choice(self.comp_pool), r.choice(self.attr_names))])
            self.attr(n, lambda: self.fresh(r.random() < 0.3))
        rh = list(comp_rh)
        for n, e in list(self.rattrs.items()):
            if e[0] != "create" and e[1] == "plain" and e[2] is not None and r.random() < 0.15 and not n.startswith("_"):
                rh.append([n, e[0], ["cls", self.cls_of(e[2])] if r.random() < 0.7 else ["nontype", r.choice([["lit"], ["alias", "list[int]"]])]])
        if self.comps and r.random() < 0.05:
            rh.append(["_hidden", "class", ["comp", 0]])
        if self.want_bad() and r.random() < 0.3:
            rh.append(["zz", "class", ["nontype", ["alias", "list[int]"]]])
        # the other annotations go to random places; the components keep their relative order
        extra_rh = rh[len(comp_rh):]
        rh = rh[:len(comp_rh)]
        for h in extra_rh:
            rh.insert(r.randint(0, len(rh)), h)
        seen = set()
        rh = [h for h in rh if not (h[0] in seen or seen.add(h[0]))]
        return {"data_classes": self.data, "pool": self.pool,
                "rattrs": [[n, e[0], e[1], e[2]] for n, e in sorted(self.rattrs.items())],
                "rhints": rh, "rbase": self.rbase, "create_in_base": r.random() < 0.5,
                "comps": self.comps, "modes": modes, "path": "init" if r.random() < 0.3 else "create",
                "env": rand_env(r)}


INH_STATIC = {"control_loop_wait_time": [900, 4, True, "plain", False],
              "use_teleop_in_autonomous": [901, 7, False, "plain", False],
              "error_report_interval": [902, 4, True, "plain", False],
              "logger": [903, 9, True, "plain", False],
              "isReal": [904, 14, True, "callable", False], "isSimulation": [905, 14, True, "callable", False],
              "getRuntimeType": [906, 14, True, "callable", False]}


def repair(spec, keep, rng):
    """Make the definition well-formed except for its first `keep` faults: serve
    an absent request with a '<component>_<name>' robot attribute of the right
    type, weaken a mistyped or non-type annotation to `object`, drop what cannot
    be served.  (Generator only; the oracle and the model never see this.)"""
    for _ in range(40):
        faults = analyse(spec, INH_STATIC)["faults"][keep:]
        if not faults:
            return spec
        where, c, a, kind, _ = faults[0]
        in_mode = where == "mode"
        if where == "mode":
            where = "attr"
        if where == "robot":
            spec["rhints"] = [h for h in spec["rhints"] if h[0] != a]
            continue
        holder, key = None, None
        for n, _, form in ([] if in_mode else spec["rhints"]):      # a mode may be called like a component
            if n == c and form[0] == "comp":
                holder, key = spec["comps"][form[1]], ("init" if where == "ctor" else "hints")
        if holder is None:
            for md in spec["modes"]:
                if md["name"] == c:
                    holder, key = md, "hints"
        if holder is None:
            return spec
        ents = [e for e in holder[key] if e[0] == a]
        if not ents:
            return spec
        e = ents[-1]
        form = e[-1]
        ft = form_type(form)
        pa = "%s_%s" % (c, a)
        have = {x[0] for x in spec["rattrs"]}
        cid = ft[1] if ft[0] == "type" else None
        makeable = cid is not None and (cid in (0, 1, 2, 3, 5, 6, 7, 8) or 20 <= cid < 100)
        if kind == "absent" and makeable and pa not in have and rng.random() < 0.7:
            oid = len(spec["pool"]) + 1
            kindo = {0: "inst", 1: "int", 2: "str", 3: "list", 5: "edict", 6: "etuple", 7: "true", 8: "list"}.get(cid, "inst")
            if kindo in SINGLETONS and any(x[1] == kindo for x in spec["pool"]):
                oid = [x[0] for x in spec["pool"] if x[1] == kindo][0]
            else:
                spec["pool"].append([oid, kindo, cid if kindo == "inst" and cid >= 20 else (20 if kindo == "inst" else 0)])
            spec["rattrs"].append([pa, rng.choice(["class", "create"]), "plain", oid])
            spec["rattrs"].sort()
        elif (kind.startswith("mistyped") or kind == "nontype") and form != ["cls", 0]:
            e[-1] = ["cls", 0]
        else:
            holder[key] = [x for x in holder[key] if x is not e]
            if key == "init":
                holder["presets"] = [x for x in holder["presets"] if not (is_param(x[2]) and x[2][1] == a)]
                if not holder["init"]:
                    holder["init"] = None
    return spec


def gen_spec(rng):
    x = rng.random()
    flavour = "valid" if x < 0.6 else ("onefault" if x < 0.9 else "wild")
    spec = Gen(rng, flavour).make()
    if flavour != "wild":
        spec = repair(spec, 0 if flavour == "valid" else 1, rng)
    return spec


def edge_specs(rng):
    """every relation of the quantifier at least a few times, small robots first"""
    out = []
    for rel in sorted(set(OK_REL + BAD_REL)):
        for i in range(4):
            g = Gen(rng, "wild")
            g.budget = 0
            g.forced = [rel]
            sp = g.make()
            sp["env"] = {"fms": i % 2 == 1, "enabled": i == 3}      # each relation with and without the FMS
            out.append(sp)
    return out


STATES = ["absent", "right", "subclass", "wrong", "falsy", "None", "callable"]


def product_specs(rng, reps):
    """The relation between one annotated attribute and the robot's objects as a
    deliberately enumerated product:
      target kind {component attribute, constructor parameter, mode attribute}
      x object under the plain name   {absent, right type, subclass instance, wrong type, falsy, None,
                                       callable object of the right type (not a bound method)}
      x object under '<target>_<name>' {the same seven},
    `reps` robots per combination (alone, or embedded in a random well-formed
    robot; class / createObjects level; both startup paths)."""
    out = []
    for tkind in ("attr", "ctor", "mode"):
        for plain in STATES:
            for pref in STATES:
                for rep in range(reps):
                    # every third robot of a combination calls the attribute something unusual; robots 3, 4, 5 of
                    # every six (one alone, one embedded, one with an unusual name) start with the FMS attached
                    sp = product_spec(rng, tkind, plain, pref, embed=(rep % 2 == 1),
                                      attr_name=rng.choice(ODD_NAMES) if rep % 3 == 2 else None)
                    sp["env"] = {"fms": (rep // 3) % 2 == 1, "enabled": rep % 6 == 4 or rep % 12 == 2}
                    if tkind == "ctor" and rep % 3 != 0:      # four of every six constructor robots declare a default
                        give_default(sp, rng, ["None", "number", "object", "pool"][(rep + rep // 3) % 4])
                    out.append(sp)
    return out


def give_default(spec, rng, dkind, k=None, p=None):
    """declare a default of the given kind for the constructor parameter p (default: the first) of class k (default: the last)"""
    k = len(spec["comps"]) - 1 if k is None else k
    cc = spec["comps"][k]
    if not cc["init"]:
        return
    p = cc["init"][0][0] if p is None else p
    if dkind == "pool":
        form = [f for q, f in cc["init"] if q == p][0]
        ft = form_type(form)
        up = parents_of(spec)
        right = [x[0] for x in spec["pool"] if ft[0] == "type" and is_sub(up, x[2] if x[1] == "inst" else KIND_CLS[x[1]], ft[1])]
        any_ = [x[0] for x in spec["pool"]]
        if not any_:
            dkind = "object"
        else:
            dkind = "pool:%d" % rng.choice(right or any_)
    cc.setdefault("defaults", {})[p] = dkind



def name_specs(rng):
    """What the requested object is CALLED, enumerated: every unusual name (all proper substrings of
    "logger", names containing it, case variants, trailing / double underscores, upper case, digits)
      x target kind {component attribute, constructor parameter, mode attribute}
      x {object under the plain name only, under the plain name and under '<target>_<name>'},
    plus one robot per name with the object under the prefixed name only or wrong-typed under the plain
    name (the name must not make a fault disappear either)."""
    out = []
    for nm in ODD_NAMES:
        for tkind in ("attr", "ctor", "mode"):
            for pref in ("absent", "right"):
                out.append(product_spec(rng, tkind, "right", pref, embed=False, attr_name=nm))
        tk = rng.choice(["attr", "ctor", "mode"])
        out.append(product_spec(rng, tk, "absent", "right", embed=False, attr_name=nm))
        out.append(product_spec(rng, tk, "wrong", rng.choice(["absent", "right"]), embed=rng.random() < 0.5, attr_name=nm))
        out.append(product_spec(rng, tk, rng.choice(["subclass", "falsy", "callable"]), "wrong", embed=True, attr_name=nm))
    return out


def product_spec(rng, tkind, plain, pref, embed, attr_name=None):
    if embed:
        spec = repair(Gen(rng, "valid").make(), 0, rng)
    else:
        spec = {"data_classes": [], "pool": [], "rattrs": [], "rhints": [], "rbase": rng.random() < 0.3,
                "create_in_base": rng.random() < 0.5, "comps": [], "modes": [], "path": rng.choice(["create", "create", "init"]),
                "env": rand_env(rng)}
    have = {d[0] for d in spec["data_classes"]}
    for d in ([20, 0], [21, 20], [22, 0]):
        if d[0] not in have:
            spec["data_classes"].append(d)
    parent = {d[0]: d[1] for d in spec["data_classes"]}
    # type family: a generated class (right = instance, subclass = instance of a child, wrong = an
    # unrelated instance) or int (right = an int, subclass = True, falsy = 0)
    use_int = "falsy" in (plain, pref) or rng.random() < 0.3
    def anc(c):
        out = []
        while c:
            out.append(c)
            c = parent.get(c, 0)
        return out
    child = [c for c in parent if c != 20 and 20 in anc(c)]
    unrelated = [c for c in parent if 20 not in anc(c)]
    if not child:
        child = [max(parent) + 1]
        spec["data_classes"].append([child[0], 20])
        parent[child[0]] = 20
    if not unrelated:
        unrelated = [max(parent) + 1]
        spec["data_classes"].append([unrelated[0], 0])
        parent[unrelated[0]] = 0

    def new_obj(kind, cid=0):
        if kind in SINGLETONS:
            for x in spec["pool"]:
                if x[1] == kind:
                    return x[0]
        oid = len(spec["pool"]) + 1
        spec["pool"].append([oid, kind, cid])
        return oid

    def value(st):
        if st == "None":
            return None
        if use_int:
            return {"right": lambda: new_obj("int"), "subclass": lambda: new_obj("true"),
                    "wrong": lambda: new_obj(rng.choice(["str", "inst"]), unrelated[0]), "falsy": lambda: new_obj("zero"),
                    "callable": lambda: new_obj("cint")}[st]()
        return {"right": lambda: new_obj("inst", 20), "subclass": lambda: new_obj("inst", child[0]),
                "wrong": lambda: new_obj("inst", unrelated[0]),
                "callable": lambda: new_obj("inst", rng.choice([20, child[0]]) + CALL_OFF)}[st]()
    T = 1 if use_int else 20
    names = {x[0] for x in spec["rattrs"]} | {h[0] for h in spec["rhints"]} | {m["name"] for m in spec["modes"]}
    tname = [n for n in ("p", "q", "pc", "pm") if n not in names][0]
    attr = [n for n in ([attr_name] if attr_name else []) + ["v", "w", "vv"]
            if n not in names and "%s_%s" % (tname, n) not in names][0]
    for nm, st in ((attr, plain), ("%s_%s" % (tname, attr), pref)):
        if st != "absent":
            spec["rattrs"].append([nm, rng.choice(["class", "create"] + (["base"] if spec["rbase"] else [])), "plain", value(st)])
    spec["rattrs"].sort(key=lambda x: x[0])
    hintform = ["cls", T]
    if tkind == "mode":
        spec["modes"].append({"name": tname, "hints": [[attr, hintform]], "presets": [], "setup": rng.random() < 0.5})
    else:
        cc = {"base": rng.random() < 0.2, "hints": [], "init": None, "init_level": rng.choice([0, 1]), "presets": [],
              "setup": rng.random() < 0.6, "falsy": False}
        if tkind == "attr":
            cc["hints"] = [[attr, rng.choice([0, 1]) if cc["base"] else 1, hintform]]
        else:
            cc["init"] = [[attr, hintform]]
            if rng.random() < 0.5:
                cc["presets"] = [[attr + "_kept", "init", ["param", attr]]]
        spec["comps"].append(cc)
        spec["rhints"].insert(rng.randint(0, len(spec["rhints"])), [tname, "class", ["comp", len(spec["comps"]) - 1]])
    return spec


BASIC_FAULTS = {"absent": ("absent", "absent"), "wrong-under-plain-name": ("wrong", "absent"),
                "wrong-under-plain-name-right-under-prefixed": ("wrong", "right"),
                "wrong-under-prefixed-name-only": ("absent", "wrong"), "None-only": ("None", "absent"),
                "None-and-wrong-under-prefixed-name": ("None", "wrong")}
EXTRA_FAULTS = ["bound-method", "property", "Optional", "union", "literal", "alias-of-another-class", "component-of-another-class"]
CTOR_FAULTS = ["private-parameter", "component-declared-later"]
SIBLINGS = ["good-before", "good-after", "good-both"]


def fault_specs(rng, reps=1):
    """A request that cannot be served, placed deliberately:
      every failure kind the generator knows (absent; wrong type under the plain name, also with a right
      object under '<target>_<name>'; wrong type under the prefixed name only; None; None + wrong prefixed;
      a bound method / a property under the name; Optional[...], X | None, a literal as annotation; an alias
      of another class; a component of another class under the name; for constructors a private parameter and
      a component declared later)
      x where it sits {attribute of a component, constructor parameter, attribute of an AUTONOMOUS MODE}
      x the driver station {FMS not attached, FMS attached}
      x {the faulty target alone, among well-formed components / modes before and/or after it},
    plus the fault-free robot of the same shape in both environments (it must start)."""
    out = []
    n = 0
    for _ in range(reps):
        for tkind in ("attr", "ctor", "mode"):
            faults = ["none"] + list(BASIC_FAULTS) + EXTRA_FAULTS + (CTOR_FAULTS if tkind == "ctor" else [])
            for fault in faults:
                for fms in (False, True):
                    for sib in ("alone", SIBLINGS[n % 3]):
                        n += 1
                        sp = fault_spec(rng, tkind, fault, sib)
                        sp["env"] = {"fms": fms, "enabled": fms and rng.random() < 0.5}
                        sp["tag"] = "%s|%s|%s" % ({"attr": "component-attribute", "ctor": "constructor-parameter",
                                                   "mode": "mode-attribute"}[tkind], fault, "alone" if sib == "alone" else "with-good-siblings")
                        nf = len(analyse(sp, INH_STATIC)["faults"])
                        if (nf == 0) != (fault == "none"):
                            raise AssertionError("fault family: %s has %d faults" % (sp["tag"], nf))
                        out.append(sp)
    return out


def fault_spec(rng, tkind, fault, siblings):
    plain, pref = BASIC_FAULTS.get(fault, ("right", "absent"))
    spec = product_spec(rng, tkind, plain, pref, embed=False)
    if tkind == "mode":
        holder, key, tname = spec["modes"][-1], "hints", spec["modes"][-1]["name"]
    else:
        holder, key = spec["comps"][-1], ("init" if tkind == "ctor" else "hints")
        tname = [h[0] for h in spec["rhints"] if h[2] == ["comp", len(spec["comps"]) - 1]][0]
    ent = holder[key][0]
    attr = ent[0]

    def robot_attr(name):
        return [x for x in spec["rattrs"] if x[0] == name][0]

    def new_comp(hints):
        spec["comps"].append({"base": False, "hints": hints, "init": None, "init_level": 1, "presets": [],
                              "setup": rng.random() < 0.5, "falsy": False})
        return len(spec["comps"]) - 1
    if fault == "bound-method":          # the robot's own method, or a bound method of another object, under the name
        e = robot_attr(attr)
        e[2], e[3] = "method", None
    elif fault == "property":
        e = robot_attr(attr)
        e[1], e[2] = "class", "property"
    elif fault in ("Optional", "union", "literal"):
        ent[-1] = {"Optional": ["optional", 20], "union": ["union", 20], "literal": ["lit"]}[fault]
    elif fault == "alias-of-another-class":
        ent[-1] = ["alias", rng.choice(["list[int]", "dict[str,int]"])]
    elif fault == "private-parameter":
        ent[0] = "_p"
        holder["presets"] = []
    elif fault in ("component-of-another-class", "component-declared-later"):
        k = new_comp([])
        ent[0] = "oc"
        if tkind != "mode":
            holder["presets"] = []
        if fault == "component-of-another-class":
            ent[-1] = ["cls", 20]
            spec["rhints"].insert(0, ["oc", "class", ["comp", k]])
        else:
            ent[-1] = ["cls", comp_cid(k)]
            spec["rhints"].append(["oc", "class", ["comp", k]])
    if siblings != "alone":
        oid = len(spec["pool"]) + 1
        spec["pool"].append([oid, "int", 0])
        spec["rattrs"].append(["sib", rng.choice(["class", "create"]), "plain", oid])
        spec["rattrs"].sort(key=lambda x: x[0])
        good_hint = ["sib", ["cls", rng.choice([0, 1])]]

        def good_mode(nm):
            return {"name": nm, "hints": [list(good_hint)], "presets": [], "setup": rng.random() < 0.5}
        if tkind == "mode":
            if siblings in ("good-before", "good-both"):
                spec["modes"].insert(0, good_mode("g1"))
            if siblings in ("good-after", "good-both"):
                spec["modes"].append(good_mode("g2"))
            if rng.random() < 0.5:
                spec["rhints"].append(["gc", "class", ["comp", new_comp([["sib", 1, good_hint[1]]])]])
        else:
            pos = [i for i, h in enumerate(spec["rhints"]) if h[0] == tname][0]
            if siblings in ("good-after", "good-both"):
                spec["rhints"].insert(pos + 1, ["gb", "class", ["comp", new_comp([["sib", 1, good_hint[1]]])]])
            if siblings in ("good-before", "good-both"):
                spec["rhints"].insert(pos, ["ga", "class", ["comp", new_comp([["sib", 1, good_hint[1]]])]])
            spec["modes"].append(good_mode("g1"))
    return spec


BOUND_TARGETS = ["component-class", "component-base-class", "mode-class", "mode-base-class"]
BOUND_ROBOT = ["no-robot-attr", "same-name-right-type", "same-name-wrong-type", "prefixed-name-right-type", "same-name-None"]


def bound_specs(rng, reps=1):
    """An annotated attribute that already has a value through a descriptor / marker the framework binds,
    enumerated:  {magicbot.tunable, magicbot.will_reset_to}
      x where {component class, component base class, autonomous-mode class, mode base class}
      x what the robot stores {nothing, an object of that type under the same name, a wrong-typed one, one of that type
        under '<target>_<name>', None under the same name}
      x type {float, int, str, bool} (default truthy / falsy alternating),
    every other one embedded in a random well-formed robot; the target also has an ordinary request that IS injected.
    Such a robot must start, the attribute must still read its own value, nothing may be written under its name."""
    out = []
    n = 0
    for _ in range(reps):
        for marker in ("tunable", "reset"):
            for target in BOUND_TARGETS:
                for rstate in BOUND_ROBOT:
                    for kind in BOUND_KINDS:
                        n += 1
                        out.append(bound_spec(rng, marker, target, rstate, kind, truthy=(n // 4) % 2 == 0, embed=n % 2 == 1,
                                              annotated=n % 9 != 0))
    return out


def bound_spec(rng, marker, target, rstate, kind, truthy, embed, annotated=True):
    if embed:
        spec = repair(Gen(rng, "valid").make(), 0, rng)
    else:
        spec = {"data_classes": [], "pool": [], "rattrs": [], "rhints": [], "rbase": rng.random() < 0.3,
                "create_in_base": rng.random() < 0.5, "comps": [], "modes": [], "path": rng.choice(["create", "create", "init"]),
                "env": rand_env(rng)}
    if 20 not in {d[0] for d in spec["data_classes"]}:
        spec["data_classes"].append([20, 0])
    used = {x[0] for x in spec["rattrs"]} | {h[0] for h in spec["rhints"]} | {m["name"] for m in spec["modes"]}
    for cc in spec["comps"]:
        used |= {h[0] for h in cc["hints"]} | {x[0] for x in cc["presets"]} | {p[0] for p in (cc["init"] or [])}
    tname = [t for t in ("tc", "tm", "tq", "tz") if t not in used][0]
    cands = [a for a in list(BOUND_NAMES) + ATTR_NAMES + ODD_NAMES if bound_kind(a) == kind and not a.startswith("_")
             and a not in used and "%s_%s" % (tname, a) not in used]
    nm = rng.choice(cands[:2] * 3 + cands)
    dep = [d for d in ("dep", "dep2", "dep3") if d not in used][0]

    def new_obj(pk, cid=0):
        if pk in SINGLETONS:
            for x in spec["pool"]:
                if x[1] == pk:
                    return x[0]
        oid = len(spec["pool"]) + 1
        spec["pool"].append([oid, pk, cid])
        return oid
    lvl = rng.choice(["class", "create"] + (["base"] if spec["rbase"] else []))
    if rstate == "same-name-right-type":
        spec["rattrs"].append([nm, lvl, "plain", new_obj(BOUND_POOL_KIND[(kind, rng.random() < 0.7)])])
    elif rstate == "same-name-wrong-type":
        spec["rattrs"].append([nm, lvl, "plain", new_obj("inst", 20)])
    elif rstate == "prefixed-name-right-type":
        spec["rattrs"].append(["%s_%s" % (tname, nm), lvl, "plain", new_obj(BOUND_POOL_KIND[(kind, rng.random() < 0.7)])])
    elif rstate == "same-name-None":
        spec["rattrs"].append([nm, lvl, "plain", None])
    spec["rattrs"].append([dep, rng.choice(["class", "create"]), "plain", new_obj("inst", 20)])
    spec["rattrs"].sort(key=lambda x: x[0])
    pv = [marker, kind, bool(truthy)]
    form = ["cls", BOUND_CLS[kind]]
    if target.startswith("component"):
        base = target == "component-base-class"
        hints = [[dep, 1, ["cls", 20]]]
        if annotated:
            hints.insert(rng.randint(0, 1), [nm, 0 if (base and rng.random() < 0.7) else 1, form])
        spec["comps"].append({"base": base, "hints": hints, "init": None, "init_level": 1,
                              "presets": [[nm, "class0" if base else "class1", pv]], "setup": rng.random() < 0.7, "falsy": False})
        spec["rhints"].insert(rng.randint(0, len(spec["rhints"])), [tname, "class", ["comp", len(spec["comps"]) - 1]])
    else:
        hints = [[dep, ["cls", 20]]]
        if annotated:
            hints.insert(rng.randint(0, 1), [nm, form])
        spec["modes"].insert(rng.randint(0, len(spec["modes"])),
                             {"name": tname, "hints": hints, "presets": [[nm, "base" if target == "mode-base-class" else "class", pv]],
                              "setup": rng.random() < 0.7})
    return spec


def default_specs(rng, reps=1):
    """Constructor parameters that declare a DEFAULT value, enumerated:
      what is wrong with the request {nothing, absent, wrong type under the plain name (also with a right object under
      '<component>_<name>'), wrong type under the prefixed name only, None, None + wrong prefixed, bound method, property,
      Optional / union / literal annotation, alias of another class, an earlier component of another class, a private
      parameter, a component declared later}
      x the default {None, a number, a fresh object of the annotated class, another object of the robot}
      x {alone, among well-formed components}; every second robot has a second, well-served parameter (with or without a
    default of its own).  The component must get the robot's objects and never a default; a parameter that cannot be
    served stops start-up."""
    out = []
    n = 0
    for _ in range(reps):
        for fault in ["none"] + list(BASIC_FAULTS) + EXTRA_FAULTS + CTOR_FAULTS:
            for dkind in DEFAULT_KINDS:
                for sib in ("alone", SIBLINGS[n % 3]):
                    n += 1
                    sp = fault_spec(rng, "ctor", fault, sib)
                    k = [i for i, cc in enumerate(sp["comps"]) if cc["init"]][0]
                    cc = sp["comps"][k]
                    give_default(sp, rng, dkind, k=k)
                    if n % 2 == 0 and "also" not in {x[0] for x in sp["rattrs"]}:
                        oid = len(sp["pool"]) + 1
                        sp["pool"].append([oid, "str", 0])
                        sp["rattrs"].append(["also", rng.choice(["class", "create"]), "plain", oid])
                        sp["rattrs"].sort(key=lambda x: x[0])
                        cc["init"].insert(rng.randint(0, len(cc["init"])), ["also", ["cls", 2]])
                        if n % 4 == 0:
                            give_default(sp, rng, rng.choice(DEFAULT_KINDS), k=k, p="also")
                    sp["env"] = rand_env(rng)
                    nf = len(analyse(sp, INH_STATIC)["faults"])
                    if (nf == 0) != (fault == "none"):
                        raise AssertionError("default family: %s/%s has %d faults" % (fault, dkind, nf))
                    out.append(sp)
    return out


SHARE_PATTERNS = [[1, 0], [0, 1], [1, 0, 0], [0, 1, 0], [0, 0, 1], [1, 1, 0], [0, 1, 1], [1, 0, 1]]
SHARE_ROBOT = ["served-by-name", "served-by-prefixed-name-per-instance", "unserved"]
SHARE_MECH = ["components/set-by-nth-constructed-instance", "components/set-iff-injected-ctor-flag", "modes/assigned-on-the-instance"]


def shared_specs(rng, reps=1):
    """Several instances of ONE class whose presets differ, enumerated:
      {components whose __init__ sets the attribute in the i-th constructed instance only, components whose __init__ sets it
       iff a constructor flag injected from '<component>_sim' is true, autonomous modes of one class with the value assigned
       on one instance}
      x which instances (declaration order) already have the annotated attribute: 10 01 100 010 001 110 011 101
      x what the robot offers the others {an object under the plain name, a different object per instance under
        '<instance>_<name>', nothing (then start-up must fail)}
      x the preset value {an object, None, a falsy value} (rotating), every other robot embedded in a random well-formed one.
    Each instance is judged on its own: the ones with a value keep it, the others get the robot's object (or stop start-up)."""
    out = []
    n = 0
    for _ in range(reps):
        for mech in SHARE_MECH:
            for pat in SHARE_PATTERNS:
                for rstate in SHARE_ROBOT:
                    n += 1
                    for attempt in range(4):     # the random robot it is embedded in may itself be beyond repair: try another, then none
                        sp = shared_spec(rng, mech, pat, rstate, ["object", "None", "falsy"][n % 3], embed=n % 2 == 1 and attempt < 3)
                        nf = len(analyse(sp, INH_STATIC)["faults"])
                        if (nf == 0) == (rstate != "unserved"):
                            break
                    else:
                        raise AssertionError("shared family: %s %s %s has %d faults" % (mech, pat, rstate, nf))
                    out.append(sp)
    return out


def shared_spec(rng, mech, pat, rstate, pkind, embed):
    if embed:
        spec = repair(Gen(rng, "valid").make(), 0, rng)
    else:
        spec = {"data_classes": [], "pool": [], "rattrs": [], "rhints": [], "rbase": rng.random() < 0.3,
                "create_in_base": rng.random() < 0.5, "comps": [], "modes": [], "path": rng.choice(["create", "create", "init"]),
                "env": rand_env(rng)}
    if 20 not in {d[0] for d in spec["data_classes"]}:
        spec["data_classes"].append([20, 0])
    used = {x[0] for x in spec["rattrs"]} | {h[0] for h in spec["rhints"]} | {m["name"] for m in spec["modes"]}
    for cc in spec["comps"]:
        used |= {h[0] for h in cc["hints"]} | {x[0] for x in cc["presets"]} | {p[0] for p in (cc["init"] or [])}
    for md in spec["modes"]:
        used |= {h[0] for h in md["hints"]}
    insts = [[t for t in c if t not in used][0] for c in (("left", "l2"), ("right", "r2"), ("mid", "m3"))][:len(pat)]
    enc = [a for a in ("enc", "encoder", "enc2") if a not in used and not any("%s_%s" % (i, a) in used for i in insts)][0]
    gain = [a for a in ("gain2", "ratio", "gain3") if a not in used][0]

    def new_obj(pk, cid=0):
        if pk in SINGLETONS:
            for x in spec["pool"]:
                if x[1] == pk:
                    return x[0]
        oid = len(spec["pool"]) + 1
        spec["pool"].append([oid, pk, cid])
        return oid

    def lvl():
        return rng.choice(["class", "create"] + (["base"] if spec["rbase"] else []))

    def pvalue():
        return None if pkind == "None" else new_obj("zero") if pkind == "falsy" else new_obj("inst", 20)
    if rstate == "served-by-name":
        spec["rattrs"].append([enc, lvl(), "plain", new_obj("inst", 20)])
    elif rstate == "served-by-prefixed-name-per-instance":
        for i in insts:
            spec["rattrs"].append(["%s_%s" % (i, enc), lvl(), "plain", new_obj("inst", 20)])
    spec["rattrs"].append([gain, lvl(), "plain", new_obj("int")])
    if mech.startswith("components"):
        base = rng.random() < 0.2
        cc = {"base": base, "hints": [[enc, rng.choice([0, 1]) if base else 1, ["cls", 20]], [gain, 1, ["cls", 1]]], "init": None,
              "init_level": 1, "presets": [], "setup": rng.random() < 0.7, "falsy": False}
        if rng.random() < 0.5:
            cc["hints"].reverse()
        if "nth" in mech:
            cc["presets"] = [[enc, "init_nth:%d" % i, pvalue()] for i, bit in enumerate(pat) if bit]
        else:
            cc["init"] = [["sim", ["cls", 7]]]
            if rng.random() < 0.5:
                cc["defaults"] = {"sim": "false"}
            cc["presets"] = [[enc, "init_if:sim", pvalue()]]
            for i, bit in zip(insts, pat):
                spec["rattrs"].append(["%s_sim" % i, lvl(), "plain", new_obj("true" if bit else "false")])
        spec["comps"].append(cc)
        pos = sorted(rng.sample(range(len(spec["rhints"]) + len(insts)), len(insts)))
        for i, at in zip(insts, pos):
            spec["rhints"].insert(at, [i, "class", ["comp", len(spec["comps"]) - 1]])
    else:
        at = rng.randint(0, len(spec["modes"]))
        hints = [[enc, ["cls", 20]], [gain, ["cls", 1]]]
        if rng.random() < 0.5:
            hints.reverse()
        setup = rng.random() < 0.7
        for j, (i, bit) in enumerate(zip(insts, pat)):
            md = {"name": i, "hints": [list(h) for h in hints], "presets": [[enc, "inst", pvalue()]] if bit else [], "setup": setup}
            if j:
                md["class_of"] = insts[0]
            spec["modes"].insert(at + j, md)
    spec["rattrs"].sort(key=lambda x: x[0])
    return spec


def shared_stats(spec):
    """[(components|modes, has-bits per instance in creation order | 'same')] for every class with two or more instances"""
    out = []
    groups = {}
    for n, k, nth in comp_instances(spec):
        groups.setdefault(k, []).append((n, nth))
    for k, insts in groups.items():
        if len(insts) < 2:
            continue
        differing = False
        for a, _ in comp_hints(spec["comps"][k]):
            bits = [int(a in {x[1] for x in effective_presets(spec, k, n, nth)}) for n, nth in insts]
            if len(set(bits)) > 1 and not a.startswith("_"):
                differing = True
                out.append(("components", "".join(map(str, bits))))
        if not differing:
            out.append(("components", "same"))
    mg = {}
    for j in range(len(spec["modes"])):
        mg.setdefault(mode_class_owner(spec, j), []).append(j)
    for o, js in mg.items():
        if len(js) < 2:
            continue
        differing = False
        for a, _ in spec["modes"][o]["hints"]:
            bits = [int(a in {x[0] for x in spec["modes"][j]["presets"]}) for j in js]
            if len(set(bits)) > 1 and not a.startswith("_"):
                differing = True
                out.append(("modes", "".join(map(str, bits))))
        if not differing:
            out.append(("modes", "same"))
    return out


def bound_attrs(spec, an):
    """every descriptor-backed preset of the robot, classified: (marker, where, annotated?, what the robot stores)"""
    up = parents_of(spec)
    inj = dict(an["inj"])
    for n, k, oid in an["comps"]:
        inj[n] = oid
    out = []

    def one(tn, where, x, hinted):
        T = BOUND_CLS[x[2][1]]
        rs = "no-robot-attr"
        for key, label in ((x[0], "same-name"), ("%s_%s" % (tn, x[0]), "prefixed-name")):
            if key in inj:
                rs = "%s-%s" % (label, "right-type" if is_sub(up, an["info"][inj[key]], T) else "wrong-type")
                break
        out.append((x[2][0] if x[2][0] == "tunable" else "will_reset_to", where, x[2][1] + ("" if x[2][2] else "-falsy"),
                    "annotated" if hinted else "unannotated", rs))
    for n, k, _ in an["comps"]:
        cc = spec["comps"][k]
        for x in cc["presets"]:
            if is_bound(x[2]):
                one(n, "component-base-class" if (cc["base"] and x[1] == "class0") else "component-class", x, x[0] in [h[0] for h in cc["hints"]])
    for md in spec["modes"]:
        for x in md["presets"]:
            if is_bound(x[2]):
                one(md["name"], "mode-base-class" if x[1] == "base" else "mode-class", x, x[0] in [h[0] for h in md["hints"]])
    return out


def load_corpus():
    d = os.path.join(CORPUS, "C08")
    out = []
    if os.path.isdir(d):
        for f in sorted(os.listdir(d)):
            if f.endswith(".json"):
                o = json.load(open(os.path.join(d, f)))
                out.append(o["spec"] if "spec" in o else o)
    return out


# ---------------------------------------------------------------------------
# running, searching, replaying
# ---------------------------------------------------------------------------
def public(res):
    return {k: v for k, v in res.items() if k != "b"}


def child_call(fn, *args):
    """Run fn(*args) in a forked child and return its (picklable) result.  Every
    MagicRobot() leaks an NT multi-subscriber (ntcore complains after 512 of
    them) and opens an NT server; a fresh process per batch keeps the parent
    clean and the C++ chatter of the children off our stderr."""
    import pickle
    import traceback
    r, w = os.pipe()
    sys.stdout.flush()
    pid = os.fork()
    if pid == 0:
        try:
            os.close(r)
            dn = os.open(os.devnull, os.O_WRONLY)
            os.dup2(dn, 2)
            os.dup2(dn, 1)
            try:
                out = ("ok", fn(*args))
            except BaseException as e:
                out = ("err", "%r\n%s" % (e, traceback.format_exc()))
            with os.fdopen(w, "wb") as f:
                pickle.dump(out, f)
        finally:
            os._exit(0)
    os.close(w)
    with os.fdopen(r, "rb") as f:
        data = f.read()
    os.waitpid(pid, 0)
    kind, val = pickle.loads(data)
    if kind == "err":
        raise RuntimeError(val)
    return val


def run_batch(specs, with_oracle=False):
    """[(public result | {'harness_error': ..}, violations)] for a batch of specs"""
    logging.disable(logging.CRITICAL)
    out = []
    for spec in specs:
        try:
            res = public(run_robot(spec))
        except Exception as e:
            out.append(({"harness_error": "%r on %s" % (e, describe(spec))}, []))
            continue
        vs = []
        if with_oracle and "hints_error" not in res:
            try:
                vs = oracle(spec, res)
            except Exception as e:
                res["oracle_error"] = repr(e)
        out.append((res, vs))
    return out


def run_many(specs, with_oracle=False, chunk=400):
    out = []
    for i in range(0, len(specs), chunk):
        out += child_call(run_batch, specs[i:i + chunk], with_oracle)
    return out


def violation(spec, res, v):
    fp, what = v
    return {"kind": "input", "fingerprint": fp, "what": what + "  [robot: %s]" % describe(spec),
            "spec": spec, "observed": public(res)}


def describe(spec):
    comps = ["%s:C%d" % (n, f[1]) for n, _, f in spec["rhints"] if f[0] == "comp"]
    return "components %s, %d robot attrs, %d modes, path=%s, driver station: %s" % (
        ",".join(comps), len(spec["rattrs"]), len(spec["modes"]), spec["path"], env_text(spec_env(spec)))


def try_oracle(spec):
    try:
        res = run_robot(spec)
        if "hints_error" in res:
            return res, []
        return res, oracle(spec, res)
    except Exception:
        return None, []


def shrink(spec, fp):
    import copy

    def still(sp):
        res, vs = try_oracle(sp)
        return any(v[0] == fp for v in vs)

    def candidates(sp):
        for j in range(len(sp["modes"])):
            c = copy.deepcopy(sp)
            del c["modes"][j]
            yield c
        for i in range(len(sp["rhints"])):
            c = copy.deepcopy(sp)
            del c["rhints"][i]
            yield c
        for k, cc in enumerate(sp["comps"]):
            for i in range(len(cc["hints"])):
                c = copy.deepcopy(sp)
                del c["comps"][k]["hints"][i]
                yield c
            for i in range(len(cc["init"] or [])):
                c = copy.deepcopy(sp)
                pn = c["comps"][k]["init"][i][0]
                del c["comps"][k]["init"][i]
                c["comps"][k]["presets"] = [x for x in c["comps"][k]["presets"] if not (is_param(x[2]) and x[2][1] == pn)]
                if not c["comps"][k]["init"]:
                    c["comps"][k]["init"] = None
                yield c
            for i in range(len(cc["presets"])):
                c = copy.deepcopy(sp)
                del c["comps"][k]["presets"][i]
                yield c
            for key in ("base", "falsy"):
                if cc[key]:
                    c = copy.deepcopy(sp)
                    c["comps"][k][key] = False
                    yield c
            for q in sorted(cc.get("defaults") or {}):
                c = copy.deepcopy(sp)
                del c["comps"][k]["defaults"][q]
                yield c
        for j, md in enumerate(sp["modes"]):
            for i in range(len(md["hints"])):
                c = copy.deepcopy(sp)
                del c["modes"][j]["hints"][i]
                yield c
            for i in range(len(md["presets"])):
                c = copy.deepcopy(sp)
                del c["modes"][j]["presets"][i]
                yield c
            if "class_of" in md:
                c = copy.deepcopy(sp)
                del c["modes"][j]["class_of"]
                yield c
        for i in range(len(sp["rattrs"])):
            c = copy.deepcopy(sp)
            del c["rattrs"][i]
            yield c
        if sp["rbase"]:
            c = copy.deepcopy(sp)
            c["rbase"] = False
            yield c
        if sp["path"] != "create":
            c = copy.deepcopy(sp)
            c["path"] = "create"
            yield c
        env = spec_env(sp)          # last: the plainest driver station the failure survives
        for key in ("enabled", "fms"):
            if env[key]:
                c = copy.deepcopy(sp)
                c["env"] = dict(env, **{key: False})
                yield c
        if "tag" in sp:
            c = copy.deepcopy(sp)
            del c["tag"]
            yield c
    progress = True
    rounds = 0
    while progress and rounds < 200:
        progress = False
        rounds += 1
        for c in candidates(spec):
            if still(c):
                spec = c
                progress = True
                break
    return spec


def shrink_report(spec, fp):
    """(runs in a child) smallest robot definition with the same kind of violation"""
    logging.disable(logging.CRITICAL)
    small = shrink(spec, fp)
    res, vs = try_oracle(small)
    if res is None or not any(v[0] == fp for v in vs):
        small = spec
        res, vs = try_oracle(spec)
    return small, public(res), vs


def concrete(spec, res, vs):
    fp = vs[0][0]
    try:
        small, res2, vs2 = child_call(shrink_report, spec, fp)
        v2 = [x for x in vs2 if x[0] == fp]
        if v2:
            return [violation(small, res2, v2[0])]
    except Exception:
        pass
    return [violation(spec, res, vs[0])]


def run(ctx):
    import time
    import magicbot  # noqa: F401  (imported before forking; no robot is ever created in this process)
    ctx.assumptions.append(
        "C08: CPython isinstance (the subclass table), typing.get_type_hints (merged hints and their order), hasattr/dir "
        "and dict order are inputs of the model; components have an execute() method and annotated __init__ parameters "
        "only; user code in __init__/setup does not touch the injection machinery; autonomous modes are handed to "
        "_create_components() as objects (the selector's loading is C14); the driver station (FMS attached, enabled) is "
        "wpilib's simulated one and keeps one state during a start-up")
    ctx.prove()
    # inject.py's two loops, translated from the current source and proved equal to the model (Inject/SrcInjectProofs.v)
    from . import c08_translate
    c08_translate.obligation(ctx)
    n_random = 30000 if ctx.tier == "thorough" else 2000
    specs = load_corpus()
    ncorpus = len(specs)
    specs += edge_specs(ctx.rng)
    specs += product_specs(ctx.rng, 6 if ctx.tier == "quick" else 40)
    nspecs = name_specs(ctx.rng)
    specs += nspecs
    fspecs = fault_specs(ctx.rng, 1 if ctx.tier == "quick" else 6)
    specs += fspecs
    bspecs = bound_specs(ctx.rng, 1 if ctx.tier == "quick" else 6)
    specs += bspecs
    sspecs = shared_specs(ctx.rng, 1 if ctx.tier == "quick" else 6)
    specs += sspecs
    dspecs = default_specs(ctx.rng, 1 if ctx.tier == "quick" else 6)
    specs += dspecs
    while len(specs) < ncorpus + n_random + len(nspecs) + len(fspecs) + len(bspecs) + len(sspecs) + len(dspecs):      # the enumerations do not eat into the random part
        specs.append(gen_spec(ctx.rng))
    outs = run_many(specs)
    cases, terms = [], []
    nontrivial = set()
    harness_errors = []
    env_errors = []
    for spec, (res, _) in zip(specs, outs):
        if "harness_error" in res or "hints_error" in res:
            harness_errors.append(res.get("harness_error") or res.get("hints_error"))
            continue
        env = spec_env(spec)
        if res.get("env_seen") != env:
            env_errors.append("asked for %r, wpilib.DriverStation reported %r" % (env, res.get("env_seen")))
        an = analyse(spec, res["inherited"])
        ctx.count("driver-station=FMS-%s|%s" % ("attached" if env["fms"] else "not-attached", "enabled" if env["enabled"] else "disabled"))
        for f in an["faults"]:
            ctx.count("fault-vs-fms=%s/%s|FMS-%s" % (f[0], f[3], "attached" if env["fms"] else "not-attached"))
        if not an["faults"]:
            ctx.count("fault-free|FMS-%s|%s" % ("attached" if env["fms"] else "not-attached",
                                                "with-modes" if any(md["hints"] for md in spec["modes"]) else "no-mode-request"))
        for cn, q, dk, outc in an["ctor_reqs"]:
            ctx.count("ctor-parameter=%s|request:%s" % ("default:" + default_kind(dk) if dk else "no-default", outc))
        for what, bits in shared_stats(spec):
            ctx.count("one-class-several-instances=%s|already-has-the-annotated-attribute=%s|%s" % (
                what, bits, "well-formed" if not an["faults"] else "must-fail"))
        for marker, where, kind, hinted, rs in bound_attrs(spec, an):
            ctx.count("already-has-value-by=%s|%s|%s|robot:%s" % (marker, where, hinted, rs))
            ctx.count("already-has-value-type=%s|%s" % (marker, kind))
        if "tag" in spec:
            ctx.count("placed-fault=%s|FMS-%s" % (spec["tag"], "attached" if env["fms"] else "not-attached"))
        ctx.count("outcome=%s" % ["started", "MagicInjectError", "TypeError", "other"][res["outcome"]])
        ctx.count("path=%s" % spec["path"])
        ctx.count("components=%d" % len(an["comps"]))
        ctx.count("modes=%d" % len(spec["modes"]))
        for rel in an["rel"].values():
            ctx.count("attr-relation=%s" % rel)
        for f in an["faults"]:
            ctx.count("fault=%s/%s" % (f[0], f[3]))
        for where, st_plain, st_pref in an["combos"]:
            ctx.count("combo=%s|plain=%s|prefixed=%s" % (where, st_plain, st_pref))
        for where, what, under in an["callable_reqs"]:
            ctx.count("callable-injectable=%s|%s|%s" % (where, what, under))
        for where, ncls, under in an["name_reqs"]:
            ctx.count("unusual-name=%s|%s|%s" % (ncls, where, under))
        for n, lvl, kind, v in spec["rattrs"]:
            if kind == "plain" and v is not None and name_class(n):
                ctx.count("unusual-robot-attr-name=%s|%s" % (name_class(n), "createObjects" if lvl == "create" else "class-level"))
        for n, lvl, kind, v in spec["rattrs"]:
            if kind == "plain" and v is not None and v in an["callables"]:
                ctx.count("callable-robot-attr=%s|%s" % (an["callables"][v], "createObjects" if lvl == "create" else "class-level"))
        ctx.count("faults=%s" % (len(an["faults"]) if len(an["faults"]) < 3 else ">=3"))
        if any(spec["comps"][k]["init"] for _, k, _ in an["comps"]):
            ctx.count("with-constructor-injection")
        if spec["rbase"]:
            ctx.count("inherited-robot")
        if any(spec["comps"][k]["base"] for _, k, _ in an["comps"]):
            ctx.count("inherited-component")
        refs = sum(1 for x in an["rel"].values() if x.startswith("component-"))
        if (res["outcome"] == 0 and len(an["comps"]) >= 2 and (refs >= 1 or len(an["exp_attr"]) >= 3)) or len(an["faults"]) == 1:
            nontrivial.add(hashlib.sha1(json.dumps(spec, sort_keys=True).encode()).hexdigest())
        cases.append((spec, res))
        terms.append(emit_case(spec, res))
    ctx.obligation("harness:every generated robot definition could be built", not harness_errors, "; ".join(harness_errors[:3]))
    ctx.obligation("harness:the driver station reported the requested state (FMS, enabled) while each robot started",
                   not env_errors, "; ".join(env_errors[:3]))
    per = 250
    sh = shards(terms, per)
    items = [("cases_%d" % k, cases_file(x)) for k, x in enumerate(sh)]
    results = ctx.coq_files_parallel(items)
    bad_total = []
    for k, (name, _) in enumerate(items):
        rc, out = results[name]
        lists = parse_eval_lists(out) if rc == 0 else []
        ok = rc == 0 and len(lists) == 1 and lists[0] == []
        detail = out[-1500:]
        if rc == 0 and lists and lists[0]:
            bad_total += [k * per + i for i in lists[0]]
            i0 = k * per + lists[0][0]
            detail = "first disagreeing robot: %s; implementation: %s" % (
                json.dumps(cases[i0][0]), json.dumps({x: cases[i0][1].get(x) for x in ("outcome", "exc", "ctor", "setups", "final")}))
        elif rc != 0:
            bad_total += list(range(k * per, min(len(cases), (k + 1) * per)))
        ctx.obligation("corr:%s (Inject.Model startup_dflt/observe == _create_components, %d robots)" % (name, len(sh[k])), ok, detail)
    samples = []
    for spec, res in cases[ncorpus + 100:ncorpus + 103]:
        samples.append({"robot": describe(spec), "outcome": res["outcome"], "ctor": res.get("ctor"), "final": res.get("final")})
    ctx.coverage.update({
        "evaluations": len(cases), "traces_validated_against_impl": len(cases),
        "distinct_nontrivial": len(nontrivial),
        "rule": "robot definitions (0-4 components over shared/inherited classes, 0-5 annotated attributes each, constructor "
                "parameters, 0-2 autonomous modes, class/base-class/createObjects robot attributes) built with type() and started "
                "through _create_components() or robotInit(); every relation of the quantifier is forced at least 4 times, the product "
                "{component attribute, ctor parameter, mode attribute} x {absent,right,subclass,wrong,falsy,None,callable} under "
                "the plain name x the same under '<target>_<name>' is enumerated (6 | 40 robots per combination, see distribution "
                "combo=*); robot attributes whose value is callable without being a bound method (instance of a class with "
                "__call__, functools.partial, class object, function on the instance / staticmethod, builtin function, callable "
                "int, RobotBase's static functions; class level and createObjects level; see callable-*); what the object is "
                "CALLED is enumerated too: all 19 proper substrings of 'logger', names containing it, case variants, trailing / "
                "double underscores, upper case, digits x {attribute, ctor parameter, mode attribute} x {plain name, plain and "
                "prefixed name} (+ prefixed only / wrong type), every third product robot and a quarter of the random robots "
                "draw names from that pool (see unusual-name=*); every robot is started while the simulated driver station reports a "
                "chosen state -- FMS attached or not, robot enabled or not (driver-station=*): half of every product combination, "
                "half of every forced relation and 40% of the random robots start with the FMS attached; unservable requests are also "
                "placed deliberately: 13 (constructors 15) failure kinds x {component attribute, constructor parameter, "
                "autonomous-mode attribute} x {FMS attached, not attached} x {alone, among well-formed components / modes} "
                "(placed-fault=*, fault-vs-fms=*); attributes that already have a value through a descriptor / marker the framework "
                "binds -- `n: float = magicbot.tunable(0.25)`, `n: bool = magicbot.will_reset_to(False)`, float/int/str/bool, truthy and "
                "falsy defaults -- are enumerated {tunable, will_reset_to} x {component class, component base class, mode class, mode "
                "base class} x {nothing, right-typed, wrong-typed, prefixed right-typed, None under the same name on the robot} x type "
                "and drawn in the random part (already-has-value-by=*): observed is whether the class attribute is still the descriptor, "
                "what obj.n reads and what sits in obj.__dict__ under n; several components / autonomous modes of ONE class whose "
                "instances differ in which annotated attributes they already have (set by the i-th constructed instance only, set iff "
                "a constructor flag injected from '<component>_sim' is true, assigned on one mode instance) are enumerated over the "
                "patterns 10 01 100 010 001 110 011 101 x {served by name, per instance under the prefixed name, unserved} and "
                "drawn in the random part (one-class-several-instances=*); constructor parameters declare DEFAULT values (None, a "
                "number, a fresh object, another object of the robot) in 40% of the random parameters, four of every six constructor "
                "robots of the product and an enumeration of 16 request states x 4 default kinds x {alone, among well-formed "
                "components} (ctor-parameter=*): the constructor must receive the robot's object, never the default, "
                "then 60% fault-free / 30% one planted fault / 10% wild; non-trivial = started with >= 2 components and a "
                "cross-component reference or >= 3 injected attributes, or exactly one fault",
        "samples": samples, "exhaustive": False, "corpus_cases": ncorpus})

    def search():
        t0 = time.time()
        for i in bad_total[:300]:
            spec, res = cases[i]
            vs = oracle(spec, res)
            if vs:
                return concrete(spec, res, vs)
        for spec, res in cases:
            vs = oracle(spec, res)
            if vs:
                return concrete(spec, res, vs)
        n = 0
        while time.time() - t0 < 240 and n < 10 * n_random:
            batch = [gen_spec(ctx.rng) for _ in range(400)]
            n += len(batch)
            for spec, (res, vs) in zip(batch, run_many(batch, True)):
                if vs:
                    return concrete(spec, res, vs)
        return []

    return ctx.finish(search=search)


def replay(ctx, obj):
    if obj.get("kind") == "input" and "spec" in obj:
        import magicbot  # noqa: F401
        spec = obj["spec"]
        res, vs = child_call(run_batch, [spec], True)[0]
        print("robot: %s" % describe(spec))
        if "env_seen" in res:
            print("driver station while starting: asked %s; wpilib.DriverStation reported %s" % (env_text(spec_env(spec)), env_text(res["env_seen"])))
        if "harness_error" in res:
            print("cannot build: %s" % res["harness_error"])
            return 1
        print("outcome: %s %s" % (["started", "MagicInjectError", "TypeError", "other exception"][res["outcome"]], res.get("exc", "")))
        if res["outcome"] == 0:
            print("constructor kwargs: %r" % res["ctor"])
            print("attributes after startup: %r" % res["final"])
        for fp, what in vs:
            print("property fails [%s]: %s" % (fp, what))
        if vs:
            print("VIOLATION property=C08 replay=(replayed)")
            return 1
        print("property holds on this robot definition")
        return 0
    print("replay names broken obligations only: %s" % [b["name"] if isinstance(b, dict) else b for b in obj.get("broken_obligations", [])])
    return run(ctx)
