"""C12: malformed StateMachine definitions are rejected when defined or instantiated;
state_names / state_descriptions list exactly the states.

Tie to the source:
  * the reserved-name list (names n with hasattr(StateMachine, n) or n in
    StateMachine.__annotations__, enumerated over dir(StateMachine), dir(type(StateMachine))
    and the annotations) is REGENERATED on every run into work/C12/Gen_reserved.v; the
    name theorem is instantiated with it and every reserved name x decorator is evaluated;
  * generated class definitions (source text, exec'd class statement by class statement)
    are run against $VERIF_REPO: exception class at class-definition time, exception class
    at instantiation, state_names/state_descriptions after setup_tunables, direct calls of
    states, the argument order of the adapter (<state>.run).  The same definitions are
    evaluated by the model inside Coq (RV.Defs.Corr.h_agree) and only disagreeing indices
    are printed.
  * a class body may bind an EXISTING state object again ("m": "ref"):  again = work  (the
    object the class namespace holds at that line) or  retry = C0.work  (the object an earlier
    class holds): __set_name__ must judge every binding, not only the first one of an object.
  * the decorator `state` is applied in every legal spelling (deco[3] of a "state" entry): the
    factory  @state(first=True) / k = state(first=True)(f)  (no deco[3]),  bare  @state  ("bare"),
    function and options in ONE call  k = state(f, first=True)  ("call"),  k = state(f=f, ..)
    ("callkw")  and  @partial(state, first=True)  ("partial", functools.partial: also one call).
    The last four go through the `return _State(f, first, must_finish)` path of state(); the
    model has them as DStateCall.  A mark must count whichever spelling carries it.
  * a state function need not be a plain def when the state decorator sees it (e["wrap"]): behind
    a shared functools.wraps-based decorator ("wraps" = logged, "wraps2" = traced, "both"; all
    functions such a decorator returns have ONE code object, inspect.signature follows __wrapped__),
    stamped out by one factory ("factory": one code object, the signature in __signature__), a
    functools.partial object or a lambda given a __name__ ("partial", "lambda"; an unnamed lambda
    is the state "<lambda>").  e["params"]/e["fname"]/e["doc"] are what inspect.signature /
    __name__ / inspect.getdoc report for IT, and every state is judged by these alone, whatever
    was defined before -- in the same class, in an earlier class, in an earlier case (the prelude
    of every case run carries a number of its own so that no code object is shared across cases).
  * every case carries a HISTORY (spec["history"]; default_history when absent): a list of events
    {"c": i, "name": tag} = o = C<i>(); setup_tunables(o, "c12_<tag>", "components"), and
    {"pub": "names"|"descs", "name": tag, "value": [..]} = a plain NetworkTables publisher sets the
    topic /components/c12_<tag>/state/state_names|state_descriptions.  Every StateMachine class --
    accepted or malformed -- is attempted at least twice, base classes before subclasses and the
    other way round; instances, entries and publishers stay alive, so a machine is bound where the
    lists of another machine (or a publisher's value) already sit.  After each binding the two
    lists are read through the instance AND through a generic subscriber that has nothing to do
    with the machine.  The model runs the same events (RV.Defs.Model.run_history: the class table
    is mutated by instantiation as _build_states does, the topics are a dict); the property
    (oracle) judges every attempt by its class alone.
"""
import itertools
import json
import os
import random

from .common import CORPUS, coq_list, coq_string, parse_eval_lists, shards

KINDS = ["PosOnly", "PosOrKw", "VarPos", "KwOnly", "VarKw"]
KORD = {k: i for i, k in enumerate(KINDS)}
ALLOWED = ("self", "tm", "state_tm", "initial_call")
SIG_NAME_POOL = ["self", "tm", "state_tm", "initial_call", "x", "args"]
STATE_POOL = ["s1", "s2", "s3", "s4", "s5", "s1_duration", "go", "_p"]
# names that look like attributes of StateMachine but are not (must be accepted)
NEAR_MISS = ["Done", "done_", "_done", "engaged", "state", "states", "first", "names",
             "_StateMachine__state", "_StateMachine__first", "current", "mro_", "__priv_ok__"]
IMPLICIT = {"__module__", "__qualname__", "__doc__", "__dict__", "__weakref__",
            "__firstlineno__", "__static_attributes__", "__annotations__", "__type_params__"}
CODE_NAMES = {0: "no exception", 1: "InvalidStateName", 2: "ValueError", 3: "TypeError",
              4: "NoFirstStateError", 5: "MultipleFirstStatesError",
              6: "MultipleDefaultStatesError", 7: "IllegalCallError", 9: "other"}


# --------------------------------------------------------------------------
# implementation access
def impl():
    import magicbot.state_machine as sm
    import magicbot.magic_tunable as mt
    return sm, mt


def exc_code(sm, e):
    if isinstance(e, sm.InvalidStateName):
        return 1
    if isinstance(e, sm.NoFirstStateError):
        return 4
    if isinstance(e, sm.MultipleFirstStatesError):
        return 5
    if isinstance(e, sm.MultipleDefaultStatesError):
        return 6
    if isinstance(e, sm.IllegalCallError):
        return 7
    if isinstance(e, ValueError):
        return 2
    if isinstance(e, TypeError):
        return 3
    return 9


def is_reserved(sm, n):
    """The property's 'collides with a StateMachine attribute' (DESIGN section 10, with the
    metaclass attributes that hasattr also finds)."""
    return hasattr(sm.StateMachine, n) or n in getattr(sm.StateMachine, "__annotations__", {})


def reserved_list(sm):
    SM = sm.StateMachine
    cand = set(dir(SM)) | set(dir(type(SM))) | set(getattr(SM, "__annotations__", {}))
    return sorted(n for n in cand if is_reserved(sm, n))


# --------------------------------------------------------------------------
# case specifications (JSON-able) and their source text
def mangle(clsname, attr):
    if attr.startswith("__") and not attr.endswith("__"):
        return "_" + clsname.lstrip("_") + attr
    return attr


def render_params(ps):
    out = []
    seen_po = any(k == "PosOnly" for _, k, _ in ps)
    star_done = any(k == "VarPos" for _, k, _ in ps)
    for i, (n, k, d) in enumerate(ps):
        dflt = "=None" if d else ""
        if k == "VarPos":
            out.append("*" + n)
        elif k == "VarKw":
            out.append("**" + n)
        elif k == "KwOnly":
            if not star_done:
                out.append("*")
                star_done = True
            out.append(n + dflt)
        else:
            out.append(n + dflt)
        if k == "PosOnly" and (i + 1 == len(ps) or ps[i + 1][1] != "PosOnly"):
            out.append("/")
    return ", ".join(out)


def render_deco(deco):
    if deco[0] == "default":
        return "default_state"
    first, mf = deco[1], deco[2]
    kw = []
    if deco[0] == "timed":
        kw.append("duration=%s" % deco[3])
        if len(deco) > 4 and deco[4]:
            kw.append("next_state=%r" % deco[4])
    if first:
        kw.append("first=True")
    if mf:
        kw.append("must_finish=True")
    if deco[0] == "state":
        sp = spelling(deco)
        if sp == "partial":
            return "partial(%s)" % ", ".join(["state"] + kw)
        if not kw:
            return "state" if sp == "bare" else "state()"
        return "state(%s)" % ", ".join(kw)
    return "timed_state(%s)" % ", ".join(kw)


def spelling(deco):
    """How a "state" decorator is written: None = factory, "bare", "call", "callkw", "partial"."""
    return deco[3] if (deco[0] == "state" and len(deco) > 3) else None


def direct_call(deco):
    """The spellings that hand state() the function and the options in one call."""
    return spelling(deco) in ("call", "callkw")


def goes_through_call_path(deco):
    """state() receives the function itself (f is not None): bare @state, the plain call, partial."""
    sp = spelling(deco)
    if sp == "bare":
        return not (deco[1] or deco[2])     # "bare" with options is rendered as the factory
    return sp in ("call", "callkw", "partial")


def apply_deco(deco, expr):
    if direct_call(deco):       # state(f, first=True, ..) / state(f=f, first=True, ..)
        kw = (["first=True"] if deco[1] else []) + (["must_finish=True"] if deco[2] else [])
        return "state(%s)" % ", ".join([("f=" if spelling(deco) == "callkw" else "") + expr] + kw)
    d = render_deco(deco)
    return "%s(%s)" % (d, expr)


def render_func(e, indent):
    pad = " " * indent
    lines = ["%sdef %s(%s):" % (pad, e["fname"], render_params(e["params"]))]
    if e.get("doc") is not None:
        lines.append('%s    "%s"' % (pad, e["doc"]))
    names = [n for n, _, _ in e["params"]]
    lines.append("%s    return (%s)" % (pad, "".join(n + ", " for n in names)))
    return lines


def render_src(src):
    """Right-hand side of a second binding: ["local", key] is the name itself (looked up in the
    class namespace), ["class", c, key] is C<c>.__dict__[key], written C<c>.key when that is
    the same object (key is an ordinary identifier that no metaclass attribute shadows)."""
    if src[0] == "local":
        return src[1]
    key = src[2]
    if key.isidentifier() and not key.startswith("__") and not src_shadowed(key):
        return "C%d.%s" % (src[1], key)
    return "C%d.__dict__[%r]" % (src[1], key)


def src_shadowed(key):
    sm, _ = impl()
    return is_reserved(sm, key)


WRAPS = ["wraps", "wraps2", "both", "factory", "partial", "lambda"]
INSPECT_KIND = {"PosOnly": "POSITIONAL_ONLY", "PosOrKw": "POSITIONAL_OR_KEYWORD", "VarPos": "VAR_POSITIONAL",
                "KwOnly": "KEYWORD_ONLY", "VarKw": "VAR_KEYWORD"}

# What a case needs when some state function is not a plain def (e["wrap"]).  <case> is a number
# of its own for every run of a case: code objects compare by value, so without it the wrapper
# functions of two cases would be one and the same dict key for anything keyed by __code__, and a
# case would no longer be independent of the cases run before it in the same process.
PRELUDE = '''import functools, inspect

def logged(fn):
    """an ordinary signature-preserving decorator: every function it returns has the SAME code object
    (wrapper's); inspect.signature follows __wrapped__ and reports the signature of fn"""
    @functools.wraps(fn)
    def wrapper(*args, **kwargs):
        _case = <case>
        return fn(*args, **kwargs)
    return wrapper

def traced(fn):
    @functools.wraps(fn)
    def wrapper(*args, **kwargs):
        _case = -<case>
        return fn(*args, **kwargs)
    return wrapper

def stamped(name, params, doc=None):
    """one factory for many state functions: same code object, the signature given by __signature__"""
    def fn(*args, **kwargs):
        _case = <case>
        return tuple(args)
    fn.__name__ = fn.__qualname__ = name
    fn.__doc__ = doc
    P = inspect.Parameter
    fn.__signature__ = inspect.Signature([P(n, getattr(P, k), default=(None if d else P.empty)) for n, k, d in params])
    return fn

def named(fn, name, doc=None):
    """a callable without a usable __name__ (functools.partial object, lambda) given one"""
    fn.__name__ = name
    fn.__doc__ = doc
    return fn
'''


def uses_wrap(spec):
    return any(e.get("wrap") for c in spec["classes"] for e in c["body"] if e["m"] == "state")


def wrap_decorators(wrap):
    """The user decorators between the state decorator and the def, outermost first."""
    return {"wraps": ["logged"], "wraps2": ["traced"], "both": ["logged", "traced"]}.get(wrap, [])


def lambda_src(e):
    names = [n for n, _, _ in e["params"]]
    ps = render_params(e["params"])
    return "lambda%s: (%s)" % (" " + ps if ps else "", "".join(n + ", " for n in names))


def render_class(i, c):
    """Source of class statement i (with the factories its body needs)."""
    pre, body = [], []
    bases = ", ".join("StateMachine" if b == "SM" else "C%d" % b for b in c["bases"])
    head = "class C%d(%s):" % (i, bases) if bases else "class C%d:" % i
    for j, e in enumerate(c["body"]):
        if e["m"] == "state":
            wrap = e.get("wrap")
            isdef = e.get("form", "def") == "def"
            target = e["fname"] if isdef else e["attr"]
            decos = ["    @" + d for d in wrap_decorators(wrap)]
            if wrap == "factory":
                #   s1 = state(first=True)(stamped("s1", [("self", "POSITIONAL_OR_KEYWORD", False), ..], doc))
                ps = "[%s]" % ", ".join("(%r, %r, %r)" % (n, INSPECT_KIND[k], bool(d)) for n, k, d in e["params"])
                expr = "stamped(%r, %s, %r)" % (e["fname"], ps, e.get("doc"))
                body.append("    %s = %s" % (target, apply_deco(e["deco"], expr)))
            elif wrap == "partial":
                #   def _p0_1(_tag, self, tm): ..      s1 = state(..)(named(partial(_p0_1, 0), "s1", doc))
                helper = "_p%d_%d" % (i, j)
                names = [n for n, _, _ in e["params"]]
                ps = render_params([["_tag", "PosOnly" if any(k == "PosOnly" for _, k, _ in e["params"]) else "PosOrKw", False]]
                                   + e["params"])
                pre.append("def %s(%s):" % (helper, ps))
                pre.append("    return (%s)" % "".join(n + ", " for n in names))
                expr = "named(partial(%s, 0), %r, %r)" % (helper, e["fname"], e.get("doc"))
                body.append("    %s = %s" % (target, apply_deco(e["deco"], expr)))
            elif wrap == "lambda":
                #   s1 = state(..)(named(lambda self, tm: (self, tm, ), "s1", doc));  an unnamed lambda is "<lambda>"
                expr = lambda_src(e)
                if e["fname"] != "<lambda>":
                    expr = "named(%s, %r, %r)" % (expr, e["fname"], e.get("doc"))
                else:
                    expr = "(%s)" % expr
                body.append("    %s = %s" % (target, apply_deco(e["deco"], expr)))
            elif isdef and direct_call(e["deco"]):
                #   [@logged]
                #   def go(self): ..
                #   go = state(go, first=True)
                body += decos
                body += render_func(e, 4)
                body.append("    %s = %s" % (e["fname"], apply_deco(e["deco"], e["fname"])))
            elif isdef:
                body.append("    @" + render_deco(e["deco"]))
                body += decos
                body += render_func(e, 4)
            else:
                fac = "_f%d_%d" % (i, j)
                pre.append("def %s():" % fac)
                pre += render_func(e, 4)
                pre.append("    return %s" % e["fname"])
                expr = fac + "()"
                for d in reversed(wrap_decorators(wrap)):
                    expr = "%s(%s)" % (d, expr)
                body.append("    %s = %s" % (e["attr"], apply_deco(e["deco"], expr)))
        elif e["m"] == "ref":
            body.append("    %s = %s" % (e["attr"], render_src(e["src"])))
        elif e["m"] == "method":
            body.append("    def %s(self):" % e["attr"])
            body.append("        return None")
        else:
            body.append("    %s = %d" % (e["attr"], 3))
    if not body:
        body.append("    pass")
    return "\n".join(pre + [head] + body) + "\n"


def render(spec):
    return [render_class(i, c) for i, c in enumerate(spec["classes"])]


def source_text(spec):
    return ("from functools import partial\n"
            "from magicbot.state_machine import StateMachine, state, timed_state, default_state\n\n"
            + (PRELUDE.replace("<case>", "1") + "\n" if uses_wrap(spec) else "")
            + "\n".join(render(spec)) + render_history(spec))


def render_history(spec):
    """The history as the statements the harness carries out (nothing is dropped in between)."""
    hist = history_of(spec)
    if not hist:
        return ""
    out = ["", "# history, carried out once every class statement above has succeeded (every instance, entry and",
           "# publisher stays alive; state_names / state_descriptions are read after each binding, through the",
           "# instance and through an independent NetworkTables subscriber)"]
    for n, ev in enumerate(hist):
        if "pub" in ev:
            out.append("p%d = nt.getStringArrayTopic(%r).publish(); p%d.set(%r)"
                       % (n, topic_path(ev["name"], ev["pub"]), n, list(ev["value"])))
        else:
            out.append("o%d = C%d(); setup_tunables(o%d, %r, \"components\")" % (n, ev["c"], n, nt_name(ev["name"])))
    return "\n".join(out) + "\n"


def spec_attr(i, e):
    """Key under which the class namespace holds the entry (CPython mangles __x in a class body)."""
    if e["m"] == "state" and e.get("form", "def") == "def":
        return mangle("C%d" % i, e["fname"])
    return mangle("C%d" % i, e["attr"])


def dedupe(l):
    out = []
    for x in l:
        if x not in out:
            out.append(x)
    return out


def sm_flags(spec):
    flags = []
    for c in spec["classes"]:
        flags.append(any(b == "SM" or flags[b] for b in c["bases"]))
    return flags


# --------------------------------------------------------------------------
# running one case against the implementation
_case_no = [0]


def run_case(spec):
    """Returns obs = {"def_err": None | [cls, code], "extras": [[..]..], "init": [[topic, value]..],
    "events": [one record per event of history_of(spec)], "adapters": [[cls, key, [vals]]],
    "harness_ok": bool}."""
    sm, mt = impl()
    SM = sm.StateMachine
    import functools
    ns = {"__name__": "c12case", "StateMachine": SM, "state": sm.state, "partial": functools.partial,
          "timed_state": sm.timed_state, "default_state": sm.default_state}
    obs = {"def_err": None, "extras": [], "init": [], "events": [], "adapters": [], "harness_ok": True}
    classes = []
    if uses_wrap(spec):
        _case_no[0] += 1
        exec(compile(PRELUDE.replace("<case>", str(_case_no[0])), "<c12 prelude>", "exec"), ns)
    for i, chunk in enumerate(render(spec)):
        code = compile(chunk, "<c12 class C%d>" % i, "exec")
        try:
            exec(code, ns)
        except Exception as e:  # the class statement raised
            obs["def_err"] = [i, exc_code(sm, e)]
            obs["def_exc"] = "%s: %s" % (type(e).__name__, e)
            return obs
        classes.append(ns["C%d" % i])
    flags = sm_flags(spec)
    for i, cls in enumerate(classes):
        attrs = dedupe([spec_attr(i, e) for e in spec["classes"][i]["body"]])
        keys = [k for k in cls.__dict__ if k in attrs or not (k in IMPLICIT or is_reserved(sm, k))]
        if [k for k in keys if k in attrs] != attrs:
            obs["harness_ok"] = False
        obs["extras"].append([k for k in keys if k not in attrs])
        for k, v in cls.__dict__.items():
            if isinstance(v, sm._State):
                try:
                    r = v.run(0, 1, 2, 3)
                    vals = [x if isinstance(x, int) and 0 <= x <= 3 else 98 for x in r]
                except Exception:
                    vals = [99]
                obs["adapters"].append([i, k, vals])
    run_events(sm, mt, spec, classes, flags, obs)
    return obs


# --------------------------------------------------------------------------
# instantiation histories and binding
LEAVES = {"names": "state_names", "descs": "state_descriptions"}
NAME_TAGS = ["a", "b", "c"]


def nt_name(tag):
    return "c12_" + tag


def topic_path(tag, leaf):
    """The NetworkTables key setup_tunables(o, nt_name(tag), "components") uses for the tunable."""
    return "/components/%s/state/%s" % (nt_name(tag), LEAVES[leaf])


def default_history(spec):
    """For a case that carries no history: every StateMachine class once in definition order
    (base classes first), then once more in the opposite order, all bound under one name."""
    flags = sm_flags(spec)
    sms = [i for i, f in enumerate(flags) if f]
    return [{"c": i, "name": "a"} for i in sms + sms[::-1]]


def history_of(spec):
    """The events of the case that can be carried out: attempts on StateMachine classes that
    exist, plain publishes."""
    flags = sm_flags(spec)
    hist = spec["history"] if "history" in spec else default_history(spec)
    return [ev for ev in hist if "pub" in ev or (0 <= ev["c"] < len(flags) and flags[ev["c"]])]


def read_sub(sub):
    """What an independent subscriber sees on a topic: None if the topic holds no value."""
    v = sub.get()
    if not v.isValid():
        return None
    if v.isStringArray():
        return [str(x) for x in v.getStringArray()]
    return ["<not a string array: %s>" % v.type()]


def run_events(sm, mt, spec, classes, flags, obs):
    """Carries out the history: o = C(); setup_tunables(o, name, "components"); read the two lists
    through the instance and through subscribers that have nothing to do with the machine.  All
    instances, entries and publishers stay alive until the end of the case."""
    from ntcore import NetworkTableInstance
    nt = NetworkTableInstance.getDefault()
    hist = history_of(spec)
    tags = dedupe([ev["name"] for ev in hist])
    subs = {(t, leaf): nt.getTopic(topic_path(t, leaf)).genericSubscribe() for t in tags for leaf in LEAVES}
    obs["init"] = []
    for (t, leaf), sub in subs.items():
        v = read_sub(sub)
        if v is not None:
            obs["init"].append([topic_path(t, leaf), v])
    keep = []
    called = set()
    for ev in hist:
        if "pub" in ev:
            pub = nt.getStringArrayTopic(topic_path(ev["name"], ev["pub"])).publish()
            pub.set([str(x) for x in ev["value"]])
            keep.append(pub)
            obs["events"].append({"pub": ev["pub"], "seen": read_sub(subs[(ev["name"], ev["pub"])])})
            continue
        i = ev["c"]
        cls = classes[i]
        rec = {"c": i, "mro": [j for c in cls.__mro__ for j, d in enumerate(classes) if d is c]}
        obs["events"].append(rec)
        try:
            o = cls()
        except Exception as e:
            rec.update({"err": exc_code(sm, e), "exc": "%s: %s" % (type(e).__name__, e)})
            continue
        keep.append(o)
        try:
            mt.setup_tunables(o, nt_name(ev["name"]), "components")
            names = [str(x) for x in o.state_names]
            descs = [str(x) for x in o.state_descriptions]
        except Exception as e:
            rec.update({"err": 9, "exc": "reading tunables: %s: %s" % (type(e).__name__, e)})
            continue
        rec.update({"names": names, "descs": descs,
                    "sub_names": read_sub(subs[(ev["name"], "names")]),
                    "sub_descs": read_sub(subs[(ev["name"], "descs")])})
        calls = []
        for n in ([] if i in called else names[:3]):
            for how in (0, 1, 2):
                try:
                    if how == 0:
                        target = getattr(cls, n) if n.startswith("_StateMachine__") else getattr(o, n)
                        target()
                    elif how == 1:
                        getattr(cls, n)(o, 1.0, 0.5, True)
                    else:
                        getattr(cls, n)(tm=1.0)
                    calls.append(0)
                except Exception as e:
                    calls.append(exc_code(sm, e))
        called.add(i)
        rec["calls"] = calls
    del keep, subs


# --------------------------------------------------------------------------
# the property stated directly over implementation observations (search oracle)
def sig_faults(params):
    f = []
    if params and params[0][0] != "self":
        f.append("first parameter is not self")
    for n, k, _ in params:
        if k in ("VarPos", "VarKw", "KwOnly"):
            f.append("%s parameter" % k)
        if n not in ALLOWED:
            f.append("parameter name %s" % n)
    return f


def oracle(spec, obs):
    """None if the observation satisfies the property, else (fingerprint, what)."""
    sm, _ = impl()
    flags = sm_flags(spec)
    finals = []
    for i, c in enumerate(spec["classes"]):
        faults = []
        final = {}          # attribute -> the entry that created the object bound there
        unbound = None
        for e in c["body"]:
            if e["m"] == "state":
                if is_reserved(sm, e["fname"]):
                    faults.append("state name %s is an attribute of StateMachine" % e["fname"])
                faults += sig_faults(e["params"])
                if faults:
                    break           # the decorator raises here, nothing below it is executed
            tgt = e
            if e["m"] == "ref":     # a second binding of an object that exists already
                src = e["src"]
                if src[0] == "local":
                    tgt = final.get(src[1])
                else:
                    tgt = finals[src[1]].get(src[2]) if src[1] < len(finals) else None
                    if tgt is None and src[1] < len(obs["extras"]) and src[2] in obs["extras"][src[1]]:
                        tgt = {"m": "other"}
                if tgt is None:
                    unbound = render_src(src)
                    break
            final[spec_attr(i, e)] = tgt
        de = obs["def_err"]
        if unbound is not None and not faults:
            # the body reads a name that is not bound (NameError / KeyError): the property
            # says nothing about such a module
            return None
        if not faults:
            for k, e in final.items():
                if e["m"] == "state":
                    if k != e["fname"]:
                        faults.append("state %s bound as attribute %s" % (e["fname"], k))
                    if not flags[i]:
                        faults.append("state %s bound in C%d which is not a StateMachine" % (e["fname"], i))
        finals.append(final)
        if faults:
            if de is None or de[0] > i:
                return ("c12-malformed-definition-accepted",
                        "class C%d was accepted at class-definition time although: %s" % (i, "; ".join(faults)))
            if de[0] == i and de[1] not in (1, 2, 3):
                return ("c12-definition-wrong-error-class",
                        "class C%d (%s) raised %s" % (i, "; ".join(faults), obs.get("def_exc")))
            return None
        if de is not None and de[0] == i:
            return ("c12-wellformed-definition-rejected",
                    "class C%d has none of the faults of the property but its definition raised %s" % (i, obs.get("def_exc")))
    # adapters: every parameter receives the value of its own name
    for i, k, vals in obs["adapters"]:
        e = finals[i].get(k)
        if e is None or e["m"] != "state":
            continue
        exp = [ALLOWED.index(n) for n, _, _ in e["params"]]
        if vals != exp:
            return ("c12-adapter-argument-order",
                    "state %s of C%d declared (%s) received %r for run(self=0, tm=1, state_tm=2, initial_call=3)"
                    % (k, i, render_params(e["params"]), vals))
    # every event of the history: an attempt is judged by its class alone -- whatever was
    # instantiated, bound or published before it
    hist = history_of(spec)
    for n_ev, (ev, inst) in enumerate(zip(hist, obs["events"])):
        if "pub" in ev:
            continue        # somebody else's publish: the property says nothing about it
        mro = inst["mro"]
        keys = {j: dedupe(list(finals[j].keys())) + obs["extras"][j] for j in mro}

        def effective(k):
            for j in mro:
                if k in finals[j]:
                    return finals[j][k]
                if k in obs["extras"][j]:
                    return {"m": "other"}
            return None
        flat = dedupe([k for j in reversed(mro) for k in keys[j]])
        states = [k for k in flat if effective(k)["m"] == "state"]
        nf = sum(1 for k in states if effective(k)["deco"][0] != "default" and effective(k)["deco"][1])
        nd = sum(1 for k in states if effective(k)["deco"][0] == "default")
        who = "C%d (MRO %s)" % (mro[0], ["C%d" % j for j in mro])
        if n_ev:
            who += " [event %d, after %s]" % (n_ev + 1, history_text(hist[:n_ev]))
        if nf == 1 and nd <= 1:
            if "err" in inst:
                return ("c12-wellformed-machine-not-instantiable",
                        "%s has exactly one first state and %d default state(s) but instantiation raised %s"
                        % (who, nd, inst.get("exc")))
            exp_desc = [effective(k).get("doc") or "" for k in states]
            bound = "bound as %r" % nt_name(ev["name"])
            if inst["names"] != states:
                return ("c12-state-names-wrong",
                        "%s %s: state_names = %r, its states (bases first, definition order) are %r"
                        % (who, bound, inst["names"], states))
            if inst["descs"] != exp_desc:
                return ("c12-state-descriptions-wrong",
                        "%s %s: state_descriptions = %r, expected %r for %r" % (who, bound, inst["descs"], exp_desc, states))
            if inst["sub_names"] != states:
                return ("c12-state-names-topic-wrong",
                        "%s %s: a NetworkTables subscriber sees %s = %r, the states of the machine are %r"
                        % (who, bound, topic_path(ev["name"], "names"), inst["sub_names"], states))
            if inst["sub_descs"] != exp_desc:
                return ("c12-state-descriptions-topic-wrong",
                        "%s %s: a NetworkTables subscriber sees %s = %r, expected %r for %r"
                        % (who, bound, topic_path(ev["name"], "descs"), inst["sub_descs"], exp_desc, states))
            if any(c != 7 for c in inst["calls"]):
                return ("c12-direct-call-not-rejected",
                        "%s: calling a state directly gave %r (IllegalCallError expected)"
                        % (who, [CODE_NAMES.get(c, c) for c in inst["calls"]]))
        else:
            allowed = ([4] if nf == 0 else []) + ([5] if nf >= 2 else []) + ([6] if nd >= 2 else [])
            if "err" not in inst:
                return ("c12-malformed-machine-instantiated",
                        "%s has %d first and %d default states but was instantiated (state_names %r)"
                        % (who, nf, nd, inst["names"]))
            if inst["err"] not in allowed:
                return ("c12-instantiation-wrong-error-class",
                        "%s has %d first and %d default states; instantiation raised %s, allowed: %s"
                        % (who, nf, nd, inst.get("exc"), [CODE_NAMES[c] for c in allowed]))
    return None


def history_text(hist):
    out = []
    for ev in hist:
        if "pub" in ev:
            out.append("publish(%s, %r)" % (topic_path(ev["name"], ev["pub"]), ev["value"]))
        else:
            out.append("C%d() as %r" % (ev["c"], nt_name(ev["name"])))
    return "; ".join(out)


# --------------------------------------------------------------------------
# generators
def st(fname, params=None, deco=None, doc=None, attr=None, form="def"):
    return {"attr": attr if attr is not None else fname, "m": "state", "fname": fname,
            "params": params if params is not None else [["self", "PosOrKw", False]],
            "doc": doc, "deco": deco or ["state", False, False], "form": form}


def other(attr, m="method"):
    return {"attr": attr, "m": m}


def ref_local(attr, key):
    return {"attr": attr, "m": "ref", "src": ["local", key]}


def ref_class(attr, c, key):
    return {"attr": attr, "m": "ref", "src": ["class", c, key]}


def one_class(body, bases=("SM",)):
    return {"classes": [{"bases": list(bases), "body": body}]}


FIRST = ["state", True, False]
DECOS3 = [["state", False, False], ["timed", False, False, "1.5"], ["default"]]


def valid_kind_seqs(n):
    for seq in itertools.product(KINDS, repeat=n):
        if all(KORD[a] <= KORD[b] for a, b in zip(seq, seq[1:])) and seq.count("VarPos") <= 1 and seq.count("VarKw") <= 1:
            yield seq


def all_signatures(n):
    for names in itertools.permutations(SIG_NAME_POOL, n):
        for ks in valid_kind_seqs(n):
            yield [[nm, k, False] for nm, k in zip(names, ks)]


def with_defaults(rng, ps):
    ps = [list(p) for p in ps]
    pos = [p for p in ps if p[1] in ("PosOnly", "PosOrKw")]
    if pos and rng.random() < 0.6:
        cut = rng.randrange(len(pos))
        for p in pos[cut:]:
            p[2] = True
    for p in ps:
        if p[1] == "KwOnly" and rng.random() < 0.5:
            p[2] = True
    return ps


def sig_case(ps, deco=None):
    return one_class([st("s0", params=ps, deco=deco or FIRST)])


def gen_fixed(sm, ctx):
    """Edge cases and the finite enumerations."""
    cases = []
    # reserved names x the three decorators (first state s0 keeps the machine instantiable)
    for n in reserved_list(sm):
        for d in DECOS3:
            cases.append(("reserved", one_class([st("s0", deco=FIRST), st(n, deco=d, form="assign", attr=n)])))
    for n in NEAR_MISS:
        for d in DECOS3:
            cases.append(("near-miss", one_class([st("s0", deco=FIRST), st(n, deco=d, form="assign", attr=n)])))
    # all 16 legal ordered parameter subsets (+ no parameter at all, + positional-only self)
    for r in range(4):
        for sub in itertools.permutations(ALLOWED[1:], r):
            ps = [["self", "PosOrKw", False]] + [[n, "PosOrKw", False] for n in sub]
            cases.append(("legal-sig", sig_case(ps)))
            cases.append(("legal-sig", sig_case(with_defaults(ctx.rng, ps), deco=["timed", True, False, "0.5"])))
    cases.append(("legal-sig", sig_case([])))
    cases.append(("legal-sig", sig_case([["self", "PosOnly", False], ["tm", "PosOnly", False]])))
    cases.append(("legal-sig", sig_case([["self", "PosOnly", False], ["tm", "PosOrKw", True]])))
    # every kind x position <= 3 x name, inside an otherwise legal signature
    filler = ["self", "tm", "state_tm"]
    for pos in range(3):
        for k in KINDS:
            for n in SIG_NAME_POOL:
                names = list(filler)
                if n in names and names.index(n) != pos:
                    names[names.index(n)] = "initial_call"
                names[pos] = n
                kinds = ["PosOrKw"] * 3
                kinds[pos] = k
                for j in range(3):      # make the kind sequence syntactically valid
                    if j < pos and KORD[k] < KORD["PosOrKw"]:
                        kinds[j] = "PosOnly"
                    if j > pos and KORD[k] > KORD["PosOrKw"]:
                        kinds[j] = "VarKw" if (k == "VarKw") else "KwOnly"
                ps = [[a, b, False] for a, b in zip(names, kinds)]
                if kinds.count("VarKw") > 1:
                    ps = ps[:pos + 1]
                cases.append(("kind-pos-name", sig_case(ps)))
    # classic multiplicity cases and overriding
    cases.append(("edge", one_class([])))
    cases.append(("edge", one_class([st("a"), st("b")])))
    cases.append(("edge", one_class([st("a", deco=FIRST), st("b", deco=FIRST)])))
    cases.append(("edge", one_class([st("a", deco=FIRST), st("b", deco=["default"]), st("c", deco=["default"])])))
    cases.append(("edge", one_class([st("b", deco=["default"]), st("c", deco=["default"])])))
    cases.append(("edge", one_class([st("a", deco=FIRST, doc="first"), st("a", deco=["state", False, False], doc="again")])))
    cases.append(("edge", one_class([st("a", deco=FIRST), st("b", attr="c", form="assign")])))
    cases.append(("edge", one_class([st("a", deco=FIRST), st("__priv")])))
    cases.append(("edge", one_class([st("a", deco=FIRST)], bases=())))
    cases.append(("edge", one_class([st("a", deco=FIRST), other("a", "value")], bases=())))
    cases.append(("edge", one_class([st("done", params=[["x", "VarPos", False]], deco=FIRST)])))
    cases.append(("edge", {"classes": [
        {"bases": ["SM"], "body": [st("a", deco=FIRST, doc="A.a"), st("b", doc="A.b")]},
        {"bases": [0], "body": [st("c"), st("a", doc="B.a")]}]}))
    cases.append(("edge", {"classes": [
        {"bases": ["SM"], "body": [st("a", deco=FIRST), st("b")]},
        {"bases": [0], "body": [other("a", "value")]},
        {"bases": [1], "body": [st("a", deco=FIRST, doc="back")]}]}))
    cases.append(("edge", {"classes": [
        {"bases": ["SM"], "body": [st("a", deco=FIRST), st("z", deco=["timed", False, False, "1.0"])]},
        {"bases": [0], "body": [st("m")]},
        {"bases": [0], "body": [st("n"), st("a", deco=FIRST, doc="C2.a")]},
        {"bases": [1, 2], "body": [st("z_duration"), st("k", deco=["default"])]}]}))
    cases += gen_rebinding_fixed()
    cases += gen_spelling_fixed()
    cases += gen_wrapped_fixed()
    return cases


WORK_KINDS = [["state", False, False], ["state", True, False], ["timed", False, False, "2.0"],
              ["timed", True, True, "0.5"], ["default"]]


def gen_rebinding_fixed():
    """An existing state object bound a second time: in the same body, by a derived class, by
    an unrelated machine, by a plain class; under a new name (rejected), under its own name
    (accepted in a StateMachine), and rebound afterwards."""
    cases = []

    def add(spec):
        cases.append(("rebinding", spec))
    for wk in WORK_KINDS:
        is_first = wk[0] != "default" and wk[1]
        begin = [] if is_first else [st("begin", deco=FIRST)]
        work = lambda form="assign": st("work", params=[["self", "PosOrKw", False], ["tm", "PosOrKw", False]],
                                        deco=list(wk), doc="does the work", form=form)
        for form in ("def", "assign"):
            # second name in the same body, after the proper definition
            add(one_class(begin + [work(form), ref_local("again", "work")]))
            # .. the second name has its place in the namespace BEFORE the state
            add(one_class(begin + [other("again", "value"), work(form), ref_local("again", "work")]))
            # .. a second name that is rebound to something else afterwards (accepted)
            add(one_class(begin + [work(form), ref_local("tmp", "work"), other("tmp", "value")]))
            # .. a chain of names
            add(one_class(begin + [work(form), ref_local("w2", "work"), ref_local("w3", "w2")]))
            # .. the state is moved: own name rebound to a non-state, alias stays
            add(one_class(begin + [work(form), ref_local("w2", "work"), other("work", "method")]))
            # .. same name again (a no-op rebinding, accepted)
            add(one_class(begin + [work(form), other("x", "value"), ref_local("work", "work")]))
        base = {"bases": ["SM"], "body": begin + [work()]}
        for bases in ([0], ["SM"], [0, "SM"]):
            # a derived class / an unrelated machine binds the existing state under a new name
            add({"classes": [base, {"bases": bases, "body": [ref_class("retry", 0, "work")]}]})
            add({"classes": [base, {"bases": bases, "body": [st("start", deco=["state", False, False], doc="starts"),
                                                             ref_class("retry", 0, "work"), st("end")]}]})
            # .. under its own name (legal)
            add({"classes": [base, {"bases": bases, "body": [st("start", deco=["state", False, False], doc="starts"),
                                                             ref_class("work", 0, "work")]}]})
            # .. under a new name that is rebound afterwards (legal)
            add({"classes": [base, {"bases": bases, "body": [ref_class("retry", 0, "work"), other("retry", "method")]}]})
        # the state of a machine reused in a class that is no StateMachine
        add({"classes": [base, {"bases": [], "body": [ref_class("work", 0, "work")]}]})
        add({"classes": [base, {"bases": [], "body": [ref_class("helper", 0, "work")]}]})
        add({"classes": [base, {"bases": [], "body": [other("x", "value"), ref_class("work", 0, "work"), other("y")]}]})
        add({"classes": [base, {"bases": [], "body": [ref_class("work", 0, "work"), other("work", "value")]}]})
        # .. picked up through a plain mix-in that was rejected is never reached; through a derived machine:
        add({"classes": [base, {"bases": [0], "body": [ref_class("work", 0, "work")]},
                         {"bases": [1], "body": [ref_class("again", 1, "work")]}]})
        add({"classes": [base, {"bases": [0], "body": [ref_class("work", 0, "work")]},
                         {"bases": ["SM"], "body": [st("go", deco=["state", False, False]), ref_class("work", 1, "work")]}]})
    # a non-state picked up again, and names that are not bound
    cases.append(("rebinding", one_class([st("a", deco=FIRST), other("v", "value"), ref_local("w", "v")])))
    cases.append(("rebinding", {"classes": [{"bases": ["SM"], "body": [st("a", deco=FIRST), other("m")]},
                                            {"bases": [], "body": [ref_class("n", 0, "m")]}]}))
    cases.append(("rebinding", {"classes": [{"bases": ["SM"], "body": [st("a", deco=["timed", True, False, "1.0"])]},
                                            {"bases": [0], "body": [ref_class("d", 0, "a_duration")]}]}))
    cases.append(("unbound", one_class([st("a", deco=FIRST), ref_local("w", "nosuch")])))
    cases.append(("unbound", one_class([ref_local("w", "a"), st("a", deco=FIRST)])))
    cases.append(("unbound", {"classes": [{"bases": ["SM"], "body": [st("a", deco=FIRST)]},
                                          {"bases": [0], "body": [ref_class("w", 0, "nosuch")]}]}))
    cases.append(("unbound", one_class([st("a", params=[["tm", "PosOrKw", False]], deco=FIRST), ref_local("w", "nosuch")])))
    cases.append(("unbound", one_class([ref_local("w", "nosuch"), st("a", params=[["tm", "PosOrKw", False]], deco=FIRST)])))
    return cases


CALL_SPELLINGS = ["call", "callkw", "partial"]


def gen_spelling_fixed():
    """The options of `state` given together with the function in ONE call (k = state(f, first=True),
    state(f=f, ..), @partial(state, ..)): the mark must count as it does for @state(first=True).
    Per spelling x form x (first, must_finish): the only first state spelled that way; a second
    state next to a factory-spelled first one (same body, subclass, mix-in); an override of the
    inherited first state; plus the definition-time faults through that spelling."""
    cases = []

    def add(spec):
        cases.append(("spelling", spec))
    sig2 = [["self", "PosOrKw", False], ["state_tm", "PosOrKw", False]]
    for sp in CALL_SPELLINGS:
        for form in ("def", "assign"):
            for first in (True, False):
                for mf in (False, True):
                    go = lambda doc="goes": st("go", params=sig2, deco=["state", first, mf, sp], doc=doc, form=form)
                    a_first = st("a", deco=FIRST, doc="A")
                    # the machine's only candidate for the first state
                    add(one_class([go(), st("b", deco=["state", False, False, "bare"])]))
                    add(one_class([st("d", deco=["default"]), st("t", deco=["timed", False, True, "1.0"]), go()]))
                    # next to a first state written with the factory: same body, subclass, mix-in, diamond
                    add(one_class([a_first, go()]))
                    add(one_class([go(), a_first]))
                    add({"classes": [{"bases": ["SM"], "body": [a_first]}, {"bases": [0], "body": [go()]}]})
                    add({"classes": [{"bases": ["SM"], "body": [st("x")]}, {"bases": ["SM"], "body": [go()]},
                                     {"bases": [0, 1], "body": []}]})
                    add({"classes": [{"bases": ["SM"], "body": [a_first]}, {"bases": ["SM"], "body": [go()]},
                                     {"bases": [0, 1], "body": [st("y", doc="Y")]}]})
                    add({"classes": [{"bases": ["SM"], "body": [a_first]}, {"bases": [0], "body": [st("m")]},
                                     {"bases": [0], "body": [go()]}, {"bases": [1, 2], "body": []}]})
                    # an inherited first state (factory) overridden through the call spelling, and back
                    add({"classes": [{"bases": ["SM"], "body": [st("go", deco=FIRST, doc="base go"), st("b")]},
                                     {"bases": [0], "body": [go(doc=None)]}]})
                    add({"classes": [{"bases": ["SM"], "body": [go(), st("b")]},
                                     {"bases": [0], "body": [st("go", deco=["state", not first, False], doc="derived go")]}]})
                    # two states, both through the call spelling
                    add(one_class([go(), st("h", deco=["state", True, mf, sp], form=form)]))
            # definition-time faults reach _State.__init__ through this spelling as well
            add(one_class([st("a", deco=FIRST), st("done", deco=["state", True, False, sp], form="assign", attr="done")]))
            add(one_class([st("a", deco=FIRST), st("go", params=[["tm", "PosOrKw", False]], deco=["state", False, True, sp], form=form)]))
            add(one_class([st("a", deco=FIRST), st("go", params=[["self", "PosOrKw", False], ["kw", "VarKw", False]],
                                                   deco=["state", True, False, sp], form=form)]))
            add(one_class([st("go", deco=["state", True, False, sp], form=form)], bases=()))
            add(one_class([st("a", deco=FIRST), st("go", deco=["state", True, False, sp], form="assign", attr="other")]))
    return cases


def add_rebinding(rng, spec):
    """Insert 1-2 second bindings of objects that exist at that point into a generated
    hierarchy.  Returns the tag of what was inserted (or None)."""
    classes = spec["classes"]
    tag = None
    for _ in range(rng.choice([1, 1, 2])):
        i = rng.randrange(len(classes))
        body = classes[i]["body"]
        pos = rng.randrange(len(body) + 1)
        srcs = [["local", spec_attr(i, e)] for e in body[:pos]]
        for c in range(i):
            srcs += [["class", c, spec_attr(c, e)] for e in classes[c]["body"]]
        srcs = [x for x in srcs if not x[-1].startswith("_C")]
        if not srcs:
            continue
        # prefer picking up a state
        def is_state(x):
            b = classes[i]["body"][:pos] if x[0] == "local" else classes[x[1]]["body"]
            j = i if x[0] == "local" else x[1]
            return any(e["m"] == "state" and spec_attr(j, e) == x[-1] for e in b)
        st_srcs = [x for x in srcs if is_state(x)]
        src = rng.choice(st_srcs) if st_srcs and rng.random() < 0.8 else rng.choice(srcs)
        r = rng.random()
        if r < 0.45:
            attr, how = src[-1], "same"
        elif r < 0.8:
            attr, how = rng.choice([src[-1] + "_again", "retry", "helper", "s9"]), "new"
        else:
            attr, how = rng.choice(STATE_POOL), "pool"
        body.insert(pos, {"attr": attr, "m": "ref", "src": src})
        if how != "same" and rng.random() < 0.2:        # .. and rebound below
            body.insert(rng.randrange(pos + 1, len(body) + 1), other(attr, rng.choice(["method", "value"])))
            how += "+rebound"
        tag = "rebind:%s:%s" % (src[0], how)
    return tag


SHAPES = {
    "single": [["SM"]],
    "linear2": [["SM"], [0]],
    "linear3": [["SM"], [0], [1]],
    "linear4": [["SM"], [0], [1], [2]],
    "diamond": [["SM"], [0], [0], [1, 2]],
    "mixin": [["SM"], ["SM"], [0, 1]],
    "mixin4": [["SM"], ["SM"], [0, 1], [2]],
    "tri": [["SM"], [0], [1, 0]],
    "plainmix": [[], [0, "SM"]],
    "plainmix3": [["SM"], [], [0, 1]],
    "fork": [["SM"], [0], [0]],
}
LEGAL_SIGS = [[["self", "PosOrKw", False]] + [[n, "PosOrKw", False] for n in sub]
              for r in range(4) for sub in itertools.permutations(ALLOWED[1:], r)]


def gen_state(rng, name, i, first, faulty=None):
    r = rng.random()
    if r < 0.12 and not first:
        deco = ["default"]
    elif r < 0.4:
        deco = ["timed", first, rng.random() < 0.3, rng.choice(["0.5", "1.0", "2.25"])]
        if rng.random() < 0.3:
            deco.append("s2")
    else:
        deco = ["state", first, rng.random() < 0.3]
        if not first and not deco[2] and rng.random() < 0.5:
            deco.append("bare")
        elif rng.random() < 0.35:       # function and options in one call
            deco.append(rng.choice(CALL_SPELLINGS))
    doc = None
    r = rng.random()
    if r < 0.45:
        doc = "%s of C%d" % (name, i)
    elif r < 0.5:
        doc = ""
    ps = [list(p) for p in rng.choice(LEGAL_SIGS)]
    if rng.random() < 0.1:
        ps = with_defaults(rng, ps)
    e = st(name, params=ps, deco=deco, doc=doc, form="def" if rng.random() < 0.7 else "assign")
    if faulty == "reserved":
        e["fname"] = e["attr"] = faulty_name = rng.choice(["done", "engage", "execute", "logger", "state_names",
                                                            "state_descriptions", "current_state", "on_enable",
                                                            "is_executing", "next_state", "mro", "__init__",
                                                            "VERBOSE_LOGGING", "__doc__"])
        e["form"] = "assign"
    elif faulty == "sig":
        for p_ in e["params"]:
            p_[2] = False
        k = rng.random()
        if k < 0.25:
            e["params"] = [["tm", "PosOrKw", False]] + [p for p in e["params"][1:] if p[0] != "tm"]
        elif k < 0.45:
            e["params"] = e["params"] + [["args", "VarPos", False]]
        elif k < 0.6:
            e["params"] = e["params"] + [["kw", "VarKw", False]]
        elif k < 0.8:
            e["params"] = [p for p in e["params"] if p[0] != "tm"] + [["tm", "KwOnly", rng.random() < 0.5]]
        else:
            e["params"] = e["params"] + [[rng.choice(["x", "now", "Self", "TM"]), "PosOrKw", False]]
    elif faulty == "alias":
        e["form"] = "assign"
        e["attr"] = name + "_alias"
    elif faulty == "mangled":
        e["form"] = "def"
        e["fname"] = e["attr"] = "__" + name
    return e


def gen_hier(rng):
    shape = rng.choice(list(SHAPES) + ["single", "linear2", "diamond", "mixin"])
    bases = SHAPES[shape]
    flags = []
    for b in bases:
        flags.append(any(x == "SM" or flags[x] for x in b))
    fault = None
    r = rng.random()
    if r < 0.14:
        fault = rng.choice(["reserved", "sig", "alias", "mangled", "owner", "sig"])
    fault_cls = rng.randrange(len(bases))
    if fault == "owner":
        shape = rng.choice(["plainmix", "plainmix3"])
        bases = SHAPES[shape]
        flags = []
        for b in bases:
            flags.append(any(x == "SM" or flags[x] for x in b))
        fault_cls = flags.index(False)
    first_mode = rng.random()     # <0.8: one designated first state; else free
    sms = [i for i, f in enumerate(flags) if f]
    designated = sms[0] if rng.random() < 0.75 else rng.choice(sms)
    classes = []
    used = []
    first_name = None
    tags = [shape]
    for i, b in enumerate(bases):
        body = []
        n = rng.choice([0, 1, 1, 2, 2, 3, 4])
        if i == designated and n == 0:
            n = 1
        for j in range(n):
            if used and rng.random() < 0.4:
                name = rng.choice(used)
            else:
                name = rng.choice(STATE_POOL)
            kind = rng.random()
            if name == first_name and rng.random() < 0.6:
                name = rng.choice(STATE_POOL[:5])
            if not flags[i]:
                body.append(other(name, "method" if kind < 0.5 else "value"))
                continue
            if kind < 0.72 or (i == designated and j == 0 and first_mode < 0.8):
                if first_mode < 0.8:
                    first = (i == designated and j == 0) or (name == first_name and rng.random() < 0.7)
                    if first:
                        first_name = name
                else:
                    first = rng.random() < 0.3
                body.append(gen_state(rng, name, i, first))
            else:
                body.append(other(name, "method" if kind < 0.86 else "value"))
            used.append(name)
        if fault and i == fault_cls:
            if fault == "owner":
                if not flags[i]:
                    body.insert(rng.randrange(len(body) + 1), gen_state(rng, rng.choice(STATE_POOL), i, False))
                    tags.append("fault:owner")
            elif flags[i]:
                body.insert(rng.randrange(len(body) + 1), gen_state(rng, rng.choice(STATE_POOL), i, False, faulty=fault))
                tags.append("fault:" + fault)
        classes.append({"bases": list(b), "body": body})
    return tags, {"classes": classes}


ORDERS = ["asc", "desc", "shuffle", "each-twice", "each-thrice"]
OLD_VALUES = [["old_a", "old_b"], ["zz"], [], ["s1", "s2", "s3", "s4", "s5", "s6"], ["stale", "", "stale"]]


BAD_SIGS = {
    "bad-name": [["self", "PosOrKw", False], ["speed", "PosOrKw", False]],
    "first-not-self": [["this", "PosOrKw", False], ["tm", "PosOrKw", False]],
    "varargs": [["self", "PosOrKw", False], ["args", "VarPos", False]],
    "kwargs": [["self", "PosOrKw", False], ["tm", "PosOrKw", False], ["kw", "VarKw", False]],
    "kw-only": [["self", "PosOrKw", False], ["tm", "KwOnly", False]],
}


def gen_wrapped_fixed():
    """State functions that are not plain defs when the state decorator sees them: behind a shared
    functools.wraps-based decorator (one code object for all of them, inspect.signature follows
    __wrapped__), behind another one, behind both, stamped out by one factory (one code object, the
    signature in __signature__), functools.partial objects and lambdas given a __name__.  Every
    state is judged by the signature inspect.signature reports for IT: a legal one first and an
    illegal one later (same class, derived class, unrelated machine), the other way round, legal
    ones with different signatures next to each other (the adapters must differ), mixed with
    plain defs."""
    cases = []

    def add(spec):
        cases.append(("wrapped", spec))
    sig_tm = [["self", "PosOrKw", False], ["tm", "PosOrKw", False]]
    sig_st = [["self", "PosOrKw", False], ["state_tm", "PosOrKw", False], ["initial_call", "PosOrKw", False]]
    decos = [["state", False, False], ["timed", False, True, "1.0"], ["default"], ["state", False, False, "call"]]
    n = 0
    for w in WRAPS:
        for form in ("def", "assign"):
            ok = lambda name="ok", ps=sig_tm, wrap=w, deco=None, doc="fine": dict(
                st(name, params=ps, deco=deco or FIRST, doc=doc, form=form), wrap=wrap)
            # legal ones only, different signatures behind the same wrapper
            add(one_class([ok(), ok("b", sig_st, deco=["state", False, False], doc=None),
                           ok("c", [["self", "PosOrKw", False]], deco=["timed", False, False, "0.5"], doc="c doc")]))
            add({"classes": [{"bases": ["SM"], "body": [ok()]},
                             {"bases": [0], "body": [ok("b", sig_st, deco=["default"], doc="B.b")]},
                             {"bases": ["SM"], "body": [ok("go", sig_st, deco=["state", True, False, "call"])]}]})
            for kind, ps in BAD_SIGS.items():
                deco = decos[n % len(decos)]
                n += 1
                bad = lambda wrap=w: dict(st("bad", params=ps, deco=list(deco), doc="bad one", form=form), wrap=wrap)
                add(one_class([bad(), ok()]))                       # the illegal one comes first
                add(one_class([ok(), bad()]))                       # .. after a legal one behind the same wrapper
                add(one_class([ok(), ok("b", sig_st, deco=["state", False, False]), other("m"), bad(), ok("z", deco=["state", False, False])]))
                add({"classes": [{"bases": ["SM"], "body": [ok()]}, {"bases": [0], "body": [bad()]}]})
                add({"classes": [{"bases": ["SM"], "body": [ok()]}, {"bases": ["SM"], "body": [ok("go"), bad()]}]})
                add(one_class([ok(wrap=None), bad()]))              # .. after a legal plain def
                add(one_class([ok(), bad(wrap=None)]))              # a plain illegal def after a legal wrapped one
                add(one_class([bad()]))                             # on its own
    # an unnamed lambda is called "<lambda>": bound under any attribute name it is an alias
    add(one_class([st("a", deco=FIRST), dict(st("<lambda>", params=sig_tm, attr="s1", form="assign"), wrap="lambda")]))
    add(one_class([dict(st("<lambda>", params=sig_tm, deco=FIRST, attr="s1", form="assign"), wrap="lambda")], bases=()))
    # the wrapper in a plain class, under another name, with a reserved name
    add(one_class([dict(st("a", deco=FIRST), wrap="wraps")], bases=()))
    add(one_class([st("a", deco=FIRST), dict(st("b", attr="c", form="assign"), wrap="wraps")]))
    for w in WRAPS:
        add(one_class([st("a", deco=FIRST), dict(st("done", attr="done", form="assign"), wrap=w)]))
    return cases


def add_wraps(rng, spec, tags):
    """Puts part of the state functions of a generated hierarchy behind user decorators / makes them
    factory products, partial objects or lambdas (30 % of the cases; in a case with a faulty signature
    more often, and then mostly ALL states the same way, so that legal and illegal signatures share
    whatever the wrapped functions share)."""
    states = [e for c in spec["classes"] for e in c["body"] if e["m"] == "state" and not e.get("wrap")]
    if not states or rng.random() >= (0.6 if "fault:sig" in tags else 0.3):
        return None
    kind = rng.choice(WRAPS + ["wraps", "factory", "mixed"])
    p = rng.choice([1.0, 1.0, 0.6])
    for e in states:
        if rng.random() < p:
            e["wrap"] = rng.choice(WRAPS) if kind == "mixed" else kind
    return "wrap:" + kind


def attach_history(rng, spec):
    """Gives the case a history: every StateMachine class is attempted at least twice -- base
    classes before their subclasses, subclasses before their base classes, back to back or
    interleaved -- and the instances are bound under component names whose topics already hold
    something else: the lists of the machine bound there before (another class, a base class, a
    subclass; kept alive) or the value of a plain publisher.  Returns tags for the counters."""
    flags = sm_flags(spec)
    sms = [i for i, f in enumerate(flags) if f]
    if not sms:
        spec["history"] = []
        return []
    rounds = []
    how = rng.choice(["asc+asc", "asc+desc", "desc+asc", "desc+desc", "shuffle", "each-twice", "each-thrice",
                      "desc+asc", "asc+desc"])
    if how == "shuffle":
        for _ in range(rng.choice([2, 3])):
            r_ = list(sms)
            rng.shuffle(r_)
            rounds += r_
    elif how.startswith("each"):
        k = 2 if how == "each-twice" else 3
        base = sms if rng.random() < 0.5 else sms[::-1]
        rounds = [i for i in base for _ in range(k)]
    else:
        for part in how.split("+"):
            rounds += sms if part == "asc" else sms[::-1]
    naming = rng.choice(["same", "same", "same", "per-class", "random"])
    hist = []
    for i in rounds:
        if naming == "same":
            tag = "a"
        elif naming == "per-class":
            tag = NAME_TAGS[i % 2]
        else:
            tag = rng.choice(NAME_TAGS)
        hist.append({"c": i, "name": tag})
    tags = ["order=" + how, "naming=" + naming]
    if rng.random() < 0.3:
        used = dedupe([ev["name"] for ev in hist])
        for _ in range(rng.choice([1, 1, 2])):
            pos = rng.choice([0, 0, rng.randrange(len(hist) + 1)])
            hist.insert(pos, {"pub": rng.choice(["names", "descs"]), "name": rng.choice(used),
                              "value": list(rng.choice(OLD_VALUES))})
        tags.append("plain-publisher")
    spec["history"] = hist
    return tags


def gen_cases(sm, ctx):
    cases = []
    cdir = os.path.join(CORPUS, "C12")
    if os.path.isdir(cdir):
        for f in sorted(os.listdir(cdir)):
            if f.endswith(".json"):
                cases.append((["corpus"], json.load(open(os.path.join(cdir, f)))["case"]))
    for tag, c in gen_fixed(sm, ctx):
        cases.append(([tag], c))
    r = ctx.rng
    thorough = ctx.tier == "thorough"
    for n in (1, 2):
        for ps in all_signatures(n):
            cases.append((["sig-all-len%d" % n], sig_case(ps)))
    sig3 = list(all_signatures(3))
    if thorough:
        for ps in sig3:
            cases.append((["sig-all-len3"], sig_case(ps)))
        for _ in range(3000):
            cases.append((["sig-len3-defaults"], sig_case(with_defaults(r, r.choice(sig3)),
                                                          deco=r.choice([FIRST, ["timed", True, False, "1.0"]]))))
    else:
        for _ in range(400):
            cases.append((["sig-len3-sample"], sig_case(with_defaults(r, r.choice(sig3)))))
    total = 40500 if thorough else 3800
    while len(cases) < total:
        tags, c = gen_hier(r)
        if r.random() < 0.2:
            t = add_rebinding(r, c)
            if t:
                tags = tags + [t]
        cases.append((["hier"] + tags, c))
    # histories come from a stream of their own: the definitions are those of earlier versions
    hrng = random.Random("c12-history-%d" % ctx.seed)
    wrng = random.Random("c12-wrap-%d" % ctx.seed)
    out = []
    for tags, c in cases:
        if tags[0] == "hier":
            t = add_wraps(wrng, c, tags)
            if t:
                tags = tags + [t]
        if "history" not in c and tags != ["corpus"]:
            tags = tags + ["hist:" + t for t in attach_history(hrng, c)]
        out.append((tags, c))
    return out


# --------------------------------------------------------------------------
# emission


def coq_param(p):
    return "{| p_name := %s; p_kind := %s |}" % (coq_string(p[0]), p[1])


def coq_deco(d):
    b = lambda x: "true" if x else "false"
    if d[0] == "default":
        return "DDefault"
    if d[0] == "state":
        return "(%s %s %s)" % ("DStateCall" if goes_through_call_path(d) else "DState", b(d[1]), b(d[2]))
    return "(DTimed %s %s)" % (b(d[1]), b(d[2]))


def coq_entry(i, e):
    k = coq_string(spec_attr(i, e))
    if e["m"] == "ref":
        src = e["src"]
        if src[0] == "local":
            return "(%s, SLocal %s)" % (k, coq_string(src[1]))
        return "(%s, SRef %d %s)" % (k, src[1], coq_string(src[2]))
    if e["m"] != "state":
        return "(%s, SOther)" % k
    doc = "None" if e.get("doc") is None else "(Some %s)" % coq_string(e["doc"])
    return "(%s, SState {| d_fname := %s; d_params := %s; d_doc := %s; d_deco := %s |})" % (
        k, coq_string(e["fname"]), coq_list([coq_param(p) for p in e["params"]]), doc, coq_deco(e["deco"]))


def coq_nats(l):
    return coq_list([str(int(x)) for x in l])


def coq_case(spec, obs):
    cls = []
    for i, c in enumerate(spec["classes"]):
        extra = obs["extras"][i] if i < len(obs["extras"]) else []
        cls.append("{| c_bases := %s; c_body := %s; c_extra := %s |}" % (
            coq_list(["BSM" if b == "SM" else "(BClass %d)" % b for b in c["bases"]]),
            coq_list([coq_entry(i, e) for e in c["body"]]),
            coq_list([coq_string(x) for x in extra])))
    hist = history_of(spec)
    if obs["def_err"] is not None:
        o = "HDefErr %d %d" % tuple(obs["def_err"])
        events, init = [], []
    else:
        evs = []
        events = []
        for ev, rec in zip(hist, obs["events"]):
            if "pub" in ev:
                events.append("EPublish %s %s" % (coq_string(topic_path(ev["name"], ev["pub"])), coq_strs(ev["value"])))
                evs.append("IPub %s" % coq_optstrs(rec["seen"]))
                continue
            events.append("EInst %s %s" % (coq_nats(rec["mro"]), coq_string(nt_name(ev["name"]))))
            if "err" in rec:
                evs.append("IErr %d" % rec["err"])
            else:
                evs.append("IOk %s %s %s %s %s" % (coq_strs(rec["names"]), coq_strs(rec["descs"]),
                                                   coq_optstrs(rec["sub_names"]), coq_optstrs(rec["sub_descs"]),
                                                   coq_nats(rec["calls"])))
        ads = ["(%d, %s, %s)" % (i, coq_string(k), coq_nats(v)) for i, k, v in obs["adapters"]]
        o = "HDefined %s %s" % (coq_list(evs), coq_list(ads))
        init = ["(%s, %s)" % (coq_string(t), coq_strs(v)) for t, v in obs["init"]]
    return "{| h_classes := %s;\n   h_init := %s;\n   h_events := %s;\n   h_obs := %s |}" % (
        coq_list(cls), coq_list(init), coq_list(events), o)


def coq_strs(l):
    return coq_list([coq_string(str(x)) for x in l])


def coq_optstrs(l):
    return "None" if l is None else "(Some %s)" % coq_strs(l)


HEADER = ("From Coq Require Import List String.\nFrom RV Require Import Defs.Model Defs.Corr.\n"
          "From W Require Import Gen_reserved.\nImport ListNotations.\nOpen Scope string_scope.\nOpen Scope list_scope.\n")


def printable(spec):
    for c in spec["classes"]:
        for e in c["body"]:
            for s in [e["attr"], e.get("fname", ""), e.get("doc") or "", str(e.get("src", [""])[-1])] + \
                    [p[0] for p in e.get("params", [])]:
                if not plain(s):
                    return False
    for ev in spec.get("history", []):
        if not all(plain(str(x)) for x in [ev["name"]] + list(ev.get("value", []))):
            return False
    return True


def plain(s):
    return not ('"' in s or "\\" in s or not all(32 <= ord(ch) < 127 for ch in s))


# --------------------------------------------------------------------------
def shrink(spec, fp, verdict=None, budget=None):
    """Greedy: drop body entries / docs / trailing classes while the same failure remains.
    verdict: spec -> oracle verdict (default: run in this process); budget: at most that many runs."""
    left = [budget]

    def fails(s):
        if left[0] is not None:
            if left[0] <= 0:
                return False
            left[0] -= 1
        try:
            v = verdict(s) if verdict else oracle(s, run_case(s))
        except Exception:
            return False
        return v is not None and v[0] == fp
    cur = json.loads(json.dumps(spec))
    cur["history"] = history_of(cur)        # explicit from here on
    changed = True
    while changed:
        changed = False
        # the history: drop events, then bind under one name
        for j in range(len(cur["history"])):
            cand = json.loads(json.dumps(cur))
            cand["history"].pop(j)
            if fails(cand):
                cur, changed = cand, True
                break
        if changed:
            continue
        if any(ev["name"] != "a" for ev in cur["history"]):
            cand = json.loads(json.dumps(cur))
            for ev in cand["history"]:
                ev["name"] = "a"
            if fails(cand):
                cur, changed = cand, True
                continue
        for j in reversed(range(len(cur["classes"]))):
            cand = drop_class(cur, j)
            if cand is not None and fails(cand):
                cur, changed = cand, True
                break
        if changed:
            continue
        for i, c in enumerate(cur["classes"]):
            for j in range(len(c["body"])):
                cand = json.loads(json.dumps(cur))
                cand["classes"][i]["body"].pop(j)
                if fails(cand):
                    cur, changed = cand, True
                    break
            if changed:
                break
        if changed:
            continue
        for i, c in enumerate(cur["classes"]):      # plain defs where the failure does not need more
            for j, e in enumerate(c["body"]):
                if e["m"] == "state" and e.get("wrap") and e["fname"] != "<lambda>":
                    cand = json.loads(json.dumps(cur))
                    del cand["classes"][i]["body"][j]["wrap"]
                    if fails(cand):
                        cur, changed = cand, True
                        break
            if changed:
                break
        if changed:
            continue
        for i, c in enumerate(cur["classes"]):
            for j, e in enumerate(c["body"]):
                if e["m"] == "state" and (e.get("doc") is not None or len(e["params"]) > 1):
                    cand = json.loads(json.dumps(cur))
                    ce = cand["classes"][i]["body"][j]
                    if ce.get("doc") is not None:
                        ce["doc"] = None
                    else:
                        ce["params"] = ce["params"][:-1]
                    if fails(cand):
                        cur, changed = cand, True
                        break
            if changed:
                break
    return cur


def drop_class(spec, j):
    """The case without class j (later classes renumbered); None if another class needs it."""
    if len(spec["classes"]) < 2:
        return None
    for c in spec["classes"]:
        if j in c["bases"] or any(e["m"] == "ref" and e["src"][0] == "class" and e["src"][1] == j for e in c["body"]):
            return None
    cand = json.loads(json.dumps(spec))
    cand["classes"].pop(j)
    ren = lambda x: x - 1 if x > j else x
    for c in cand["classes"]:
        c["bases"] = [b if b == "SM" else ren(b) for b in c["bases"]]
        for e in c["body"]:
            if e["m"] == "ref" and e["src"][0] == "class":
                e["src"][1] = ren(e["src"][1])
    cand["history"] = [dict(ev, c=ren(ev["c"])) if "c" in ev else ev
                       for ev in cand.get("history", []) if ev.get("c") != j]
    return cand


def fresh_verdict(specs):
    """The oracle's verdict on the LAST of the cases when they are run one after the other in a NEW
    interpreter (same $VERIF_REPO): what a replay will see.  "error" if the child did not answer."""
    import subprocess
    import sys
    from .common import ROOT
    code = ("import sys, json\nsys.path.insert(0, %r)\nfrom harness import c12\nspecs = json.load(sys.stdin)\n"
            "for s in specs:\n    obs = c12.run_case(s)\nprint('##' + json.dumps(c12.oracle(specs[-1], obs)))\n" % ROOT)
    try:
        p = subprocess.run([sys.executable, "-c", code], input=json.dumps(specs), capture_output=True, text=True,
                           timeout=600, cwd=ROOT)
        for line in p.stdout.splitlines():
            if line.startswith("##"):
                v = json.loads(line[2:])
                return tuple(v) if v else None
    except Exception:
        pass
    return ("error", "the fresh interpreter gave no verdict")


def confirmed_violation(spec, v, earlier):
    """Turns a failing case into something that fails ON ITS OWN in a fresh interpreter (a replay):
    the shrunk case if that still fails there; else the case as generated (shrunk with fresh
    interpreters, bounded); else -- the failure needs definitions that ran earlier in this process --
    the case together with a short list `before` of earlier cases (found by halving `earlier`)."""
    fp = v[0]
    small = shrink(spec, fp)
    v2 = oracle(small, run_case(small)) or v
    fv = fresh_verdict([small])
    if fv is not None and fv[0] == fp:
        return violation(small, v2)
    fv = fresh_verdict([spec])
    if fv is not None and fv[0] == fp:
        small = shrink(spec, fp, verdict=lambda s_: fresh_verdict([s_]), budget=40)
        return violation(small, fresh_verdict([small]) or fv)
    before = [json.loads(json.dumps(s_)) for s_ in earlier]
    ok = lambda l: (lambda r_: r_ is not None and r_[0] == fp)(fresh_verdict(l + [spec]))
    if not before or not ok(before):
        return violation(small, v2)          # not reproducible outside this process: reported as seen here
    while len(before) > 1:
        half = len(before) // 2
        if ok(before[half:]):
            before = before[half:]
        elif ok(before[:half]):
            before = before[:half]
        else:
            break
    j = 0
    while len(before) <= 12 and j < len(before) and len(before) > 1:
        cand = before[:j] + before[j + 1:]
        if ok(cand):
            before = cand
        else:
            j += 1
    fv = fresh_verdict(before + [spec])
    out = violation(spec, fv)
    out["before"] = before
    out["what"] = "after %d earlier class definition(s) in the same interpreter (replay: 'before'): %s" % (len(before), fv[1])
    return out


def violation(spec, v):
    return {"kind": "input", "what": v[1], "fingerprint": v[0], "case": spec, "source": source_text(spec)}


def run(ctx):
    ctx.assumptions.append(
        "C12: CPython class creation (namespace dict order, __set_name__ calls in namespace order, C3 MRO given as "
        "input, name mangling), inspect.signature/inspect.getdoc, dict.update order, hasattr; the <name>_duration "
        "tunables that __set_name__ adds to a class __dict__ enter the model as given non-state keys; NetworkTables "
        "(one local instance) as a dict topic -> value: set overwrites, setDefault writes only where there is no "
        "value, every entry/publisher/subscriber of the instance sees the same value at once")
    ctx.prove()
    # ---- the source's definitions, translated again and proved equal to the model's ---------------
    from . import c12_translate
    c12_translate.obligation(ctx)
    sm, mt = impl()
    SM = sm.StateMachine
    # ---- regenerated data ---------------------------------------------
    res = reserved_list(sm)
    okres = len(res) > 20 and all(isinstance(n, str) and n.isidentifier() for n in res)
    ctx.obligation("regen:reserved names readable", okres, repr(res)[:300])
    ctx.obligation("regen:StateMachine and object define no state themselves",
                   not any(isinstance(v, sm._State) for c in SM.__mro__ for v in c.__dict__.values()))
    gen = ("From Coq Require Import List String.\nImport ListNotations.\nOpen Scope string_scope.\n"
           "Definition gen_reserved : list string := %s.\n" % coq_list([coq_string(n) for n in res]))
    rc, out = ctx.coq_file("Gen_reserved", gen)
    ctx.obligation("regen:Gen_reserved.v compiles", rc == 0, out)
    inst = """From Coq Require Import List String Bool.
From RV Require Import Defs.Model Defs.Spec Defs.Proofs Properties.C12.
From W Require Import Gen_reserved.
Import ListNotations.
Open Scope string_scope.
Definition probe (n : string) (k : deco) : decl :=
  {| d_fname := n; d_params := [{| p_name := "self"; p_kind := PosOrKw |}]; d_doc := None; d_deco := k |}.
Definition rejected_name (n : string) (k : deco) : bool :=
  match construct gen_reserved (probe n k) with Err EInvalidStateName => true | _ => false end.
Lemma gen_reserved_all_rejected :
  forallb (fun n => forallb (rejected_name n) [DState false false; DTimed false false; DDefault]) gen_reserved = true.
Proof. vm_compute. reflexivity. Qed.
Definition impl_name_reject_iff := C12_name_reject_iff gen_reserved.
Definition impl_define_ok_iff := C12_define_ok_iff gen_reserved.
Lemma impl_reserved_rejected : forall n d, In n gen_reserved -> d_fname d = n ->
  construct gen_reserved d = Err EInvalidStateName.
Proof. intros n d H E. apply (proj2 (C12_name_reject_iff gen_reserved d)). rewrite E. exact H. Qed.
Print Assumptions impl_reserved_rejected.
(* the two attributes instantiation sets on the class are reserved names of today's StateMachine, so
   histories over the classes of any accepted module are judged class by class *)
Lemma gen_reserved_has_published : In "state_names" gen_reserved /\\ In "state_descriptions" gen_reserved.
Proof. split; apply mem_In; vm_compute; reflexivity. Qed.
Definition impl_history cs ds nt h k mro cname :=
  C12_history_module gen_reserved cs ds nt h k mro cname
    (proj1 gen_reserved_has_published) (proj2 gen_reserved_has_published).
Check (impl_history : forall cs ds nt h k mro cname, define_all gen_reserved cs = Ok ds ->
  nth_error h k = Some (EInst mro cname) ->
  nth_error (run_history {| w_dicts := ds; w_nt := nt |} h) k = Some (class_outcome ds mro)).
Print Assumptions impl_history.
"""
    rc, out = ctx.coq_file("Gen_C12", inst)
    ctx.obligation("regen:name theorem instantiated with today's reserved list (%d names x 3 decorators evaluated)" % len(res),
                   rc == 0 and out.count("Closed under the global context") == 2, out)
    # ---- correspondence -----------------------------------------------
    cases = gen_cases(sm, ctx)
    records = []
    harness_bad = []
    nontrivial = set()
    for idx, (tags, spec) in enumerate(cases):
        assert printable(spec)
        obs = run_case(spec)
        records.append((tags, spec, obs))
        if not obs["harness_ok"]:
            harness_bad.append(idx)
        for t in tags:
            ctx.count("gen=%s" % t)
        ctx.count("classes=%d" % len(spec["classes"]))
        for c_ in spec["classes"]:
            for e_ in c_["body"]:
                if e_["m"] == "state":
                    ctx.count("state-function=%s" % (e_.get("wrap") or "plain def"))
                if e_["m"] == "state" and e_["deco"][0] == "state":
                    ctx.count("state-spelling=%s%s" % (spelling(e_["deco"]) or "factory",
                                                       ":first" if e_["deco"][1] else ""))
        if obs["def_err"] is not None:
            ctx.count("outcome=definition:%s" % CODE_NAMES.get(obs["def_err"][1]))
        seen_cls, bound_by = {}, {}
        for n_, (ev_, rec_) in enumerate(zip(history_of(spec), obs["events"])):
            if "pub" in ev_:
                ctx.count("event=plain publish on %s" % LEAVES[ev_["pub"]])
                bound_by[ev_["name"]] = "publisher"
                continue
            k_ = seen_cls.get(ev_["c"], 0)
            seen_cls[ev_["c"]] = k_ + 1
            outcome_ = CODE_NAMES.get(rec_["err"]) if "err" in rec_ else "accepted"
            ctx.count("outcome=instance:%s" % outcome_)
            ctx.count("attempt=%s:%s" % ("first" if k_ == 0 else "repeated", "accepted" if "err" not in rec_ else "rejected"))
            if any(j in seen_cls for j in rec_["mro"][1:]) and k_ == 0:
                ctx.count("attempt=first attempt after a base class was attempted")
            if any(ev_["c"] in r2["mro"][1:] for r2 in obs["events"][:n_] if "mro" in r2) and k_ == 0:
                ctx.count("attempt=first attempt after a subclass was attempted")
            if "err" not in rec_:
                prev_ = bound_by.get(ev_["name"])
                ctx.count("bind=%s" % ("fresh topic" if prev_ is None else
                                       "over a plain publisher's value" if prev_ == "publisher" else
                                       "over the lists of the same class" if prev_ == ev_["c"] else
                                       "over the lists of another class"))
                bound_by[ev_["name"]] = ev_["c"]
        key = json.dumps(spec, sort_keys=True)
        overrides = len(spec["classes"]) >= 2 and len({e["attr"] for c in spec["classes"] for e in c["body"]}) < \
            sum(len(c["body"]) for c in spec["classes"])
        if obs["def_err"] is not None or overrides or any("err" in i_ for i_ in obs["events"]):
            nontrivial.add(key)
    ctx.obligation("harness:class dict order equals the order of the generated source", not harness_bad,
                   "cases %r" % harness_bad[:5])
    bad_total = []
    per = 1500
    items = []
    for k, sh in enumerate(shards(records, per)):
        txt = HEADER + "Definition cases : list hcase := [\n%s\n].\nEval vm_compute in (bad_from gen_reserved 0 cases).\n" % (
            ";\n".join(coq_case(spec, obs) for _, spec, obs in sh))
        items.append(("cases_%d" % k, txt))
    res_c = ctx.coq_files_parallel(items)
    for k, (name, _) in enumerate(items):
        rc, out = res_c[name]
        lists = parse_eval_lists(out) if rc == 0 else []
        ok = rc == 0 and len(lists) == 1 and lists[0] == []
        ctx.obligation("corr:%s (model define_all/run_history/adapter == implementation)" % name, ok, out[-1500:])
        if rc == 0 and lists and lists[0]:
            bad_total += [k * per + i for i in lists[0]]
    samples = []
    for tags, spec, obs in (records[len(records) // 2:len(records) // 2 + 1] + records[-2:]):
        samples.append({"source": source_text(spec), "observed": {k: v for k, v in obs.items() if k != "harness_ok"}})
    ctx.coverage.update({
        "evaluations": len(records),
        "traces_validated_against_impl": len(records),
        "distinct_nontrivial": len(nontrivial),
        "rule": "class definitions generated as source text: every reserved name x 3 decorators, near-miss names, "
                "all 16 legal ordered parameter subsets, kind x position<=3 x 6 names, all signatures of length <=2 "
                "(<=3 in thorough) over 5 kinds x 6 names, random hierarchies of 1-4 classes (single/linear/diamond/"
                "mix-in/plain mix-in) with overriding state-by-state, by plain method/value and back; the decorator state in "
                "every spelling (factory, bare, state(f, first=..), state(f=f, ..), partial(state, ..)); second bindings "
                "of existing state objects (same body, derived class, other machine, plain class; own/new name); state functions "
                "that are not plain defs (shared functools.wraps decorators, one factory with __signature__, partial objects, "
                "lambdas) with legal and illegal signatures in either order within a class and across classes; every case with "
                "an instantiation history (each StateMachine class attempted 2-3 times, base-first / subclass-first / shuffled / "
                "back to back; bound under 1-3 component names so that lists of other classes and values of plain publishers "
                "are already on the topics; lists read through the instance and through an independent subscriber); non-trivial = "
                "distinct definitions that are rejected somewhere or override an inherited attribute",
        "exhaustive": False,
        "exhaustive_parts": ["reserved names (%d) x 3 decorators" % len(res), "16 legal ordered parameter subsets",
                             "signatures of length <= %d over 5 kinds x 6 names" % (3 if ctx.tier == "thorough" else 2)],
        "samples": samples,
    })

    def search():
        bad_set = set(bad_total)
        order = bad_total + [i for i in range(len(records)) if i not in bad_set]
        for i in order:
            tags, spec, obs = records[i]
            v = oracle(spec, obs)
            if v is not None:
                return [confirmed_violation(spec, v, [rec_[1] for rec_ in records[:i]])]
        r = ctx.rng
        ran = [rec_[1] for rec_ in records]
        for _ in range(30000):
            tags, spec = gen_hier(r)
            if r.random() < 0.3:
                add_rebinding(r, spec)
            add_wraps(r, spec, tags)
            attach_history(r, spec)
            v = oracle(spec, run_case(spec))
            if v is not None:
                return [confirmed_violation(spec, v, ran)]
            ran.append(spec)
        return []

    return ctx.finish(search=search)


def replay(ctx, obj):
    if obj.get("kind") != "input":
        print("replay names broken obligations only: %s" % [b["name"] for b in obj.get("broken_obligations", [])])
        return run(ctx)
    spec = obj["case"]
    for k, b in enumerate(obj.get("before", [])):
        print("# ---- defined before, in the same interpreter (%d of %d)" % (k + 1, len(obj["before"])))
        print(source_text(b))
        run_case(b)
    print(source_text(spec))
    obs = run_case(spec)
    print("observed: %s" % json.dumps({k: v for k, v in obs.items() if k != "harness_ok"}))
    for ev, rec in zip(history_of(spec), obs["events"]):
        if "pub" in ev:
            print("  publish %s %r -> subscriber sees %r" % (topic_path(ev["name"], ev["pub"]), ev["value"], rec["seen"]))
        elif "err" in rec:
            print("  C%d() raised %s" % (ev["c"], rec.get("exc")))
        else:
            print("  C%d() bound as %r: state_names %r / subscriber %r; state_descriptions %r / subscriber %r"
                  % (ev["c"], nt_name(ev["name"]), rec["names"], rec["sub_names"], rec["descs"], rec["sub_descs"]))
    v = oracle(spec, obs)
    if v is not None:
        print("property fails: %s" % v[1])
        print("VIOLATION property=C12 replay=(replayed)")
        return 1
    print("property holds on this definition")
    return 0
