"""C15: StatefulAutonomous.on_iteration / next_state / done of robotpy_ext/autonomous/stateful_autonomous.py, translated
from the current source statement by statement (fail-closed: anything outside the forms below raises Shape) and proved
equal to Stateful.Model.on_iteration / next_state / done for EVERY machine state, tm and user code.

Generated: `gen_i<k> : Z -> ubody -> frame -> frame` per top-level statement of on_iteration (a top-level
`if ...: ...; return` takes the rest of the function as its else-branch) and their composition `gen_on_iteration`;
`gen_next_state : mach -> option name -> frame`.  An exception is the frame flag g_err, a `return` the flag g_ret.

Reading of the source (trusted):
  self.__state                     -> cur (the attribute exists iff `enabled`); try: state = self.__state
                                      except AttributeError: raise ValueError  -> ValueError unless enabled
  self.__done                      -> fin
  state (a _State wrapper or None) -> an optional state name; state.ran/.expires/.start_time are the fields of `sdat m s`
  getattr(self.__class__, name)    -> AttributeError unless `declared sh name`, else the wrapper of that name
  self.next_state(state.next_state)-> `lookup sh s`: Timed _ (Some n) -> next_state(n), Timed _ None -> next_state(None),
                                      anything else AttributeError (an untimed wrapper has no next_state attribute);
                                      next_state itself is the model's (tied by gen_next_state below); event EvEnter
  getattr(self, state.name + '_duration', 0xFFFFFFFF) -> `dur m s` or sh_inf sh when absent
  state.run(self, tm, tm - state.start_time, initial_call) -> event EvCall and the model's run_actions on `b s tm state_tm init`
  logger.info(...)                 -> nothing"""
import ast
import os

from .pytr import Shape, HEADER, txt
from .exec_translate import paren, some_name, canonical_locals, _Rename

PATH = "robotpy_ext/autonomous/stateful_autonomous.py"
MFIELDS = ["enabled", "cur", "fin", "sdat", "dur"]


class Env:
    def __init__(self):
        self.m = {}
        self.loc = {}
        self.ev = ""
        self.err = "false"
        self.ret = "false"
        self.refine = {}
        self.over = None
        self.n = [0]

    def copy(self):
        e = Env()
        e.m, e.loc, e.ev, e.err, e.ret, e.refine, e.n, e.over = dict(self.m), dict(self.loc), self.ev, self.err, self.ret, dict(self.refine), self.n, self.over
        return e

    def fresh(self, p):
        self.n[0] += 1
        return "%s%d" % (p, self.n[0])

    def flush(self):
        if self.over is not None:
            nm, rec = self.over
            self.m["sdat"] = "(upd %s %s %s)" % (paren(self.m["sdat"]), nm, paren(rec))
            self.over = None

    def mterm(self):
        self.flush()
        vs = set()
        for k in MFIELDS:
            t = self.m[k].strip()
            vs.add(t[len(k) + 2:-1].strip() if t.startswith("(%s " % k) and t.endswith(")") else None)
        if len(vs) == 1 and None not in vs:
            return paren(vs.pop())
        return "(Build_mach %s)" % " ".join(paren(self.m[k]) for k in MFIELDS)

    def rec_of(self, s):
        if self.over is not None and self.over[0] == s:
            return self.over[1]
        self.flush()
        return "(%s %s)" % (paren(self.m["sdat"]), s)

    def set_rec(self, s, fld, v):
        self.over = (s, "%s <| %s := %s |>" % (self.rec_of(s), fld, v))

    def ref(self, t):
        return self.refine.get(t, t)

    def bind_m(self, v):
        self.flush()
        old = set(self.m.values())
        for k in MFIELDS:
            self.m[k] = "(%s %s)" % (k, v)
        self.refine = {k: w for k, w in self.refine.items() if k not in old}


class Tr:
    def __init__(self, repo):
        tree = ast.parse(open(os.path.join(repo, PATH)).read())
        cls = [n for n in tree.body if isinstance(n, ast.ClassDef) and n.name == "StatefulAutonomous"]
        if len(cls) != 1:
            raise Shape("class StatefulAutonomous not found")
        self.methods = {n.name: n for n in cls[0].body if isinstance(n, ast.FunctionDef)}
        for m, k in (("on_iteration", 2), ("next_state", 2), ("done", 1)):
            f = self.methods.get(m)
            if f is None or f.decorator_list or len(f.args.args) != k:
                raise Shape("StatefulAutonomous.%s not found / unexpected signature" % m)
        # parameters and locals are recognised by position / by what is first assigned to them, not by their spelling
        for m, canon in (("on_iteration", "tm"), ("next_state", "name")):
            f = self.methods[m]
            p = f.args.args[1].arg
            if p != canon and canon not in {n.id for n in ast.walk(f) if isinstance(n, ast.Name)}:
                f.args.args[1].arg = canon
                self.methods[m] = ast.fix_missing_locations(_Rename({p: canon}).visit(f))
        self.methods["on_iteration"] = canonical_locals(self.methods["on_iteration"], [
            ("state", lambda rhs, f: rhs == "self.__state"),
            ("new_state_start", lambda rhs, f: rhs == "tm"),
            ("initial_call", lambda rhs, f: "state" in f and rhs == "not %s.ran" % f["state"]),
        ])

    def state_name(self, env, what):
        s = some_name(env.ref(env.loc.get("state", "None")))
        if s is None:
            raise Shape("`%s` is read where `state` may be None" % what)
        return s

    def expr(self, n, env):
        t = txt(n)
        if isinstance(n, ast.Constant):
            if n.value is True:
                return "true"
            if n.value is False:
                return "false"
            if n.value is None:
                return "None"
            raise Shape("constant %r" % (n.value,))
        if isinstance(n, ast.Name):
            if n.id in env.loc:
                return env.ref(env.loc[n.id])
            raise Shape("unknown name %s" % n.id)
        if t == "self.__done":
            return env.m["fin"]
        if t == "self.__state":
            return env.ref(env.m["cur"])
        if isinstance(n, ast.Attribute) and txt(n.value) == "state" and n.attr in ("ran", "expires", "start_time"):
            s = self.state_name(env, t)
            return "(%s %s)" % ({"ran": "ran", "expires": "st_exp", "start_time": "st_start"}[n.attr], paren(env.rec_of(s)))
        if t == "getattr(self, state.name + '_duration', 4294967295)":
            s = self.state_name(env, t)
            return "(match %s %s with Some v => v | None => sh_inf sh end)" % (paren(env.m["dur"]), s)
        if isinstance(n, ast.BinOp) and isinstance(n.op, (ast.Add, ast.Sub)):
            return "(%s %s %s)" % (self.expr(n.left, env), "+" if isinstance(n.op, ast.Add) else "-", self.expr(n.right, env))
        if isinstance(n, ast.UnaryOp) and isinstance(n.op, ast.Not):
            return "(negb %s)" % paren(self.expr(n.operand, env))
        if isinstance(n, ast.Compare) and len(n.ops) == 1 and isinstance(n.ops[0], (ast.Lt, ast.LtE, ast.Gt, ast.GtE)):
            op = {ast.Lt: "<?", ast.LtE: "<=?", ast.Gt: ">?", ast.GtE: ">=?"}[type(n.ops[0])]
            return "(%s %s %s)" % (self.expr(n.left, env), op, self.expr(n.comparators[0], env))
        raise Shape("expression not recognised: %s" % t[:80])

    def cond(self, n, env, kt, kf):
        if isinstance(n, ast.BoolOp):
            is_and = isinstance(n.op, ast.And)

            def chain(i, e):
                if i == len(n.values):
                    return kt(e) if is_and else kf(e)
                if is_and:
                    return self.cond(n.values[i], e, lambda e2: chain(i + 1, e2), kf)
                return self.cond(n.values[i], e, kt, lambda e2: chain(i + 1, e2))
            return chain(0, env)
        if isinstance(n, ast.UnaryOp) and isinstance(n.op, ast.Not) and isinstance(n.operand, (ast.BoolOp, ast.Compare)):
            return self.cond(n.operand, env, kf, kt)
        if isinstance(n, ast.Compare) and len(n.ops) == 1 and isinstance(n.ops[0], (ast.Is, ast.IsNot)) \
                and isinstance(n.comparators[0], ast.Constant) and n.comparators[0].value is None:
            pos, neg = (kf, kt) if isinstance(n.ops[0], ast.Is) else (kt, kf)
            if isinstance(n.left, ast.Name) and n.left.id in env.loc:
                raw = env.loc[n.left.id]
            elif txt(n.left) == "self.__state":
                raw = env.m["cur"]
            else:
                raise Shape("None-test of %s" % txt(n.left))
            cur = env.ref(raw)
            if cur.strip() == "None":
                return neg(env)
            if some_name(cur) is not None:
                return pos(env)
            x = env.fresh("s")
            e1, e2 = env.copy(), env.copy()
            e1.refine[raw] = "(Some %s)" % x
            e2.refine[raw] = "None"
            return "(match %s with Some %s => %s | None => %s end)" % (cur, x, pos(e1), neg(e2))
        return "(if %s then %s else %s)" % (self.expr(n, env), kt(env.copy()), kf(env.copy()))

    def emit(self, env):
        return "(Build_frame %s %s %s (%s) %s %s)" % (env.mterm(), paren(env.ref(env.loc["state"])), paren(env.loc["new_state_start"]),
                                                      env.ev, env.err, env.ret)

    def bad(self, env):
        e = env.copy()
        e.err = "true"
        return self.emit(e)

    def run(self, stmts, env, k):
        if not stmts:
            return k(env)
        s, rest = stmts[0], stmts[1:]
        t = txt(s)

        def go(e):
            return self.run(rest, e, k)
        if isinstance(s, ast.Expr) and isinstance(s.value, ast.Constant) and isinstance(s.value.value, str):
            return go(env)
        if isinstance(s, ast.Expr) and t.startswith("logger.info("):
            return go(env)
        if isinstance(s, ast.Return) and s.value is None:
            e = env.copy()
            e.ret = "true"
            return self.emit(e)
        if isinstance(s, ast.Try) and len(s.body) == 1 and txt(s.body[0]) == "state = self.__state" and len(s.handlers) == 1 \
                and txt(s.handlers[0].type) == "AttributeError" and len(s.handlers[0].body) == 1 \
                and isinstance(s.handlers[0].body[0], ast.Raise) and not s.orelse and not s.finalbody:
            e = env.copy()
            e.loc["state"] = env.m["cur"]
            return "(if %s then %s else %s)" % (env.m["enabled"], go(e), self.bad(env))
        if t == "self.next_state(state.next_state)":
            sn = self.state_name(env, t)
            M = env.mterm()
            d1, n1, v1, v2 = env.fresh("d"), env.fresh("n"), env.fresh("m"), env.fresh("m")
            ea, eb = env.copy(), env.copy()
            ea.bind_m(v1)
            ea.ev = "%s ++ [EvEnter (Some %s)]" % (env.ev, n1)
            eb.bind_m(v2)
            eb.ev = "%s ++ [EvEnter None]" % env.ev
            bad = self.bad(env)
            return ("(match lookup sh %s with Some (Timed %s (Some %s)) => (match next_state sh %s %s with Some %s => %s | None => %s end) "
                    "| Some (Timed %s None) => (let %s := done %s in %s) | _ => %s end)" % (
                        sn, d1, n1, M, n1, v1, go(ea), bad, d1, v2, M, go(eb), bad))
        if t == "state.run(self, tm, tm - state.start_time, initial_call)":
            sn = self.state_name(env, t)
            stm = "(tm - %s)" % self.expr(ast.parse("state.start_time").body[0].value, env)
            init = env.loc["initial_call"]
            M = env.mterm()
            v = env.fresh("m")
            e = env.copy()
            e.bind_m(v)
            e.ev = "%s ++ EvCall %s tm %s %s :: snd ra" % (env.ev, sn, stm, paren(init))
            return "(let ra := run_actions sh (b %s tm %s %s) %s in let %s := fst ra in %s)" % (sn, stm, paren(init), M, v, go(e))
        if isinstance(s, ast.Assign) and len(s.targets) == 1:
            tg = s.targets[0]
            e = env.copy()
            if t == "state = self.__state":
                e.loc["state"] = env.m["cur"]
                return go(e)
            if t == "initial_call = not state.ran":
                e.loc["initial_call"] = self.expr(s.value, env)
                return go(e)
            if isinstance(tg, ast.Name) and tg.id == "new_state_start":
                e.loc["new_state_start"] = self.expr(s.value, env)
                return go(e)
            if t == "self.__done = True":
                e.m["fin"] = "true"
                return go(e)
            if t == "self.__state = None":
                e.m["cur"] = "None"
                e.m["enabled"] = "true"
                return go(e)
            if t == "self.__state = getattr(self.__class__, name)":
                nm = some_name(env.ref(env.loc["name"]))
                if nm is None:
                    raise Shape("getattr(self.__class__, name) where name may be None")
                e.m["cur"] = "(Some %s)" % nm
                e.m["enabled"] = "true"
                return "(if declared sh %s then %s else %s)" % (nm, go(e), self.bad(env))
            if t == "self.__state.ran = False":
                nm = some_name(env.ref(env.m["cur"]))
                if nm is None:
                    raise Shape("self.__state.ran = False where self.__state may be None")
                e.set_rec(nm, "ran", "false")
                return go(e)
            if isinstance(tg, ast.Attribute) and txt(tg.value) == "state" and tg.attr in ("ran", "start_time", "expires"):
                sn = self.state_name(env, t)
                e.set_rec(sn, {"ran": "ran", "start_time": "st_start", "expires": "st_exp"}[tg.attr], self.expr(s.value, env))
                return go(e)
            raise Shape("assignment %s" % t[:80])
        if isinstance(s, ast.If):
            return self.cond(s.test, env, lambda e: self.run(list(s.body) + rest, e, k), lambda e: self.run(list(s.orelse) + rest, e, k))
        raise Shape("statement not recognised (line %d): %s" % (getattr(s, "lineno", 0), t[:80]))

    # ------------------------------------------------------------ output
    def fresh_env(self):
        env = Env()
        for kf in MFIELDS:
            env.m[kf] = "(%s (g_m f))" % kf
        env.loc["state"] = "(g_state f)"
        env.loc["new_state_start"] = "(g_nss f)"
        env.loc["tm"] = "tm"
        env.ev, env.err, env.ret = "g_ev f", "(g_err f)", "(g_ret f)"
        return env

    def top_level(self, fn):
        body = [s for s in fn.body if not (isinstance(s, ast.Expr) and isinstance(s.value, ast.Constant))]
        out = []
        for i, s in enumerate(body):
            if isinstance(s, ast.If) and not s.orelse and s.body and isinstance(s.body[-1], ast.Return) and body[i + 1:]:
                out.append(ast.If(test=s.test, body=s.body, orelse=body[i + 1:]))
                return out
            out.append(s)
        return out

    def definitions(self, prefix, args=""):
        call = "sh " if args else ""
        defs, names = [], []
        for i, s in enumerate(self.top_level(self.methods["on_iteration"])):
            term = self.run([s], self.fresh_env(), self.emit)
            nm = "%s_i%d" % (prefix, i)
            names.append(nm)
            defs.append("(* %s *)\nDefinition %s %s(tm : Z) (b : ubody) (f : frame) : frame :=\n  %s." % (
                txt(s).splitlines()[0][:100].replace("(*", "( *").replace("*)", "* )"), nm, args, term))
        defs.append("Definition %s_on_iteration %s(m : mach) (tm : Z) (b : ubody) : frame :=\n  %s\n    (Build_frame m None 0 [] false false)%s." % (
            prefix, args, "\n  ".join("seqf (%s_i%d %stm b) (" % (prefix, i, call) for i in reversed(range(len(names)))), ")" * len(names)))
        # next_state(name): name is an optional state name
        env = Env()
        for kf in MFIELDS:
            env.m[kf] = "(%s m)" % kf
        env.loc.update({"state": "None", "new_state_start": "0", "name": "o"})
        env.ev, env.err, env.ret = "[]", "false", "false"
        term = self.run(list(self.methods["next_state"].body), env, self.emit)
        defs.append("Definition %s_next_state %s(m : mach) (o : option name) : frame :=\n  %s." % (prefix, args, term))
        d = [s for s in self.methods["done"].body if not (isinstance(s, ast.Expr) and isinstance(s.value, ast.Constant))]
        if len(d) != 1 or txt(d[0]) != "self.next_state(None)":
            raise Shape("done() is not `self.next_state(None)`")
        return defs, names


ARGS = "(sh : shape) "


def reference(repo):
    return "\n".join(Tr(repo).definitions("ref", ARGS)[0])


def coq(repo):
    defs, names = Tr(repo).definitions("gen")
    L = [HEADER, "From RecordUpdate Require Import RecordSet.", "Import RecordSetNotations.",
         "From RV Require Import Stateful.Model Stateful.SrcIter Stateful.SrcIterProofs.", "", "Section Gen.", "Variable sh : shape.", ""] + defs
    tac = ("first [ reflexivity | intros; destruct f as [m ? ? ? ? ?]; destruct m; unfold %s, %s; cbn; "
           "repeat (match goal with |- context [match ?x with _ => _ end] => destruct x eqn:? end; cbn in *; try congruence); reflexivity ]")
    for i in range(len(names)):
        L.append("Lemma regen_i%d : forall tm b f, gen_i%d tm b f = ref_i%d sh tm b f.\nProof. %s. Qed." % (
            i, i, i, tac % ("gen_i%d" % i, "ref_i%d" % i)))
    L.append("Lemma regen_on_iteration : forall m tm b, gen_on_iteration m tm b = ref_on_iteration sh m tm b.\nProof.\n  intros m tm b; "
             "unfold gen_on_iteration, ref_on_iteration.\n%s  reflexivity.\nQed." % "".join(
                 "  rewrite (seqf_ext (gen_i%d tm b) (ref_i%d sh tm b) _ (regen_i%d tm b)).\n" % (i, i, i) for i in range(len(names))))
    L.append("Lemma regen_next_state : forall m o, gen_next_state m o = ref_next_state sh m o.\nProof. first [ reflexivity | intros m o; "
             "destruct m, o; unfold gen_next_state, ref_next_state; cbn; repeat (match goal with |- context [match ?x with _ => _ end] "
             "=> destruct x eqn:? end; cbn in *; try congruence); reflexivity ]. Qed.")
    L.append(r"""
(* so on_iteration / next_state / done, as the source has them now, ARE the model's functions *)
Theorem src_on_iteration_is_model : forall m tm b,
  let f := gen_on_iteration m tm b in
  (g_err f = false -> (g_m f, g_ev f) = on_iteration sh m tm b) /\
  (g_err f = true -> exists e, on_iteration sh m tm b = (m, [EvErr e])).
Proof. intros m tm b; rewrite regen_on_iteration; exact (ref_on_iteration_spec sh m tm b). Qed.
Theorem src_next_state_is_model : forall m o,
  let f := gen_next_state m o in
  match o with
  | Some s => (g_err f = false -> next_state sh m s = Some (g_m f)) /\ (g_err f = true -> next_state sh m s = None)
  | None => g_err f = false /\ g_m f = done m
  end.
Proof. intros m o; rewrite regen_next_state; exact (ref_next_state_spec sh m o). Qed.
End Gen.
Print Assumptions src_on_iteration_is_model.
Print Assumptions src_next_state_is_model.
""")
    return "\n".join(L)


def obligation(ctx):
    from .common import REPO
    name = "regen:StatefulAutonomous.on_iteration/next_state/done have the statement forms the translator recognises"
    try:
        text = coq(REPO)
    except Shape as e:
        ctx.obligation(name, False, str(e))
        return False
    except (SyntaxError, OSError, KeyError, IndexError, AttributeError) as e:
        ctx.obligation(name, False, repr(e))
        return False
    ctx.obligation(name, True, "")
    rc, out = ctx.coq_file("Gen_iter", text)
    ok = rc == 0 and out.count("Closed under the global context") == 2
    ctx.obligation("regen:Gen_iter (StatefulAutonomous.on_iteration/next_state/done translated from the source statement by statement == "
                   "Stateful.Model.on_iteration/next_state/done for every machine state, tm and user code; Stateful/SrcIterProofs.v)",
                   ok, out[-1500:])
    return ok


if __name__ == "__main__":
    import sys
    a = sys.argv[1:]
    if a and a[0] == "--ref":
        print(reference(a[1] if len(a) > 1 else "/repo"))
    else:
        print(coq(a[0] if a else "/repo"))
