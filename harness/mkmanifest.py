#!/usr/bin/env python3
"""Regenerates /verif/MANIFEST.json from the table below (keeps it valid at all times)."""
import json
import os

ROOT = os.path.dirname(os.path.dirname(os.path.abspath(__file__)))

LEVEL_NOTE_COMMON = (
    "Trusted: Coq 8.16.1 kernel + vm_compute; the hand-written Gallina model (tied to /repo by the "
    "correspondence check that runs model and implementation on the same inputs, by data regenerated from "
    "the imported modules and - where named - by programs/methods regenerated from the source by the fail-closed "
    "translators harness/robot_translate.py, harness/pytr.py, harness/exec_translate.py, harness/c15_translate.py, harness/c08_translate.py, harness/c09_translate.py, harness/c12_translate.py and harness/c14_translate.py, whose reading of each Python statement form is trusted); "
    "the Python harness; CPython/wpilib-sim/ntcore. No axioms of our own; "
    "Print Assumptions of every property theorem is checked on every run. ")

CLAIMED = {
    "C20": dict(
        text="Theorems (Coq, all byte strings of all lengths): table-driven crc == bit-serial CRC-7/0x91, 7-bit result, "
             "XOR-linearity, detection of every single-bit, every double-bit (<127 apart) and every burst<=7 error; the "
             "256-entry table is regenerated from the imported module and table_ok is re-proved on every run; the byte "
             "loop is regenerated from the source (proved equal to the model's fold for every table and message) and tied by "
             "correspondence (exhaustive over 1-byte, and in thorough 2-byte, messages; reused mutable buffers).",
        note="Closed under the global context. Modelled: Python list indexing / int xor / iteration over bytes.",
        technique="Coq proof (induction over the message + finite vm_compute sweeps lifted by forallb_forall) + regenerated table and loop + correspondence",
        design="6.12"),
    "C19": dict(
        text="Theorems (Coq, every sample/record/call history by induction): Toggle value = parity of released->pressed edges among "
             "the sampled levels, on = not off, changes exactly at rising edges, debounced changes >= period apart and only on a pressed "
             "sample; ButtonDebouncer exact characterisation (True iff pressed and now - last True > period), spacing, liveness; "
             "PeriodicFilter bypass always passes, lower records > period apart; SimpleWatchdog isExpired iff now - last feed > timeout, "
             "warnings > 1 s apart, addEpoch invisible. Tied to the four classes by 18 methods/constructors regenerated from the source on every run "
             "(each proved equal to its model function for all states and inputs) and by trace correspondence under injected dyadic clocks.",
        note="Closed under the global context. Clock arithmetic idealised over Z ticks (dyadic clocks in the correspondence); spacing theorems assume non-decreasing clock readings.",
        technique="Coq proof (induction over histories, invariants) + model functions regenerated from the source (pytr) + trace correspondence evaluated in Coq",
        design="6.11"),
    "C15": dict(
        text="Theorems (Coq, all mode shapes, per-iteration user code, histories over any number of periods): first state runs "
             "after on_enable; a timed state holds until tm exceeds start+duration (dashboard value read at on_enable) and hands over "
             "with the successor's clock at the predecessor's expiry; every entered state runs once with initial_call exactly on its "
             "first call after each entry; actions take effect next iteration; nothing runs after the end; state_tm >= 0; and period "
             "independence: trace(h ++ OnEnable d :: p) = trace h ++ trace(OnEnable d :: p). Legacy (pre-fix D6) variant refuted. "
             "Tied to StatefulAutonomous by on_iteration/next_state/done translated from the source on every run and proved equal to the model functions for every machine state, tm and user code, and by trace correspondence (generated subclasses, dyadic tm, real SmartDashboard).",
        note="Closed under the global context. Float rounding not modelled (dyadic tm values in the correspondence).",
        technique="Coq proof (induction over histories, trace equality/refinement) + on_iteration/next_state/done regenerated from the source statement by statement and proved equal to the model (c15_translate, Stateful/SrcIterProofs.v) + trace correspondence evaluated in Coq",
        design="6.3"),
    "C08": dict(
        text="Theorems (Coq, every robot definition and subclass relation): after startup every public unset annotated attribute of every "
             "component/mode is exactly the object picked from robot attributes + ALL components by name, else '<cname>_<name>', and is an "
             "instance of the annotated type; injection precedes the first setup(); order independence under permutation of declarations; "
             "preset/private attributes untouched; constructor parameters only from robot attributes and earlier components (declared "
             "defaults are no substitute); startup fails iff a request is unsatisfied or mistyped; falsy values inject. Tied to the source "
             "twice: get_injection_requests()/find_injections() of inject.py are regenerated from the current source on every run and "
             "proved equal to the model's functions (c08_translate, Inject/SrcInjectProofs.v); _create_components and the rest by "
             "correspondence on generated robots (object identity).",
        note="Closed under the global context. isinstance, get_type_hints order, hasattr/dir are inputs of the model (trusted CPython).",
        technique="Coq proof (induction over component lists, Permutation) + inject.py regenerated from the source and proved equal to the model (c08_translate) + correspondence on generated robots evaluated in Coq",
        design="6.5"),
    "C12": dict(
        text="Theorems (Coq, every list of class bodies in MRO order, every signature, every reserved-name list): build succeeds iff exactly "
             "one effective first state and at most one default (errors sound); the reversed-MRO dict.update fold is attribute lookup; a "
             "signature is rejected iff first parameter is not self, or *args/**kw/keyword-only, or a name outside the four; name collision "
             "iff in the reserved list (regenerated from hasattr/annotations of StateMachine every run); alias/owner checks; direct call is "
             "IllegalCall; state_names exact, duplicate-free, bases-first order, descriptions aligned. Tied to the source twice: _State.__init__ "
             "(signature loop), the three decorators, _get_class_members and _build_states are regenerated from the current source on every run "
             "and proved equal to the model's functions (c12_translate, Defs/SrcDefsProofs.v); and by correspondence on generated "
             "class definitions (exhaustive over reserved names x decorators and short signatures).",
        note="Closed under the global context. C3 MRO, inspect.signature, name mangling are inputs of the model (trusted CPython).",
        technique="Coq proof (induction over class-body lists) + definition-time code regenerated from the source and proved equal to the model (c12_translate) + regenerated reserved-name list + correspondence evaluated in Coq",
        design="6.2"),
    "C01": dict(
        text="Theorems (Coq, every machine shape, every user code, every history/clock pattern, any nesting of next_state_now): the request "
             "flag equals 'engage() since the previous iteration'; without it no regular state function is called; the machine then stops "
             "(through done()) as soon as no must_finish state runs and only the default state runs until engage(); with it exactly "
             "1 + #next_state_now state functions run; the invariant used is preserved by every operation. Tied to StateMachine.execute by "
             "full-trace correspondence on generated machines/scripts/histories.",
        note='Closed under the global context. Theorems that mention `ok` hold inside the usage contract K (DESIGN 6.1: in-state actions only while executing, no explicit transition into the default state, non-decreasing clock, no exception); clock arithmetic idealised over Z ticks (dyadic clocks in the correspondence); single-threaded use.', technique="Coq proof (invariants by induction on fuel and on histories) + execute() and the nine methods around it regenerated from the source and proved equal to the model (exec_translate / sm_translate, SM/SrcExecProofs.v) + trace correspondence evaluated in Coq", design="6.1"),
    "C02": dict(
        text="Theorems (Coq): a timed state that has run holds until tm exceeds entry+duration; at the first iteration past it control goes to "
             "next_state whose clock starts at the predecessor's expiry and whose expiry uses its duration tunable as of that moment; the last "
             "state's expiry calls done() and restarts a still-requested machine in a clock frame moved to the expiry instant; an entered state "
             "always runs once; duration writes do not move an entered state's expiry; state_tm >= 0 on every call of every history; NO DRIFT: "
             "for every non-decreasing list of iteration instants a continuously engaged quiet machine enters every state exactly at the previous "
             "state's expiry (chain theorem, across cycle restarts). Tied by full-trace correspondence incl. duration writes over NetworkTables.",
        note='Closed under the global context. Theorems that mention `ok` hold inside the usage contract K (DESIGN 6.1: in-state actions only while executing, no explicit transition into the default state, non-decreasing clock, no exception); clock arithmetic idealised over Z ticks (dyadic clocks in the correspondence); single-threaded use.', technique="Coq proof (symbolic execution lemmas per phase + invariant + chain induction) + execute() and the nine methods around it regenerated from the source and proved equal to the model (exec_translate / sm_translate, SM/SrcExecProofs.v) + trace correspondence evaluated in Coq", design="6.1"),
    "C03": dict(
        text="Theorems (Coq): the call adapter passes the i-th declared parameter its own value for every declared list; over every history and "
             "every user code (no contract needed) initial_call is True exactly on the first call since the state was entered (reference automaton "
             "over observable next_state()/fallback events); tm is 0 at the first iteration after engage() on a stopped machine, tm = clock - origin "
             "and state_tm = tm - entry, both non-negative on every call. Tied by correspondence with all 16 parameter orders x 3 decorators.",
        note='Closed under the global context. Theorems that mention `ok` hold inside the usage contract K (DESIGN 6.1: in-state actions only while executing, no explicit transition into the default state, non-decreasing clock, no exception); clock arithmetic idealised over Z ticks (dyadic clocks in the correspondence); single-threaded use.', technique="Coq proof (trace refinement to a reference automaton, invariants) + execute() and the nine methods around it regenerated from the source and proved equal to the model (exec_translate / sm_translate, SM/SrcExecProofs.v) + trace correspondence evaluated in Coq", design="6.1"),
    "C04": dict(
        text="Theorems (Coq): whatever operation takes is_executing from True to False, done() was invoked (no contract needed); done()/on_disable() "
             "reset is_executing/current_state at once; in every reachable stopped state current_state is '' and only the default state runs until "
             "engage(); the next engage()+iteration calls the first/requested state with initial_call True, tm 0; while executing, current_state names "
             "the machine's non-default state. Tied by full-trace correspondence (done()/next_state() observed through overrides).",
        note='Closed under the global context. Theorems that mention `ok` hold inside the usage contract K (DESIGN 6.1: in-state actions only while executing, no explicit transition into the default state, non-decreasing clock, no exception); clock arithmetic idealised over Z ticks (dyadic clocks in the correspondence); single-threaded use.', technique="Coq proof (invariants, drop-claim composition) + execute() and the nine methods around it regenerated from the source and proved equal to the model (exec_translate / sm_translate, SM/SrcExecProofs.v) + trace correspondence evaluated in Coq", design="6.1"),
    "C13": dict(
        text="Theorems (Coq): on_iteration with the latch on is exactly engage(); execute(); latch := is_executing; once done() is invoked in an "
             "iteration (any nesting depth, or last timed state expired) the iteration ends stopped with the latch off - the machine never cycles; "
             "then every on_iteration is a no-op (not even the default state runs) until on_enable(), which restarts at the first state with tm 0; "
             "on_disable() stops immediately. Tied by full-trace correspondence on generated AutonomousStateMachine subclasses over 1..n periods.",
        note='Closed under the global context. Theorems that mention `ok` hold inside the usage contract K (DESIGN 6.1: in-state actions only while executing, no explicit transition into the default state, non-decreasing clock, no exception); clock arithmetic idealised over Z ticks (dyadic clocks in the correspondence); single-threaded use.', technique="Coq proof (induction on fuel/histories) + execute() and the nine methods around it regenerated from the source and proved equal to the model (exec_translate / sm_translate, SM/SrcExecProofs.v) + trace correspondence evaluated in Coq", design="6.1"),
    "C16": dict(
        text="Theorems (Coq, every period, start time and list of body durations over Z microseconds): expiry stays on the t0+k*P grid; the k-th wait "
             "returns at max(call, t0+k*P), never early, exactly on the grid when called on time; overruns are caught up (lateness recurrence and bound); "
             "after free()/with-exit every wait returns at its call time and the handle is released exactly once; round-to-nearest period conversion over Q. "
             "__exit__ frees whatever leaves the with-block and never swallows. Tied to NotifierDelay by its methods regenerated from the source on every run (proved equal to create/wait/free), by "
             "correspondence under the simulated HAL (exact microseconds; with-blocks left by end/break/return/exceptions). The float expression round(P*1e6) is proved exact in IEEE binary64 "
             "(the kernel's primitive floats) for every whole number of microseconds in [1000, 2001000) (C16_period_in_microseconds_is_exact: a vm_compute sweep lifted to the quantified statement); the runtime sweep of the real constructor over the same range ties those floats to CPython's.",
        note="Closed under the global context, except C16_period_in_microseconds_is_exact, whose Print Assumptions lists the kernel's primitive int/float operations it computes with (PrimInt63 / PrimFloat; not axioms of ours). The HAL notifier is modelled as 'a wait issued at t with alarm a returns at max(t,a)' (validated by the correspondence only); uint64 as unbounded Z; OS scheduling latency not modelled.",
        technique="Coq proof (induction over schedules; finite PrimFloat sweep by vm_compute lifted to a theorem) + methods regenerated from the source (pytr) + correspondence under simulated HAL", design="6.8"),
    "C18": dict(
        text="Theorems (Coq over Q, unit chains of any depth with mutually inverse linear links): convert to the same unit is identity, there-and-back, "
             "composition a->b->c = a->c, linearity, exact application order; for the unit table regenerated from the module on every run: 100 cm/m, 0.3048 m/ft, "
             "12 in/ft and all 16 pairwise factors; sonar scale factors; pressure formula 250*V/Vcc-25 above the floor, totality, zero-supply branch, calibration. "
             "Tied by symbolic correspondence (application logs of real Unit objects) and numeric correspondence (1e-12 relative) through the simulated devices.",
        note="Closed under the global context. Float rounding is not modelled: the Q model is compared with doubles at relative tolerance 1e-12 on sampled inputs; NaN/inf/overflow outside the claim.",
        technique="Coq proof over Q (induction over chains) + regenerated unit table + symbolic and numeric correspondence evaluated in Coq", design="6.10"),
    "C14": dict(
        text="Theorems (Coq, every package layout and lifecycle op sequence): constructor calls are exactly the MODE_NAME & not DISABLED classes of importable "
             "modules, once each, keyed by MODE_NAME; chooser offers them plus 'None' with the DEFAULT preselected; without FMS discover raises iff duplicate / "
             "several defaults / import failure / constructor failure; with FMS healthy modes are still offered (under no key clash); dashboard string wins over "
             "the chooser; lifecycle: per period on_enable . on_iteration(t)* . on_disable of the selected mode only, t non-decreasing, nothing after on_disable. "
             "Code-narrower-than-wording cases are stated as refutation theorems and documented. Tied to the source twice: the lifecycle methods "
             "(_on_autonomous_enable, _on_iteration, disable, start, periodic, endCompetition) are regenerated from the current source on every run and proved "
             "equal to the model's step function (c14_translate, Selector/SrcLifecycleProofs.v); discovery and run() by correspondence on generated packages "
             "on disk + run() periods under the stepped simulated clock.",
        note="Closed under the global context. Glob order, inspect.getmembers order, SendableChooser/NetworkTables/Timer are inputs or simple models validated by correspondence; mode callbacks assumed non-raising here (fault space is C07).",
        technique="Coq proof (induction over layouts and op sequences) + lifecycle methods regenerated from the source and proved equal to the model (c14_translate) + correspondence on generated packages evaluated in Coq", design="6.7"),
    "C05": dict(
        text="Theorems (Coq, every robot layout, every history of driver-station words incl. endCompetition): the robot makes exactly the calls of "
             "the specification in order (with the FMS attached: whatever raises); per pass the mode's own code, then execute() of every component in "
             "declaration order, then the feedbacks, then robotPeriodic; execute exactly once per enabled pass and never in disabled/test; one pass per "
             "wake-up; /robot/mode written on entry; the time axis: the mode loop composed with the NotifierDelay model - alarms never leave the grid anchored at the "
             "loop's creation, and while pass + wake-up lateness fit in the period the i-th wake-up is exactly its lateness after grid point i. The enter/iteration/"
             "leave/startup programs, the leave tests, the dispatch and onException are REGENERATED from magicrobot.py + selector.py on every run and proved equal to the "
             "model's; tied further to the real startCompetition() (one process per generated robot, stepped simulated clock, FMS attached/detached mid-run, timed "
             "robots whose callbacks take FPGA time and whose wake-ups come late, periods 5-25 ms) by full callback-log correspondence incl. /robot/mode and every "
             "wait() call/return/alarm time of every mode loop.",
        note='Closed under the global context. One Tick = one wake-up of the mode loop with that driver-station word; the word only changes while the loop waits; user callbacks take no simulated time; HAL notifier, DriverStationSim and ntcore are exercised by the correspondence, not modelled in depth; threads and real-time latency not modelled.' + " Callbacks may take simulated time in the timed C05 robots. The link between a Tick of the loop model and a wait() return of the time-axis model is the driver's one-tick-one-wake-up discipline (checked by the correspondence), not a Coq theorem.",
        technique="Coq proof (induction over guarded programs and tick histories) + callback-log correspondence evaluated in Coq", design="6.4"),
    "C06": dict(
        text="Theorems (Coq, all layouts and tick histories): setup() once per component and before every other callback; on_enable() of every component "
             "before the init hook, the autonomous mode's on_enable and any execute(); on_disable() on leaving autonomous/teleop (before anything of the next "
             "mode) and again on entering disabled; execute() only inside an on_enable()/on_disable() bracket (replay automaton over the whole call sequence, "
             "direct auto/teleop/test switches and endCompetition in any mode included). Tied by the same callback-log correspondence as C05.",
        note='Closed under the global context. One Tick = one wake-up of the mode loop with that driver-station word; the word only changes while the loop waits; user callbacks take no simulated time; HAL notifier, DriverStationSim and ntcore are exercised by the correspondence, not modelled in depth; threads and real-time latency not modelled.', technique="Coq proof (invariant over tick histories, list lemmas) + callback-log correspondence evaluated in Coq", design="6.4"),
    "C07": dict(
        text="Theorems (Coq, every set of raising invocations): with the FMS attached every callback of the specified sequence still runs, in order, and no "
             "exception escapes (the calls equal those of the fault-free robot); every callback of every mode program sits directly under a guard; without the "
             "FMS the first raising invocation is the last call and the exception propagates out of the robot program; with the FMS attached and detached at will "
             "while the robot runs, the run ends exactly at the first raising invocation that happens while the FMS is not attached. Programs regenerated from the source "
             "(see C05); tied further by correspondence with scripted faults at arbitrary invocation indices (single, multiple, every time), FMS on, off and changing mid-run.",
        note='Closed under the global context. One Tick = one wake-up of the mode loop with that driver-station word; the word only changes while the loop waits; user callbacks take no simulated time; HAL notifier, DriverStationSim and ntcore are exercised by the correspondence, not modelled in depth; threads and real-time latency not modelled.' + " setup() is outside the property's list and unguarded in the code: theorems assume no setup() raises.",
        technique="Coq proof (exception semantics of guarded programs by induction) + fault-injection correspondence evaluated in Coq", design="6.4"),
    "C10": dict(
        text="Theorems (Coq): will_reset_to attributes start at their defaults; after every teleop/autonomous pass, whatever was assigned and whichever callbacks "
             "raised (FMS attached), they hold their defaults again; the reset is the last step after execute()s, feedbacks and robotPeriodic; execute() sees the "
             "store as assigned so far in the pass; unmarked attributes are never touched. Tied by correspondence with scripted assignments and snapshots taken in "
             "every execute() (inherited markers included).",
        note='Closed under the global context. One Tick = one wake-up of the mode loop with that driver-station word; the word only changes while the loop waits; user callbacks take no simulated time; HAL notifier, DriverStationSim and ntcore are exercised by the correspondence, not modelled in depth; threads and real-time latency not modelled.', technique="Coq proof (guarded-program semantics, frame lemmas) + snapshot correspondence evaluated in Coq", design="6.4"),
    "C11": dict(
        text="Theorems (Coq): every feedback getter is called exactly once per pass in all four modes; after the feedback phase each entry holds the value "
             "returned in this pass, a raising getter (FMS) leaves its entry exactly as it was and affects no other; key = explicit key else the name with one "
             "leading 'get_' removed (characterised both ways), entry /components/<name>/<key> or /robot/<key>, topic type from the return annotation table. "
             "Tied by correspondence: NetworkTables entries read back inside robotPeriodic of every pass; key/type table by the C09 feedback cases.",
        note='Closed under the global context. One Tick = one wake-up of the mode loop with that driver-station word; the word only changes while the loop waits; user callbacks take no simulated time; HAL notifier, DriverStationSim and ntcore are exercised by the correspondence, not modelled in depth; threads and real-time latency not modelled.', technique="Coq proof (induction over the feedback list) + NT read-back correspondence evaluated in Coq", design="6.4 / 6.6"),
    "C09": dict(
        text="Theorems (Coq, all names, histories of python-side and NT-side writes/reads on any number of instances): documented key for the three owner kinds "
             "with the subtable before the attribute; a read returns the latest write to its key; instances bound under different owners never interfere (disjoint "
             "key sets, by a string lemma); at setup the default overwrites iff writeDefault or the topic had no value; topic type table total on the supported "
             "grid (37 842 points by vm_compute) and None exactly on the unsupported cases; a read made from any place of a control-loop pass returns the "
             "latest write. Tied to the source twice: tunable.__get__/__set__, the body of setup_tunables and the topic type tables are regenerated from "
             "the current source on every run and proved equal to the model's functions (c09_translate, Tunable/SrcTunableProofs.v); and by "
             "correspondence against real ntcore with an independent publisher/subscriber, incl. histories run inside a real MagicRobot's passes.",
        note="Closed under the global context. ntcore is modelled as a key-value map (type conflicts, network, unpublishing outside the model); empty struct arrays read back as the default inside pyntcore (recorded in notes_c09.md).",
        technique="Coq proof (induction over histories, finite vm_compute grid) + descriptor code regenerated from the source and proved equal to the model (c09_translate) + correspondence against ntcore evaluated in Coq", design="6.6"),
    "C17": dict(
        text="Theorems (Coq over R, every admissible parameter set, instantiated for the three sensors): reading in [lo,hi] for every real voltage, antitone, "
             "equal to the power law inside the range above the floor, no exception, +-inf handled; simulation helper is the inverse (reading(volts d) = clamp d) "
             "and remembers d. Tied by per-sample interval lemmas: all 4096 ADC codes (thorough) per sensor through AnalogInputSim and sampled distances through the "
             "Sim helpers, doubles as exact rationals, tolerance 1e-12.",
        note="Axioms: the standard library's real-number axioms only (ClassicalDedekindReals.sig_forall_dec, sig_not_dec, FunctionalExtensionality.functional_extensionality_dep, Classical_Prop.classic). The generated per-sample lemmas use the interval tactic (Uint63/PrimInt63 primitives). libm pow and float rounding are idealised and validated on the samples only.",
        technique="Coq proof over R (monotonicity of Rpower) + per-sample interval lemmas as correspondence", design="6.9"),
}

PENDING_REASON = "check not built yet in this revision (model and proof planned in DESIGN.md section 6); not claimed until its check exists"


def main():
    props = [json.loads(l) for l in open(os.path.join(ROOT, "properties.jsonl"))]
    checks = []
    na = []
    for p in props:
        pid = p["id"]
        c = CLAIMED.get(pid)
        if c is None:
            na.append({"property_id": pid, "reason": PENDING_REASON})
            continue
        checks.append({
            "property_id": pid,
            "quick_cmd": "./check %s --tier quick" % pid,
            "thorough_cmd": "./check %s --tier thorough" % pid,
            "evidence_file": "/verif/evidence/%s.json" % pid,
            "replay_cmd_template": "./check %s --replay {path}" % pid,
            "engine": "coq",
            "level_claimed": {"category": "proof", "text": c["text"], "design_ref": "DESIGN.md section %s" % c["design"]},
            "level_note": LEVEL_NOTE_COMMON + c["note"],
            "technique": c["technique"],
        })
    m = {
        "version": 1,
        "setup_cmd": "./setup.sh",
        "hooks": {
            "guard": "ROBOTPY_WPILIB_UTILITIES_VERIF",
            "enable": "no source hooks are needed: clocks are injected through module globals; ./check sets the guard variable anyway",
            "baseline_off_cmd": "cd /repo && /venv/bin/python -m pytest -ra -q -p no:cacheprovider --timeout=900 --continue-on-collection-errors",
            "source_commits": [],
            "add_only": True,
        },
        "engines": [{"name": "coq", "path": "/verif/coq", "serves_properties": sorted(CLAIMED),
                     "kind_free_text": "Coq 8.16.1 development (models, proofs, Properties/Cxx.v) + Python correspondence harness evaluated inside Coq"}],
        "checks": checks,
        "not_applicable": na,
        "notes": "See DESIGN.md. known_findings.json lists repaired (fixed:) and open findings.",
    }
    with open(os.path.join(ROOT, "MANIFEST.json"), "w") as f:
        json.dump(m, f, indent=1)
    print("claimed:", sorted(CLAIMED), "pending:", [x["property_id"] for x in na])


if __name__ == "__main__":
    main()
