#!/usr/bin/env python3
"""Regenerates /verif/MANIFEST.json from the table below (keeps it valid at all times)."""
import json
import os

ROOT = os.path.dirname(os.path.dirname(os.path.abspath(__file__)))

LEVEL_NOTE_COMMON = (
    "Trusted: Coq 8.16.1 kernel + vm_compute; the hand-written Gallina model (tied to /repo only by the "
    "correspondence check that runs model and implementation on the same inputs, and by data regenerated from "
    "the imported modules); the Python harness; CPython/wpilib-sim/ntcore. No axioms of our own; "
    "Print Assumptions of every property theorem is checked on every run. ")

CLAIMED = {
    "C20": dict(
        text="Theorems (Coq, all byte strings of all lengths): table-driven crc == bit-serial CRC-7/0x91, 7-bit result, "
             "XOR-linearity, detection of every single-bit, every double-bit (<127 apart) and every burst<=7 error; the "
             "256-entry table is regenerated from the imported module and table_ok is re-proved on every run; the byte "
             "loop is tied by correspondence (exhaustive over 1-byte, and in thorough 2-byte, messages).",
        note="Closed under the global context. Modelled: Python list indexing / int xor / iteration over bytes.",
        technique="Coq proof (induction over the message + finite vm_compute sweeps lifted by forallb_forall) + regenerated table + correspondence",
        design="6.12"),
    "C19": dict(
        text="Theorems (Coq, every sample/record/call history by induction): Toggle value = parity of released->pressed edges among "
             "the sampled levels, on = not off, changes exactly at rising edges, debounced changes >= period apart and only on a pressed "
             "sample; ButtonDebouncer exact characterisation (True iff pressed and now - last True > period), spacing, liveness; "
             "PeriodicFilter bypass always passes, lower records > period apart; SimpleWatchdog isExpired iff now - last feed > timeout, "
             "warnings > 1 s apart, addEpoch invisible. Tied to the four classes by trace correspondence under injected dyadic clocks.",
        note="Closed under the global context. Clock arithmetic idealised over Z ticks (dyadic clocks in the correspondence); spacing theorems assume non-decreasing clock readings.",
        technique="Coq proof (induction over histories, invariants) + trace correspondence evaluated in Coq",
        design="6.11"),
    "C15": dict(
        text="Theorems (Coq, all mode shapes, per-iteration user code, histories over any number of periods): first state runs "
             "after on_enable; a timed state holds until tm exceeds start+duration (dashboard value read at on_enable) and hands over "
             "with the successor's clock at the predecessor's expiry; every entered state runs once with initial_call exactly on its "
             "first call after each entry; actions take effect next iteration; nothing runs after the end; state_tm >= 0; and period "
             "independence: trace(h ++ OnEnable d :: p) = trace h ++ trace(OnEnable d :: p). Legacy (pre-fix D6) variant refuted. "
             "Tied to StatefulAutonomous by trace correspondence (generated subclasses, dyadic tm, real SmartDashboard).",
        note="Closed under the global context. Float rounding not modelled (dyadic tm values in the correspondence).",
        technique="Coq proof (induction over histories, trace equality/refinement) + trace correspondence evaluated in Coq",
        design="6.3"),
    "C08": dict(
        text="Theorems (Coq, every robot definition and subclass relation): after startup every public unset annotated attribute of every "
             "component/mode is exactly the object picked from robot attributes + ALL components by name, else '<cname>_<name>', and is an "
             "instance of the annotated type; injection precedes the first setup(); order independence under permutation of declarations; "
             "preset/private attributes untouched; constructor parameters only from robot attributes and earlier components; startup fails "
             "iff a request is unsatisfied or mistyped; falsy values inject. Tied to inject.py/_create_components by correspondence on "
             "generated robots (object identity).",
        note="Closed under the global context. isinstance, get_type_hints order, hasattr/dir are inputs of the model (trusted CPython).",
        technique="Coq proof (induction over component lists, Permutation) + correspondence on generated robots evaluated in Coq",
        design="6.5"),
    "C12": dict(
        text="Theorems (Coq, every list of class bodies in MRO order, every signature, every reserved-name list): build succeeds iff exactly "
             "one effective first state and at most one default (errors sound); the reversed-MRO dict.update fold is attribute lookup; a "
             "signature is rejected iff first parameter is not self, or *args/**kw/keyword-only, or a name outside the four; name collision "
             "iff in the reserved list (regenerated from hasattr/annotations of StateMachine every run); alias/owner checks; direct call is "
             "IllegalCall; state_names exact, duplicate-free, bases-first order, descriptions aligned. Tied by correspondence on generated "
             "class definitions (exhaustive over reserved names x decorators and short signatures).",
        note="Closed under the global context. C3 MRO, inspect.signature, name mangling are inputs of the model (trusted CPython).",
        technique="Coq proof (induction over class-body lists) + regenerated reserved-name list + correspondence evaluated in Coq",
        design="6.2"),
}

PENDING_REASON = "check not built yet in this revision (model and proof planned in DESIGN.md section 6); not claimed until its check exists"


def main():
    props = [json.loads(l) for l in open(os.path.join(ROOT, "properties.jsonl"))]
    checks = []
    na = []
    for p in props:
        pid = p["id"]
        c = CLAIMED.get(pid)
        if c is None:
            na.append({"property_id": pid, "reason": PENDING_REASON})
            continue
        checks.append({
            "property_id": pid,
            "quick_cmd": "./check %s --tier quick" % pid,
            "thorough_cmd": "./check %s --tier thorough" % pid,
            "evidence_file": "/verif/evidence/%s.json" % pid,
            "replay_cmd_template": "./check %s --replay {path}" % pid,
            "engine": "coq",
            "level_claimed": {"category": "proof", "text": c["text"], "design_ref": "DESIGN.md section %s" % c["design"]},
            "level_note": LEVEL_NOTE_COMMON + c["note"],
            "technique": c["technique"],
        })
    m = {
        "version": 1,
        "setup_cmd": "./setup.sh",
        "hooks": {
            "guard": "ROBOTPY_WPILIB_UTILITIES_VERIF",
            "enable": "no source hooks are needed: clocks are injected through module globals; ./check sets the guard variable anyway",
            "baseline_off_cmd": "cd /repo && /venv/bin/python -m pytest -ra -q -p no:cacheprovider --timeout=900 --continue-on-collection-errors",
            "source_commits": [],
            "add_only": True,
        },
        "engines": [{"name": "coq", "path": "/verif/coq", "serves_properties": sorted(CLAIMED),
                     "kind_free_text": "Coq 8.16.1 development (models, proofs, Properties/Cxx.v) + Python correspondence harness evaluated inside Coq"}],
        "checks": checks,
        "not_applicable": na,
        "notes": "See DESIGN.md. known_findings.json lists repaired (fixed:) and open findings.",
    }
    with open(os.path.join(ROOT, "MANIFEST.json"), "w") as f:
        json.dump(m, f, indent=1)
    print("claimed:", sorted(CLAIMED), "pending:", [x["property_id"] for x in na])


if __name__ == "__main__":
    main()
