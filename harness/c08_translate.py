"""C08: magicbot/inject.py -- get_injection_requests() and find_injections() translated from the current source (fail-closed)
into Gallina Fixpoints over the list of dict items, and proved equal to Inject.Model.get_requests / find_injections for every
list of hints / requests, every injectables dict, every component.

Shape accepted (anything else raises Shape):   ACC = {} ; for K, V in DICT.items(): BODY ; return ACC
where BODY consists of `if` statements, assignments to locals, `raise`, `continue`, at most one `ACC[K] = V'` as the last
effective statement of an iteration, message-building assignments and logger calls (ignored).

Reading of the source (trusted):
  the dict being iterated            -> the list of its items in order (dicts keep insertion order)
  ACC[K] = v ... (next iterations)   -> (K, v) :: <result of the remaining items>; an exception in a later iteration wins
  raise MagicInjectError(..) / TypeError(..) -> Err EInject / Err EType
  n.startswith('_')                  -> is_private n
  component is None                  -> the model's optional `hasattr` oracle is None;  hasattr(component, n) -> has n
  getattr(t, '__origin__', None)     -> origin_attr t  (HAlias (Some c) -> the class c; HAlias None -> a non-class origin)
  isinstance(t, type)                -> t is `HType c` (and then stands for the class c)
  injectables.get(x)                 -> get inj x ; f'{cname}_{n}' -> prefixed cname n ; `is None` on the result -> no object
  isinstance(injectable, inject_type)-> subclass (ocls o) T"""
import ast
import os

from .pytr import Shape, txt
from .exec_translate import paren, some_name

PATH = "magicbot/inject.py"
ERR = {"MagicInjectError": "EInject", "TypeError": "EType"}


class Env:
    def __init__(self):
        self.loc = {}        # python local -> term
        self.kind = {}       # python local -> 'opt' | 'hint' | 'cls' | 'obj' | 'name' | 'hasopt'
        self.refine = {}
        self.bind = None     # (key term, value term) stored into the accumulator in this iteration
        self.n = [0]

    def copy(self):
        e = Env()
        e.loc, e.kind, e.refine, e.bind, e.n = dict(self.loc), dict(self.kind), dict(self.refine), self.bind, self.n
        return e

    def fresh(self, p):
        self.n[0] += 1
        return "%s%d" % (p, self.n[0])

    def ref(self, t):
        return self.refine.get(t, t)


class Tr:
    def __init__(self, repo, fname, spec):
        tree = ast.parse(open(os.path.join(repo, PATH)).read())
        fs = [n for n in tree.body if isinstance(n, ast.FunctionDef) and n.name == fname]
        if len(fs) != 1:
            raise Shape("function %s not found in %s" % (fname, PATH))
        self.fn, self.spec, self.fname = fs[0], spec, fname
        params = [a.arg for a in self.fn.args.args]
        if params != spec["params"]:
            raise Shape("%s%r: parameters are %r" % (fname, spec["params"], params))

    # ------------------------------------------------------------------ expressions
    def expr(self, n, env):
        t = txt(n)
        if isinstance(n, ast.Name) and n.id in env.loc:
            return env.ref(env.loc[n.id])
        if isinstance(n, ast.Constant) and n.value is None:
            return "None"
        m = self.spec.get("get_call")
        if m and isinstance(n, ast.Call) and txt(n.func) == m + ".get" and len(n.args) == 1 and not n.keywords:
            a = n.args[0]
            if isinstance(a, ast.Name) and env.kind.get(a.id) == "name":
                return "(get inj %s)" % env.loc[a.id]
            if txt(a) == "f'{cname}_{n}'":
                return "(get inj (prefixed cname %s))" % env.loc["n"]
            raise Shape("key of %s.get: %s" % (m, txt(a)))
        if t == "getattr(inject_type, '__origin__', None)":
            return "(origin_attr %s)" % paren(env.ref(env.loc["inject_type"]))
        raise Shape("expression not recognised: %s" % t[:80])

    # ------------------------------------------------------------------ conditions
    def cond(self, n, env, kt, kf):
        t = txt(n)
        if isinstance(n, ast.BoolOp):
            is_and = isinstance(n.op, ast.And)

            def chain(i, e):
                if i == len(n.values):
                    return kt(e) if is_and else kf(e)
                if is_and:
                    return self.cond(n.values[i], e, lambda e2: chain(i + 1, e2), kf)
                return self.cond(n.values[i], e, kt, lambda e2: chain(i + 1, e2))
            return chain(0, env)
        if isinstance(n, ast.UnaryOp) and isinstance(n.op, ast.Not):
            return self.cond(n.operand, env, kf, kt)
        if t == "n.startswith('_')":
            return "(if is_private %s then %s else %s)" % (env.loc["n"], kt(env.copy()), kf(env.copy()))
        if isinstance(n, ast.Compare) and len(n.ops) == 1 and isinstance(n.ops[0], (ast.Is, ast.IsNot)) \
                and isinstance(n.comparators[0], ast.Constant) and n.comparators[0].value is None and isinstance(n.left, ast.Name) \
                and n.left.id in env.loc:
            pos, neg = (kf, kt) if isinstance(n.ops[0], ast.Is) else (kt, kf)
            raw = env.loc[n.left.id]
            cur = env.ref(raw)
            if cur.strip() == "None":
                return neg(env)
            if some_name(cur) is not None:
                return pos(env)
            x = env.fresh({"hasopt": "has", "opt": "o"}.get(env.kind.get(n.left.id), "x"))
            e1, e2 = env.copy(), env.copy()
            e1.refine[raw] = "(Some %s)" % x
            e2.refine[raw] = "None"
            return "(match %s with Some %s => %s | None => %s end)" % (cur, x, pos(e1), neg(e2))
        if t == "hasattr(component, n)":
            has = some_name(env.ref(env.loc["component"]))
            if has is None:
                raise Shape("hasattr(component, n) where component may be None")
            return "(if %s %s then %s else %s)" % (has, env.loc["n"], kt(env.copy()), kf(env.copy()))
        if t == "isinstance(inject_type, type)":
            raw = env.loc["inject_type"]
            cur = env.ref(raw)
            c = env.fresh("c")
            e1 = env.copy()
            e1.refine[raw] = "(HType %s)" % c
            e1.loc["__cls"] = c
            return "(match %s with HType %s => %s | _ => %s end)" % (cur, c, kt(e1), kf(env.copy()))
        if t == "isinstance(injectable, inject_type)":
            o = some_name(env.ref(env.loc["injectable"]))
            if o is None:
                raise Shape("isinstance(injectable, ..) where injectable may be None")
            return "(if subclass (ocls %s) %s then %s else %s)" % (o, env.loc["inject_type"], kt(env.copy()), kf(env.copy()))
        raise Shape("condition not recognised: %s" % t[:80])

    # ------------------------------------------------------------------ loop body
    def run(self, stmts, env, k_next):
        """k_next(env): the iteration is over (fell off the end / continue)"""
        if not stmts:
            return k_next(env)
        s, rest = stmts[0], stmts[1:]
        t = txt(s)

        def go(e):
            return self.run(rest, e, k_next)
        if isinstance(s, ast.Expr) and (t.startswith("logger.") or (isinstance(s.value, ast.Constant) and isinstance(s.value.value, str))):
            return go(env)
        if isinstance(s, (ast.Assign, ast.AugAssign)) and txt(s.targets[0] if isinstance(s, ast.Assign) else s.target) == "message":
            return go(env)
        if isinstance(s, ast.Continue):
            return k_next(env)
        if isinstance(s, ast.Raise) and isinstance(s.exc, ast.Call) and txt(s.exc.func) in ERR:
            return "(Err %s)" % ERR[txt(s.exc.func)]
        if isinstance(s, ast.Assign) and len(s.targets) == 1:
            tg = s.targets[0]
            acc = self.spec["acc"]
            if isinstance(tg, ast.Subscript) and txt(tg.value) == acc and txt(tg.slice) == "n":
                if env.bind is not None or any(not self.ignorable(x) for x in rest):
                    raise Shape("%s[n] = .. must be the last effective statement of the iteration" % acc)
                e = env.copy()
                v = s.value
                if self.spec["value_kind"] == "cls":
                    if txt(v) != "inject_type" or "__cls" not in env.loc:
                        raise Shape("%s[n] = %s: not a class known to be a type" % (acc, txt(v)))
                    e.bind = (env.loc["n"], env.loc["__cls"])
                else:
                    o = some_name(env.ref(env.loc.get(txt(v), "None")))
                    if o is None:
                        raise Shape("%s[n] = %s: may be None" % (acc, txt(v)))
                    e.bind = (env.loc["n"], o)
                return go(e)
            if isinstance(tg, ast.Name) and tg.id in ("injectable", "origin", "inject_type"):
                e = env.copy()
                if tg.id == "inject_type":
                    if txt(s.value) != "origin":
                        raise Shape("assignment %s" % t)
                    e.loc["inject_type"] = env.ref(env.loc["origin"])
                    h = some_name(e.loc["inject_type"])
                    if h is None:
                        raise Shape("inject_type = origin where origin may be None")
                    e.loc["inject_type"] = h
                else:
                    e.loc[tg.id] = self.expr(s.value, env)
                    e.kind[tg.id] = "opt"
                return go(e)
            raise Shape("assignment %s" % t[:80])
        if isinstance(s, ast.If):
            return self.cond(s.test, env, lambda e: self.run(list(s.body) + rest, e, k_next), lambda e: self.run(list(s.orelse) + rest, e, k_next))
        raise Shape("statement not recognised (line %d): %s" % (getattr(s, "lineno", 0), t[:80]))

    def ignorable(self, s):
        t = txt(s)
        return isinstance(s, ast.Expr) and t.startswith("logger.")

    # ------------------------------------------------------------------ output
    def definition(self, name):
        body = [s for s in self.fn.body if not (isinstance(s, ast.Expr) and isinstance(s.value, ast.Constant))]
        acc, it = self.spec["acc"], self.spec["iter"]
        if len(body) != 3 or txt(body[0]) != "%s = {}" % acc or not isinstance(body[1], ast.For) or txt(body[2]) != "return %s" % acc:
            raise Shape("%s is not `%s = {}; for ..: ..; return %s`" % (self.fname, acc, acc))
        loop = body[1]
        if txt(loop.iter) != "%s.items()" % it or txt(loop.target) != "(n, inject_type)" or loop.orelse:
            raise Shape("%s: the loop is not `for n, inject_type in %s.items():`" % (self.fname, it))
        env = Env()
        env.loc.update({"n": "n", "inject_type": "t", "cname": "cname"})
        env.kind.update({"n": "name", "inject_type": self.spec["item_kind"]})
        if "component" in self.spec["params"]:
            env.loc["component"] = "component"
            env.kind["component"] = "hasopt"

        def k_next(e):
            rec = "(%s rest%s)" % (name, self.spec["rec_args"])
            if e.bind is None:
                return rec
            return "(match %s with Ok u => Ok ((%s, %s) :: u) | Err e => Err e end)" % (rec, e.bind[0], e.bind[1])
        term = self.run(list(loop.body), env, k_next)
        return "Fixpoint %s %s : %s :=\n  match %s with\n  | [] => Ok []\n  | (n, t) :: rest => %s\n  end." % (
            name, self.spec["sig"], self.spec["rtype"], self.spec["list"], term)


SPECS = {
    "get_injection_requests": dict(
        params=["type_hints", "cname", "component"], acc="requests", iter="type_hints", item_kind="hint", value_kind="cls",
        sig="(hints : list (name * hint)) (component : option (name -> bool)) {struct hints}", list="hints", rec_args=" component",
        rtype="res (list (name * cls))", get_call=None),
    "find_injections": dict(
        params=["requests", "injectables", "cname"], acc="to_inject", iter="requests", item_kind="cls", value_kind="obj",
        sig="(requests : list (name * cls)) (inj : imap) (cname : name) {struct requests}", list="requests", rec_args=" inj cname",
        rtype="res (list (name * obj))", get_call="injectables"),
}

HEADER = ("From Coq Require Import List String Ascii Bool Arith.\nImport ListNotations.\nOpen Scope string_scope.\n"
          "From RV Require Import Inject.Model Inject.SrcInject")


def definitions(repo, prefix):
    out = []
    for fname, short in (("get_injection_requests", "get_requests"), ("find_injections", "find_injections")):
        out.append("(* inject.py: %s *)\n%s" % (fname, Tr(repo, fname, SPECS[fname]).definition("%s_%s" % (prefix, short))))
    return out


def reference(repo):
    return "\n".join(definitions(repo, "ref"))


def coq(repo):
    L = [HEADER + " Inject.SrcInjectProofs.\n", "Section Gen.", "Variable subclass : cls -> cls -> bool.", ""] + definitions(repo, "gen")
    L.append(r"""
Lemma regen_get_requests : forall hints component, gen_get_requests hints component = ref_get_requests hints component.
Proof.
  first [ reflexivity
  | induction hints as [|[n t] rest IH]; intros component; cbn [gen_get_requests ref_get_requests]; [reflexivity|]; rewrite ?IH;
    repeat (match goal with |- context [match ?x with _ => _ end] => destruct x eqn:? end; cbn in *; try congruence); reflexivity ].
Qed.
Lemma regen_find_injections : forall requests inj cname,
  gen_find_injections requests inj cname = ref_find_injections subclass requests inj cname.
Proof.
  first [ reflexivity
  | induction requests as [|[n t] rest IH]; intros inj cname; cbn [gen_find_injections ref_find_injections]; [reflexivity|]; rewrite ?IH;
    repeat (match goal with |- context [match ?x with _ => _ end] => destruct x eqn:? end; cbn in *; try congruence); reflexivity ].
Qed.

(* so inject.py's two functions, as the source has them now, ARE the model's *)
Theorem src_get_injection_requests_is_model : forall hints component,
  gen_get_requests hints component = get_requests hints component.
Proof. intros; rewrite regen_get_requests; apply ref_get_requests_spec. Qed.
Theorem src_find_injections_is_model : forall requests inj cname,
  gen_find_injections requests inj cname = find_injections subclass requests inj cname.
Proof. intros; rewrite regen_find_injections; apply ref_find_injections_spec. Qed.
End Gen.
Print Assumptions src_get_injection_requests_is_model.
Print Assumptions src_find_injections_is_model.
""")
    return "\n".join(L)


def obligation(ctx):
    from .common import REPO
    name = "regen:inject.get_injection_requests / find_injections have the loop shape the translator recognises"
    try:
        text = coq(REPO)
    except Shape as e:
        ctx.obligation(name, False, str(e))
        return False
    except (SyntaxError, OSError, KeyError, IndexError, AttributeError) as e:
        ctx.obligation(name, False, repr(e))
        return False
    ctx.obligation(name, True, "")
    rc, out = ctx.coq_file("Gen_inject", text)
    ok = rc == 0 and out.count("Closed under the global context") == 2
    ctx.obligation("regen:Gen_inject (get_injection_requests / find_injections translated from the source == Inject.Model.get_requests / "
                   "find_injections for every hint list, injectables dict and component; Inject/SrcInjectProofs.v)", ok, out[-1500:])
    return ok


if __name__ == "__main__":
    import sys
    a = sys.argv[1:]
    if a and a[0] == "--ref":
        print(reference(a[1] if len(a) > 1 else "/repo"))
    else:
        print(coq(a[0] if a else "/repo"))
