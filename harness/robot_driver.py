"""Runs ONE generated MagicRobot through its real startCompetition() under the simulated
HAL / driver station and prints the callback log as JSON.  One OS process per robot
(fresh HAL, NetworkTables, import state).  stdin: the case (JSON); stdout: last line JSON.

Every user callback is scripted: the k-th callback invocation of the run logs what it sees,
performs the assignments writes[k], and raises if k is in raises."""
import builtins
import json
import os
import sys
import tempfile
import threading


def main():
    case = json.load(sys.stdin)
    tmp = tempfile.mkdtemp(prefix="verif_robot_")
    os.chdir(tmp)
    sys.path.insert(0, tmp)
    if case["has_auto"]:
        os.mkdir(os.path.join(tmp, "autonomous"))
        open(os.path.join(tmp, "autonomous", "__init__.py"), "w").close()
        with open(os.path.join(tmp, "autonomous", "m.py"), "w") as f:
            f.write(
                "import builtins\n"
                "class Mode:\n"
                "    MODE_NAME = 'm'\n"
                "    DEFAULT = True\n"
                + ("    def __len__(self):\n        return 0\n" if case.get("auto_falsy") else "") +
                "    def on_enable(self):\n        builtins._verif_cb(['AutoEnable'])\n"
                "    def on_iteration(self, tm):\n        builtins._verif_cb(['AutoIter'])\n"
                "    def on_disable(self):\n        builtins._verif_cb(['AutoDisable'])\n")
    import logging
    logging.disable(logging.CRITICAL)
    import hal
    import hal.simulation
    import wpilib
    import wpilib.simulation as wsim
    from wpilib.simulation import DriverStationSim as DS
    import ntcore
    import magicbot
    from magicbot import feedback, will_reset_to

    class ScriptedBaseFault(BaseException):
        """a fault that does not derive from Exception (like asyncio.CancelledError)"""

    class BadStrFault(Exception):
        """an exception whose text cannot be produced (a hand-written __str__ that uses an attribute it never set)"""

        def __str__(self):
            return "scripted fault %s" % self.never_set

        __repr__ = Exception.__repr__

    def fault(k):
        msg = "scripted fault at invocation %d" % k
        if k % 3 == 0:
            return ScriptedBaseFault(msg)
        if k % 7 == 5:
            return BadStrFault(msg)
        if k % 11 == 4:
            return StopIteration(msg)       # next() on an exhausted iterator inside the callback: iterator machinery must not eat it
        if k % 4 == 1:
            return AttributeError(msg)      # what a misspelt attribute inside the callback raises
        if k % 4 == 2:
            return KeyError(msg)
        return RuntimeError(msg)

    log = []
    state = {"k": 0, "comps": [], "logging": True}
    raises = set(case["raises"])
    writes = {int(k): v for k, v in case["writes"].items()}
    fbval = {int(k): v for k, v in case["fbval"].items()}
    nattr = case["nattr"]
    ncomp = case["ncomp"]
    nt = ntcore.NetworkTableInstance.getDefault()

    def an(a):
        return "_p%d" % a if a % 3 == 2 else "a%d" % a      # every third attribute has a private name

    ALT = 500000      # a write of ALT + d stores an object that compares equal to d but is not an int (True for 1, 0.0 for 0 ...)

    def alt_obj(d):
        return True if d == 1 else (-0.0 if d == 0 else float(d))

    def snap_val(x):
        if type(x) is int or type(x).__name__ == "CallableInt":
            return x
        if isinstance(x, (bool, float)) and x == int(x):
            return ALT + int(x)
        return x

    def snapshot():
        return [[snap_val(getattr(c, an(a))) for a in range(nattr)] for c in state["comps"]]

    timed = bool(case.get("timed"))
    spend = {int(k): v for k, v in case.get("spend", {}).items()}
    jitter = case.get("jitter") or []
    period_us = int(case.get("period_us", 20000))

    def begin(entry):
        """common prologue of every scripted callback; returns k"""
        k = state["k"]
        state["k"] += 1
        if state["logging"]:
            log.append(entry)
        if state.get("early") is not None and (entry[0] in ("exec", "rp", "fb") or (entry[0] == "cb" and entry[1] in ("Periodic", "AutoIter", "Feedback"))):
            # the driver-station packet with the NEXT control word arrives while this pass is running (inside its first
            # callback): it becomes current when the loop next refreshes its data, at the top of the next pass -- not earlier
            set_word_holder[0](state.pop("early"))
        for (ci, a, v) in writes.get(k, []):
            # an ordinary attribute assignment of user code (written to the instance directly: components with an
            # interlock __setattr__ -- spec "hook" -- would refuse it otherwise)
            state["comps"][ci].__dict__[an(a)] = alt_obj(v - ALT) if (isinstance(v, int) and ALT - 1000 < v < ALT + 1000) else v
        us = spend.get(k)
        if us:
            # the callback takes simulated time: the FPGA clock moves while the loop thread runs
            wsim.stepTimingAsync((us + 0.5) / 1e6)
        return k

    set_word_holder = [None]

    def cb(site):
        k = begin(["cb"] + site)
        if k in raises:
            raise fault(k)

    builtins._verif_cb = cb

    # ---- components --------------------------------------------------------
    fb_keys = []            # NT (table, key) of feedback j, in collection order
    owners = case["fb_owners"]          # list: -1 = robot, else component index, grouped in collection order

    last_bool = {}

    def fb_kind(j):
        if j % 7 == 5:
            return "float_int"     # -> float, returning a whole number as a python int (PEP 484: an int is acceptable where a float is expected)
        if j % 7 == 3:
            return "bool"          # -> bool: a boolean topic (one bit of the scripted value gets through; read_nt checks that bit)
        if j % 6 == 0 and j > 0:
            return "opt_int"       # -> Optional[int]: the hint names no topic type, the value (an int) does
        if j % 5 == 4:
            return "list"          # -> list[int], the SAME list object every time, updated in place
        if j % 3 == 2:
            return "str"           # no return annotation: the topic type is inferred from the value (a string)
        if j % 4 == 1:
            return "int_quoted"    # -> "int": a string (postponed) annotation
        return "int"

    bufs = {}
    fb_fn = case.get("fb_fn") or list(range(len(case["fb_owners"])))     # global feedback id -> id of the getter function
    gid_of = {(o, f): g for g, (o, f) in enumerate(zip(case["fb_owners"], fb_fn))}

    def ix(self, dflt):
        """index of this component instance (several components may share one class)"""
        rob = robot_holder[0]
        for jj in range(ncomp):
            if getattr(rob, "c%02d" % jj, None) is self:
                return jj
        return dflt

    def make_fb(j):
        kind = fb_kind(j)
        owner0 = case["fb_owners"][j]

        def begin_fb(self):
            o = owner0 if owner0 < 0 else ix(self, owner0)
            return begin(["cb", "Feedback", gid_of.get((o, j), j)])
        if kind == "str":
            def getter(self):
                k = begin_fb(self)
                if k in raises:
                    raise fault(k)
                return "s%d" % fbval.get(k, 0)
        elif kind == "list":
            def getter(self) -> list[int]:
                k = begin_fb(self)
                if k in raises:
                    raise fault(k)
                buf = bufs.setdefault((id(self), j), [0, 7])       # one list per instance, always the same object
                buf[0] = fbval.get(k, 0)
                return buf
        elif kind == "opt_int":
            import typing

            def getter(self) -> typing.Optional[int]:
                k = begin_fb(self)
                if k in raises:
                    raise fault(k)
                return fbval.get(k, 0)
        elif kind == "bool":
            def getter(self) -> bool:
                k = begin_fb(self)
                if k in raises:
                    raise fault(k)
                v = fbval.get(k, 0)
                last_bool[(owner0 if owner0 < 0 else ix(self, owner0), j)] = v
                return v % 2 == 1
        elif kind == "float_int":
            def getter(self) -> float:
                k = begin_fb(self)
                if k in raises:
                    raise fault(k)
                return fbval.get(k, 0)
        elif kind == "int_quoted":
            def getter(self) -> "int":
                k = begin_fb(self)
                if k in raises:
                    raise fault(k)
                return fbval.get(k, 0)
        else:
            def getter(self) -> int:
                k = begin_fb(self)
                if k in raises:
                    raise fault(k)
                return fbval.get(k, 0)
        if not (case.get("fb_anon") and j % 2 == 1):
            getter.__name__ = "get_f%03d" % j
        # else: a factory-made getter keeps the factory's function name ("getter"): the key comes from the attribute name
        return feedback(getter)

    class Shared:
        pass

    class CallableInt(int):
        """compares (and serialises) like the int it is, and can be called"""

        def __call__(self, *a, **kw):
            return -424242
    from magicbot import tunable
    robot_holder = [None]
    comp_classes = []
    # all component classes of the robot may share a user base class that declares a will_reset_to attribute of its own
    # (a team's `Mechanism` base): what one subclass declares must never reach its siblings
    root_bases = (type("CompRoot", (), {"zz_root": will_reset_to(5)}),) if case.get("comp_root") else ()
    for i in range(ncomp):
        ns = {}
        basens = {}
        inj_ann = {}
        spec = case["comps"][i]
        if spec.get("same_as") is not None:
            comp_classes.append(comp_classes[spec["same_as"]])     # a second component of the same class
            continue
        for a in range(nattr):
            if spec.get("derives_from") is not None and a % 2 == 0:
                continue        # inherited from the parent component's class (marker or plain value alike)
            d = case["marked"].get("%d,%d" % (i, a))
            target = basens if (spec["inherit"] and a % 2 == 0) else ns
            if d is None and case.get("inj_attrs") and a % 3 != 2 and (i + a) % 2 == 0 and spec.get("derives_from") is None:
                # (a derived component class keeps its plain class attribute: that is what hides a marker of the same name in
                # the class it derives from)
                inj_ann[an(a)] = int        # an injected variable: the robot's c<i>_a<a> (createObjects), initially 0 as well
                continue
            # every third declared default is a callable used as a plain value (a function as a "do nothing" strategy, a class
            # as a tag): the attribute is set back to that very object, nobody calls it
            target[an(a)] = will_reset_to(CallableInt(d) if (i + a) % 3 == 0 else d) if d is not None else 0
            if spec["inherit"] and spec.get("redeclare") and a % 2 == 1 and d is not None:
                # the base class declares the same marker with another default: the subclass's wins
                basens[an(a)] = will_reset_to(d + 1000)

        def mk(i):
            def execute(self):
                k = begin(["exec", ix(self, i), snapshot()])
                if k in raises:
                    raise fault(k)
            return execute
        ns["execute"] = mk(i)
        if spec.get("preassign") and not spec.get("sm"):
            def mk_init(i):
                def __init__(self):
                    for a in range(nattr):
                        d = case["marked"].get("%d,%d" % (i, a))
                        if d is not None and a % 2 == 0:
                            setattr(self, an(a), d + 77)      # the declared default must still win
                return __init__
            ns["__init__"] = mk_init(i)
        if spec.get("hook") and not spec.get("sm"):
            # an interlock: assignments to the will_reset_to attributes through setattr() are refused (user code writes the
            # instance directly, see begin()); the framework's reset must not depend on the component's own __setattr__
            marked_names = {an(a) for a in range(nattr) if case["marked"].get("%d,%d" % (i, a)) is not None}

            def mk_hook(names):
                def __setattr__(self, k_, v_):
                    if k_ in names and not state.get("creating", False):
                        return
                    object.__setattr__(self, k_, v_)
                return __setattr__
            ns["__setattr__"] = mk_hook(marked_names)
        ns["__annotations__"] = dict({"peer": Shared}, **inj_ann)
        if any(c2.get("same_as") == i for c2 in case["comps"]) and (ncomp + nattr) % 2 == 0:
            # two components of one class that COMPARE EQUAL (a dataclass-like component with value semantics): they are two
            # components all the same, each with its own setup() and lifecycle
            ns["__eq__"] = lambda self, other: type(other) is type(self)
            ns["__hash__"] = lambda self: 7
        ns["gain"] = tunable(i)
        if spec["has_setup"]:
            def mk_setup(i):
                def setup(self):
                    # every component exists, has its injected variables, reset defaults and bound tunables
                    ok = True
                    for j in range(ncomp):
                        cj = getattr(robot_holder[0], "c%02d" % j, None)
                        if cj is None or getattr(cj, "peer", None) is None or not hasattr(cj, "_tunables"):
                            ok = False
                            continue
                        for a in range(nattr):
                            if not isinstance(getattr(cj, an(a), None), (int, float)):
                                ok = False
                    cb(["Setup", ix(self, i) if ok else 1000 + ix(self, i)])
                return setup
            ns["setup"] = mk_setup(i)
        plain_hooks = not spec.get("static_hooks") or any(c2.get("same_as") == i for c2 in case["comps"])

        class CallSite:
            """int(CallSite(site)) logs the callback; a scripted fault is raised by int() itself (TypeError: __int__ returned
            non-int), i.e. from C code: the traceback the framework sees has no frame below its own -- what a callback with the
            wrong signature, or a builtin used as a hook, produces"""

            def __init__(self, site):
                self.site = site

            def __int__(self):
                k = begin(["cb"] + self.site)
                return "fault" if k in raises else 0
        if spec["has_enable"]:
            if plain_hooks:
                (basens if spec["inherit"] else ns)["on_enable"] = (lambda i: lambda self: cb(["OnEnable", ix(self, i)]))(i)
            else:
                # a hook need not be a bound method: a staticmethod is just as callable
                import functools
                ns["on_enable"] = (staticmethod((lambda i: lambda: cb(["OnEnable", i]))(i)) if i % 2 else
                                   functools.partial(int, CallSite(["OnEnable", i])))
        if spec["has_disable"]:
            if plain_hooks:
                ns["on_disable"] = (lambda i: lambda self: cb(["OnDisable", ix(self, i)]))(i)
            else:
                import functools
                ns["on_disable"] = (functools.partial((lambda i: lambda tag: cb(["OnDisable", i]))(i), "partial") if i % 2 == 0 else
                                    functools.partial(int, CallSite(["OnDisable", i])))
        for j, o in enumerate(owners):
            if o == i and fb_fn[j] == j:      # (a getter inherited from another component's class has fb_fn[j] != j)
                # every other getter of an inheriting component is defined in its base class
                (basens if (spec["inherit"] and j % 2 == 0) else ns)["get_f%03d" % j] = make_fb(j)
        if spec.get("sm"):
            # a component that is a StateMachine (its own execute() is scripted like any other component's)
            from magicbot import StateMachine, state as sm_state

            def _idle(self):
                pass
            _idle.__name__ = "idle"
            (basens if spec["inherit"] else ns)["idle"] = sm_state(first=True)(_idle)
            bases = (type("CompBase%d" % i, (StateMachine,) + root_bases, basens),) if spec["inherit"] else (StateMachine,) + root_bases
        elif spec.get("derives_from") is not None:
            # derived from an earlier component's class: its hooks and feedback getters are inherited, its own come on top
            parent = comp_classes[spec["derives_from"]]
            bases = (type("CompBase%d" % i, (parent,), basens),) if spec["inherit"] else (parent,)
        else:
            bases = (type("CompBase%d" % i, root_bases, basens),) if spec["inherit"] else root_bases
        comp_classes.append(type("Comp%d" % i, bases, ns))

    # ---- the robot ------------------------------------------------------------
    def read_nt():
        vals = []
        for j, o in enumerate(owners):
            tbl = "/robot" if o < 0 else "/components/c%02d" % o
            e = nt.getTable(tbl).getEntry("f%03d" % fb_fn[j])
            val = e.getValue()
            if e.exists() and val.isValid():
                x = val.value()
                kind = fb_kind(fb_fn[j])
                if kind == "str":
                    # an un-hinted string feedback must be published as a string
                    x = int(x[1:]) if (isinstance(x, str) and x[:1] == "s" and x[1:].lstrip("-").isdigit()) else -999998
                elif kind == "list":
                    x = x[0] if (val.isIntegerArray() and len(x) == 2 and x[1] == 7) else -999996
                elif kind == "bool":
                    # a boolean topic holding the bit the getter returned last (the scripted value it was derived from is reported)
                    lb = last_bool.get((o, fb_fn[j]))
                    x = lb if (val.isBoolean() and lb is not None and x is (lb % 2 == 1)) else -999994
                elif kind == "float_int":
                    # a double topic holding the whole number the getter returned
                    x = int(x) if (val.isDouble() and not isinstance(x, bool) and float(x).is_integer()) else -999993
                elif kind == "opt_int":
                    # Optional[int] names no topic type: the value decides (ntcore stores a python int given without a type as a number)
                    x = int(x) if ((val.isInteger() or val.isDouble()) and not isinstance(x, bool) and float(x).is_integer()) else -999995
                else:
                    # the topic type follows the return hint (also when it is written as a string): an integer topic
                    x = x if (val.isInteger() and not isinstance(x, bool)) else -999997
                vals.append(int(x))
            else:
                vals.append(None)
        mode = nt.getTable("/robot").getEntry("mode")
        return (mode.getString("") if mode.exists() else None), vals

    def robotPeriodic(self):
        mode, vals = read_nt()
        k = begin(["rp", mode, vals, hal.getFPGATime()[0] if isinstance(hal.getFPGATime(), tuple) else int(hal.getFPGATime()), snapshot()])
        if k in raises:
            raise fault(k)

    period_on_instance = bool(case.get("period_on_instance"))

    def create_objects(self):
        self.peer = Shared()
        if period_on_instance:
            # the robot sets its loop period on the instance (in createObjects), not as a class attribute
            self.control_loop_wait_time = period_us / 1e6
        if case.get("inj_attrs"):
            for i_ in range(ncomp):
                for a_ in range(nattr):
                    if a_ % 3 != 2:
                        setattr(self, "c%02d_%s" % (i_, an(a_)), 0)

    rns = {
        "createObjects": create_objects,
        "use_teleop_in_autonomous": bool(case["teleop_in_auto"]),
        "robotPeriodic": robotPeriodic,
        "autonomousInit": lambda self: cb(["Init", "Auto"]),
        "disabledInit": lambda self: cb(["Init", "Disabled"]),
        "teleopInit": lambda self: cb(["Init", "Teleop"]),
        "testInit": lambda self: cb(["Init", "Test"]),
        "disabledPeriodic": lambda self: cb(["Periodic", "Disabled"]),
        "teleopPeriodic": lambda self: cb(["Periodic", "Teleop"]),
        "testPeriodic": lambda self: cb(["Periodic", "Test"]),
    }
    if not period_on_instance:
        rns["control_loop_wait_time"] = period_us / 1e6
    split = case["robot_split"]          # components declared on a base robot class come first
    ticks_ = case["ticks"]
    base_rns = {}
    for j, o in enumerate(owners):
        if o < 0:
            # with an inherited robot class every other robot-level getter is defined on the base robot
            (base_rns if (split > 0 and j % 2 == 0) else rns)["get_f%03d" % j] = make_fb(j)
    ann = {}
    base_ann = {}
    for i in range(ncomp):
        (base_ann if i < split else ann)["c%02d" % i] = comp_classes[i]
    if split > 0 and (ncomp + len(ticks_)) % 2 == 0:
        # an inherited robot class may define the mode hooks in the base class and leave them alone in the class that runs
        for h_ in ("disabledPeriodic", "testPeriodic", "teleopInit", "autonomousInit", "robotPeriodic"):
            base_rns[h_] = rns.pop(h_)
    if split > 0:
        Base = type("BaseRobot", (magicbot.MagicRobot,), dict(base_rns, **{"__annotations__": base_ann, "createObjects": create_objects}))
        rns["__annotations__"] = ann
        Robot = type("Robot", (Base,), rns)
    else:
        rns["__annotations__"] = ann
        Robot = type("Robot", (magicbot.MagicRobot,), rns)

    # ---- drive it -----------------------------------------------------------------
    hal.simulation.pauseTiming()
    hal.simulation.restartTiming()
    ticks = case["ticks"]

    early_ticks = set(case.get("early_word") or [])

    def set_word(t):
        DS.setEnabled(bool(t[0]))
        DS.setAutonomous(bool(t[1]))
        DS.setTest(bool(t[2]))
        hal.simulation.notifyDriverStationNewData()   # as a DS packet arrives: only the robot loop's own refreshData() makes it current

    set_word_holder[0] = set_word
    DS.setDsAttached(True)
    DS.setFmsAttached(bool(case["fms"]))
    if case.get("match_type"):
        # the DS can report a match type without an FMS (practice match on the bench): only the FMS flag counts
        DS.setMatchType(getattr(wpilib.DriverStation.MatchType, case["match_type"]))
    if case.get("auto_selector") is not None:
        # the LabVIEW dashboard key: used only when it names a mode, otherwise the chooser selection counts
        wpilib.SmartDashboard.putString("Auto Selector", case["auto_selector"])
    first = ticks[0]
    set_word(first)
    wpilib.DriverStation.refreshData()
    robot = Robot()
    robot_holder[0] = robot
    exc = []
    started = [False]
    sem = threading.Semaphore(0)
    _orig_wait = hal.waitForNotifierAlarm

    # every NotifierDelay the loops create: creation time, the alarms it programs, its waits
    nds = []
    nd_handles = []

    def fpga_now():
        v = hal.getFPGATime()
        return int(v[0]) if isinstance(v, tuple) else int(v)

    def nd_of(handle):
        for i in range(len(nd_handles) - 1, -1, -1):
            if nd_handles[i] is handle or nd_handles[i] == handle:
                return nds[i]
        return None
    _orig_init = hal.initializeNotifier

    def _init(*a):
        r = _orig_init(*a)
        nd_handles.append(r[0] if isinstance(r, tuple) else r)
        nds.append({"t0": fpga_now(), "alarms": [], "waits": [], "at": len(log)})
        return r
    hal.initializeNotifier = _init
    _orig_update = hal.updateNotifierAlarm

    def _update(handle, t):
        nd = nd_of(handle)
        if nd is not None and state["logging"]:
            nd["alarms"].append(int(t))
        return _orig_update(handle, t)
    hal.updateNotifierAlarm = _update

    def _wait(handle):
        nd = nd_of(handle)
        c = fpga_now()
        sem.release()
        r = _orig_wait(handle)
        if nd is not None and state["logging"]:
            nd["waits"].append([c, fpga_now()])
        return r
    hal.waitForNotifierAlarm = _wait
    _orig_observe = hal.observeUserProgramStarting

    def _observe():
        started[0] = True
        return _orig_observe()
    hal.observeUserProgramStarting = _observe

    def run():
        try:
            robot.startCompetition()
        except BaseException as e:      # noqa
            try:
                text = str(e)
            except Exception:       # noqa: the exception's own __str__ raises
                text = "scripted fault (its __str__ raises)" if type(e).__name__ == "BadStrFault" else "<no text>"
            exc.append(type(e).__name__ + ": " + text)

    # components become visible to the scripted callbacks once created
    orig_create = Robot._create_components

    def patched_create(self):
        # the list is filled lazily: scripted callbacks look the objects up on the robot
        class Lazy(list):
            pass
        state["comps"] = _CompView(self, ncomp)
        return orig_create(self)

    class _CompView:
        def __init__(self, rob, n):
            self.rob = rob
            self.n = n

        def __getitem__(self, i):
            return getattr(self.rob, "c%02d" % i)

        def __iter__(self):
            return (getattr(self.rob, "c%02d" % i) for i in range(self.n))

    Robot._create_components = patched_create
    marks = []             # log index after startup and after every tick
    P = 0.02
    th = threading.Thread(target=run, daemon=True)
    th.start()
    import time
    t_wait = time.time()
    while th.is_alive() and not exc and not started[0] and time.time() - t_wait < 90:
        time.sleep(0.002)
    if not started[0]:
        sys.stdout.write("\n" + json.dumps({"log": log, "marks": [], "crashed": True, "exc": exc[:1] or ["startup hang"],
                                            "alive": th.is_alive(), "startup_failed": True}) + "\n")
        sys.stdout.flush()
        os._exit(0)
    hal.simulation.waitForProgramStart()

    def step_tick(ti):
        if not timed:
            wsim.stepTimingAsync(P)
            return
        # up to the alarm the loop is waiting for, plus the scripted lateness of this wake-up
        target = None
        for nd in reversed(nds):
            if nd["alarms"]:
                target = nd["alarms"][-1]
                break
        late = jitter[ti] if ti < len(jitter) else 0
        dt = (target + late - fpga_now()) if target is not None else period_us
        wsim.stepTimingAsync((max(dt, 1) + 0.5) / 1e6)

    def wait_idle():
        """until the robot thread has finished its pass and is entering NotifierDelay.wait() (or died)"""
        t_wait = time.time()
        while time.time() - t_wait < 60:
            if sem.acquire(timeout=0.02):
                return True
            if exc or not th.is_alive():
                return True
        return False

    # the first wake-up is the program start itself
    hung = not wait_idle()
    marks.append(len(log))
    ended = False
    for ti, t in enumerate(ticks[1:], 1):
        if exc or not th.is_alive():
            break
        if t == "end":
            robot.endCompetition()
            step_tick(ti)
            th.join(5.0)
            ended = True
            marks.append(len(log))
            break
        if t[0] == "fms":
            # the FMS gets attached / detached while the loop sleeps: the control word the robot
            # refreshes when it next wakes carries the new flag.  No time passes, nothing runs.
            DS.setFmsAttached(bool(t[1]))
            hal.simulation.notifyDriverStationNewData()   # as a DS packet arrives: only the robot loop's own refreshData() makes it current
            marks.append(len(log))
            continue
        set_word(t)
        state.pop("early", None)
        nxt = ticks[ti + 1] if ti + 1 < len(ticks) else None
        if (ti + 1) in early_ticks and isinstance(nxt, list) and nxt[0] != "fms":
            state["early"] = nxt
        step_tick(ti)
        if not wait_idle():
            hung = True
            break
        marks.append(len(log))
    crashed = bool(exc)
    state["logging"] = False
    if not ended and th.is_alive():
        raises.clear()
        robot.endCompetition()
        try:
            wsim.stepTimingAsync(max(P, 2 * period_us / 1e6))
        except Exception:
            pass
        th.join(5.0)
    out = {"log": log, "marks": marks, "crashed": crashed, "exc": exc[:1], "alive": th.is_alive(), "hung": hung, "nds": nds}
    sys.stdout.write("\n" + json.dumps(out) + "\n")
    sys.stdout.flush()
    os._exit(0)


if __name__ == "__main__":
    main()
