"""C10: see harness/robot_common.py (shared MagicRobot-loop machinery, one process per generated robot)
and coq/theories/Properties/C10.v."""
from . import robot_common


def run(ctx):
    return robot_common.robot_check(ctx, "C10")


def replay(ctx, obj):
    return robot_common.robot_replay(ctx, "C10", obj)
