"""Translator: the control structure of magicbot/magicrobot.py and robotpy_ext/autonomous/selector.py
-> the programs of Robot.Model (Coq), regenerated from the CURRENT source on every run.

What it does, statement by statement (Python `ast`, fail-closed: anything it does not recognise
raises Shape and the obligation `regen:...recognised shape` is broken; nothing is guessed):

  try: B  except: self.onException(..)/on_exception(..)      ->  PGuard (B)
  for _, component in self._components: B                    ->  for_components c (fun i => B)
  X = getattr(component, "on_enable"|"on_disable"|"setup", None); if X is not None: B
                                                             ->  pwhen (has_enable|has_disable|has_setup c i) (B)
  X() / component.execute() / self.<user callback>()         ->  PInvoke (<site>)
  for method, setter in self._feedbacks: try: value = method() except: onException() else: setter(value)
                                                             ->  pseq (map PFeedback (seq 0 (nfb c)))
  for periodic, name in self.__periodics: B                  ->  B with periodic := robotPeriodic
  for reset_dict, component in self._reset_components: component.__dict__.update(reset_dict)  ->  PReset
  self.__nt_put_mode("x")                                    ->  PMode X
  self.<framework function>()                                ->  the translation of its body (named gen_<function>)
  if self.active_mode is not None: B                         ->  pwhen (has_auto c) (B)
  self._automodes.run(period, auto_functions, self.onException, ..)  ->  selector.run() with iter_fn := auto_functions
  for fn in iter_fn: B                                       ->  B once per element, `pwhen (teleop_in_auto c)` for the conditional one
  a statement list                                           ->  PNop | the single term | pseq [ .. ]
  with NotifierDelay(..) as delay: while not <done flag>: refreshData(); [cw = ..]; if T: break; B; delay.wait(); ..
                                                             ->  (statements before) = enter, T = leave test, B = iteration,
                                                                 (statements after) = leave
  watchdog / logger / hal.observe* / ds-attached bookkeeping / aliases of wpilib functions: no callback, dropped
  (explicit white-lists below).

The generated file states  gen_X = X  for the hand-written programs of Robot.Model (enter, iteration, leave of the four
modes, startup, stays, dispatch, handle) and proves each by `reflexivity`: the theorems of C05 C06 C07 C10 C11 are about
exactly the programs the source has now."""
import ast
import os


class Shape(Exception):
    pass


MODES = {"auto": "Auto", "disabled": "Disabled", "teleop": "Teleop", "test": "Test"}
USER_CB = {
    "self.autonomousInit": "PInvoke (SInit Auto)", "self.disabledInit": "PInvoke (SInit Disabled)",
    "self.teleopInit": "PInvoke (SInit Teleop)", "self.testInit": "PInvoke (SInit Test)",
    "self.disabledPeriodic": "PInvoke (SPeriodic Disabled)", "self.teleopPeriodic": "PInvoke (SPeriodic Teleop)",
    "self.testPeriodic": "PInvoke (SPeriodic Test)",
    "self.active_mode.on_enable": "PInvoke SAutoEnable", "self.active_mode.on_iteration": "PInvoke SAutoIter",
    "self.active_mode.on_disable": "PInvoke SAutoDisable",
}
OPT_CB = {"on_enable": ("has_enable", "SOnEnable"), "on_disable": ("has_disable", "SOnDisable"), "setup": ("has_setup", "SSetup")}
ROBOT_INLINE = {"self._on_mode_enable_components", "self._on_mode_disable_components", "self._do_periodics", "self._enabled_periodic"}
SELECTOR_INLINE = {"self._on_autonomous_enable", "self._on_iteration", "self.disable"}
IGNORE_CALL_PREFIX = ("watchdog.", "self.watchdog.", "hal.observe", "logger.", "self.logger.")
IGNORE_CALL = {"wpilib.DriverStation.refreshData", "watchdog_check_expired", "self.__nt_put_is_ds_attached",
               "wpilib.LiveWindow.setEnabled", "timer.start"}
IGNORE_TARGET = {"ds_attached", "cw", "timer", "auto_mode", "self.active_mode", "watchdog_check_expired", "iter_fn",
                 "on_exception"}
HANDLERS = {"self.onException", "on_exception"}
ALIASES = {"isTeleopEnabled": "wpilib.DriverStation.isTeleopEnabled",
           "isAutonomousEnabled": "wpilib.DriverStation.isAutonomousEnabled",
           "refreshData": "wpilib.DriverStation.refreshData", "DSControlWord": "wpilib.DSControlWord"}


def txt(node):
    return ast.unparse(node)


def pure_chain(n):
    """a.b.c with a in self / wpilib / hal: a name for something, no call"""
    while isinstance(n, ast.Attribute):
        n = n.value
    return isinstance(n, ast.Name) and n.id in ("self", "wpilib", "hal")


def expand(t, env):
    """replace a leading local alias (x = self.watchdog; x.reset()) by what it names"""
    al = env.get("alias") or {}
    for _ in range(4):
        head, dot, rest = t.partition(".")
        if head in al:
            t = al[head] + dot + rest
        else:
            m = head.split("(")[0]
            if m in al and head != m:
                t = al[m] + head[len(m):] + dot + rest
            else:
                break
    return t


def seq_of(terms):
    if not terms:
        return "PNop"
    if len(terms) == 1:
        return terms[0]
    return "pseq [ " + ";\n         ".join(terms) + " ]"


def paren(t):
    return t if t.startswith("(") or " " not in t else "(" + t + ")"


class Tr:
    def __init__(self, repo):
        self.fn = {}
        for cls, path, cname in (("robot", "magicbot/magicrobot.py", "MagicRobot"),
                                 ("selector", "robotpy_ext/autonomous/selector.py", "AutonomousModeSelector")):
            tree = ast.parse(open(os.path.join(repo, path)).read())
            found = [n for n in tree.body if isinstance(n, ast.ClassDef) and n.name == cname]
            if len(found) != 1:
                raise Shape("class %s not found in %s" % (cname, path))
            for n in found[0].body:
                if isinstance(n, ast.FunctionDef):
                    if n.decorator_list and n.name in ("autonomous", "_disabled", "_operatorControl", "_test", "_do_periodics",
                                                       "_enabled_periodic", "onException", "run", "startCompetition"):
                        raise Shape("%s.%s is decorated" % (cname, n.name))
                    self.fn[(cls, n.name)] = n
        self.defs = []          # (name, term) in dependency order
        self.done = {}
        self.aliases_seen = {}

    # ------------------------------------------------------------------ helpers
    def body_of(self, cls, name):
        f = self.fn.get((cls, name))
        if f is None:
            raise Shape("function %s of the %s class not found" % (name, cls))
        return [s for s in f.body if not (isinstance(s, ast.Expr) and isinstance(s.value, ast.Constant) and isinstance(s.value.value, str))]

    def inline(self, cls, name, env):
        key = (cls, name)
        if key not in self.done:
            self.done[key] = None      # cycle guard
            term = seq_of(self.block(self.body_of(cls, name), dict(env, cls=cls, alias={})))
            gname = "gen_" + name.lstrip("_")
            self.defs.append((gname, term))
            self.done[key] = gname
        if self.done[key] is None:
            raise Shape("recursive framework function %s" % name)
        return self.done[key]

    def is_handler(self, h):
        return (isinstance(h, ast.ExceptHandler) and h.type is None and h.name is None and len(h.body) == 1
                and isinstance(h.body[0], ast.Expr) and isinstance(h.body[0].value, ast.Call)
                and txt(h.body[0].value.func) in HANDLERS)


    # ------------------------------------------------------------------ statements
    def block(self, stmts, env):
        out = []
        for s in stmts:
            out += self.stmt(s, env)
        return out

    def stmt(self, s, env):
        if isinstance(s, ast.Expr) and isinstance(s.value, ast.Constant) and isinstance(s.value.value, str):
            return []
        if isinstance(s, ast.Pass):
            return []
        if isinstance(s, ast.Expr) and isinstance(s.value, ast.Call):
            return self.call(s.value, env)
        if isinstance(s, (ast.Assign, ast.AnnAssign)):
            return self.assign(s, env)
        if isinstance(s, ast.AugAssign):
            if txt(s.target) == "self._feedbacks" and env.get("comp"):
                return []
            raise Shape("augmented assignment %s" % txt(s))
        if isinstance(s, ast.Try):
            if s.finalbody or len(s.handlers) != 1 or not self.is_handler(s.handlers[0]):
                raise Shape("try statement whose only handler is not `except: onException()` (line %d)" % s.lineno)
            if s.orelse:
                raise Shape("try/except/else outside the feedback loop (line %d)" % s.lineno)
            return ["PGuard " + paren(seq_of(self.block(s.body, env)))]
        if isinstance(s, ast.For):
            return self.for_(s, env)
        if isinstance(s, ast.If):
            return self.if_(s, env)
        if isinstance(s, ast.FunctionDef) and s.name == "watchdog_check_expired":
            return []
        raise Shape("statement not recognised (line %d): %s" % (getattr(s, "lineno", 0), txt(s)[:80]))

    def call(self, c, env):
        f = expand(txt(c.func), env)
        if f in env.get("optcb", {}):
            field, site = OPT_CB[env["optcb"][f]]
            return ["PInvoke (%s %s)" % (site, env["comp_i"])]
        if env.get("comp") and f == env["comp"] + ".execute":
            return ["PInvoke (SExecute %s)" % env["comp_i"]]
        if env.get("periodic") and f == env["periodic"]:
            return ["PInvoke SRobotPeriodic"]
        if env.get("fnvar") and f == env["fnvar"]:
            target = env["fnval"]
            if target in USER_CB and env["fncls"] == "robot":
                return [USER_CB[target]]
            if target in ROBOT_INLINE:
                return [self.inline("robot", target[5:], {})]
            raise Shape("iter_fn element %s" % target)
        if f in USER_CB and ((env["cls"] == "robot") != f.startswith("self.active_mode")):
            return [USER_CB[f]]
        if env["cls"] == "robot" and f in ROBOT_INLINE:
            return [self.inline("robot", f[5:], {})]
        if env["cls"] == "selector" and f in SELECTOR_INLINE:
            return [self.inline("selector", f[5:], {})]
        if env["cls"] == "robot" and f == "self.__nt_put_mode":
            if len(c.args) == 1 and isinstance(c.args[0], ast.Constant) and c.args[0].value in MODES:
                return ["PMode " + MODES[c.args[0].value]]
            raise Shape("__nt_put_mode argument %s" % txt(c))
        if f in IGNORE_CALL or f.startswith(IGNORE_CALL_PREFIX):
            return []
        raise Shape("call not recognised (line %d): %s" % (c.lineno, txt(c)[:80]))

    def assign(self, s, env):
        targets = s.targets if isinstance(s, ast.Assign) else [s.target]
        if len(targets) != 1 or s.value is None:
            raise Shape("assignment %s" % txt(s))
        t = txt(targets[0])
        v = s.value
        # X = getattr(component, "on_enable", None)
        if (env.get("comp") and isinstance(v, ast.Call) and txt(v.func) == "getattr" and len(v.args) == 3
                and txt(v.args[0]) == env["comp"] and isinstance(v.args[1], ast.Constant) and v.args[1].value in OPT_CB
                and isinstance(v.args[2], ast.Constant) and v.args[2].value is None):
            env.setdefault("optcb", {})[t] = v.args[1].value
            return []
        if t == "auto_functions":
            cur = env["lists"]
            if isinstance(v, ast.Tuple) and all(isinstance(e, ast.Attribute) for e in v.elts):
                cur[:] = [(env.get("cond"), txt(e)) for e in v.elts]
                return []
            if (isinstance(v, ast.BinOp) and isinstance(v.op, ast.Add) and isinstance(v.left, ast.Tuple)
                    and isinstance(v.right, ast.Name) and v.right.id == "auto_functions"):
                cur[:0] = [(env.get("cond"), txt(e)) for e in v.left.elts]
                return []
            raise Shape("auto_functions = %s" % txt(v))
        if isinstance(targets[0], ast.Name) and pure_chain(v) and t not in ("auto_functions",):
            # a local name for a framework / wpilib / hal object or function: remembered, expanded at its uses
            env.setdefault("alias", {})[t] = expand(txt(v), env)
            return []
        if t in IGNORE_TARGET:
            if isinstance(v, ast.Call) and expand(txt(v.func), env) not in ("wpilib.DSControlWord", "wpilib.Timer",
                                                                          "wpilib.SmartDashboard.getString",
                                                                          "self.chooser.getSelected"):
                raise Shape("assignment calls %s" % txt(v.func))
            return []
        raise Shape("assignment not recognised (line %d): %s" % (s.lineno, txt(s)[:80]))

    def for_(self, s, env):
        if s.orelse:
            raise Shape("for/else")
        it = txt(s.iter)
        tg = txt(s.target)
        if it == "self._components" and isinstance(s.target, ast.Tuple) and len(s.target.elts) == 2:
            comp = txt(s.target.elts[1])
            e2 = dict(env, comp=comp, comp_i="i", optcb={})
            return ["for_components c (fun i => %s)" % seq_of(self.block(s.body, e2))]
        if it == "components" and env.get("startup") and isinstance(s.target, ast.Tuple) and len(s.target.elts) == 2:
            comp = txt(s.target.elts[1])
            e2 = dict(env, comp=comp, comp_i="i", optcb={})
            return ["for_components c (fun i => %s)" % seq_of(self.block(s.body, e2))]
        if it == "self._feedbacks" and tg == "(method, setter)":
            b = s.body
            ok = (len(b) == 1 and isinstance(b[0], ast.Try) and not b[0].finalbody and len(b[0].handlers) == 1
                  and self.is_handler(b[0].handlers[0]) and len(b[0].body) == 1 and txt(b[0].body[0]) == "value = method()"
                  and len(b[0].orelse) == 1 and txt(b[0].orelse[0]) == "setter(value)")
            if not ok:
                raise Shape("feedback loop is not `try: value = method() except: onException() else: setter(value)`")
            return ["pseq (map PFeedback (seq 0 (nfb c)))"]
        if it == "self.__periodics" and tg == "(periodic, name)":
            return [seq_of(self.block(s.body, dict(env, periodic="periodic")))]
        if it == "self._reset_components" and tg == "(reset_dict, component)":
            if len(s.body) == 1 and txt(s.body[0]) == "component.__dict__.update(reset_dict)":
                return ["PReset"]
            raise Shape("reset loop body %s" % txt(s.body[0])[:60])
        if it == "iter_fn" and env.get("iter_fns") is not None and isinstance(s.target, ast.Name):
            out = []
            for cond, f in env["iter_fns"]:
                t = seq_of(self.block(s.body, dict(env, fnvar=s.target.id, fnval=f, fncls="robot")))
                out.append("pwhen (%s) %s" % (cond, paren(t)) if cond else t)
            return out
        raise Shape("for loop not recognised (line %d): for %s in %s" % (s.lineno, tg, it))

    def if_(self, s, env):
        test = txt(s.test)
        # if X is not None: (optional component callback)
        if (isinstance(s.test, ast.Compare) and len(s.test.ops) == 1 and isinstance(s.test.ops[0], ast.IsNot)
                and isinstance(s.test.comparators[0], ast.Constant) and s.test.comparators[0].value is None):
            v = txt(s.test.left)
            if v in env.get("optcb", {}):
                if s.orelse:
                    raise Shape("else branch of `if %s is not None`" % v)
                field, _ = OPT_CB[env["optcb"][v]]
                return ["pwhen (%s c %s) %s" % (field, env["comp_i"], paren(seq_of(self.block(s.body, env))))]
            if v == "self.active_mode" and env["cls"] == "selector":
                if self.block(s.orelse, env):
                    raise Shape("else branch of `if self.active_mode is not None` runs callbacks")
                return ["pwhen (has_auto c) %s" % paren(seq_of(self.block(s.body, env)))]
        if test == "self.use_teleop_in_autonomous" and env["cls"] == "robot" and not s.orelse:
            r = self.block(s.body, dict(env, cond="teleop_in_auto c"))
            if r:
                raise Shape("`if self.use_teleop_in_autonomous` body")
            return []
        # bookkeeping conditionals: both branches free of callbacks
        a = self.block(s.body, env)
        b = self.block(s.orelse, env)
        if not a and not b:
            return []
        raise Shape("conditional not recognised (line %d): if %s" % (s.lineno, test[:60]))

    # ------------------------------------------------------------------ boolean tests over the control word
    def bexpr(self, n, names):
        if isinstance(n, ast.UnaryOp) and isinstance(n.op, ast.Not):
            return "negb (%s)" % self.bexpr(n.operand, names)
        if isinstance(n, ast.BoolOp) and isinstance(n.op, ast.And):
            return "(" + " && ".join(self.bexpr(v, names) for v in n.values) + ")"
        t = expand(txt(n), names.get("__env", {}))
        table = {"cw.isEnabled()": "en", "cw.isTest()": "te", "cw.isAutonomous()": "au",
                 "wpilib.DriverStation.isTeleopEnabled()": "(en && negb au && negb te)",
                 "wpilib.DriverStation.isAutonomousEnabled()": "(en && au)"}
        table.update(names)
        if t in table:
            return table[t]
        raise Shape("control-word test %s" % t)

    # ------------------------------------------------------------------ mode functions
    def mode_fn(self, cls, name, env):
        """-> (enter terms, break test (Coq bool over en au te), iteration terms, leave terms)"""
        body = self.body_of(cls, name)
        env = dict(env, cls=cls, alias={})
        pre, post = [], []
        res = None
        for k, s in enumerate(body):
            if isinstance(s, ast.With):
                if res is not None:
                    raise Shape("%s has two with-blocks" % name)
                it = s.items
                if not (len(it) == 1 and isinstance(it[0].context_expr, ast.Call) and txt(it[0].context_expr.func) == "NotifierDelay"
                        and it[0].optional_vars is not None and txt(it[0].optional_vars) == "delay"):
                    raise Shape("%s: with-item %s" % (name, txt(it[0])))
                if not (len(s.body) == 1 and isinstance(s.body[0], ast.While) and not s.body[0].orelse
                        and txt(s.body[0].test) in ("not self.__done", "not self.robot_exit")):
                    raise Shape("%s: the with-block is not `while not <done flag>:`" % name)
                loop = s.body[0].body
                j = 0
                if not (j < len(loop) and isinstance(loop[j], ast.Expr) and isinstance(loop[j].value, ast.Call)
                        and expand(txt(loop[j].value.func), env) == "wpilib.DriverStation.refreshData" and not loop[j].value.args):
                    raise Shape("%s: the loop does not start with refreshData()" % name)
                j += 1
                if (j < len(loop) and isinstance(loop[j], ast.Assign) and txt(loop[j].targets[0]) == "cw"
                        and isinstance(loop[j].value, ast.Call) and expand(txt(loop[j].value.func), env) == "wpilib.DSControlWord"):
                    j += 1
                brk = loop[j] if j < len(loop) else None
                if not (isinstance(brk, ast.If) and not brk.orelse and len(brk.body) == 1 and isinstance(brk.body[0], ast.Break)):
                    raise Shape("%s: no `if <test>: break` after refreshData()" % name)
                test = self.bexpr(brk.test, {"__env": env})
                j += 1
                waits = [i for i in range(j, len(loop)) if txt(loop[i]) == "delay.wait()"]
                if len(waits) != 1:
                    raise Shape("%s: delay.wait() occurs %d times in the loop body" % (name, len(waits)))
                it_terms = self.block(loop[j:waits[0]], env)
                if self.block(loop[waits[0] + 1:], env):
                    raise Shape("%s: callbacks after delay.wait()" % name)
                res = (test, it_terms)
            elif (res is None and isinstance(s, ast.Expr) and isinstance(s.value, ast.Call)
                  and txt(s.value.func) == "self._automodes.run" and cls == "robot"):
                a = s.value.args
                if not (len(a) == 3 and txt(a[0]) == "self.control_loop_wait_time" and txt(a[1]) == "auto_functions"
                        and txt(a[2]) == "self.onException"):
                    raise Shape("arguments of self._automodes.run: %s" % txt(s.value))
                e, t, i, l = self.mode_fn("selector", "run", {"iter_fns": list(env["lists"])})
                pre += e
                post += l
                res = (t, i)
            elif res is None:
                pre += self.stmt(s, env)
            else:
                post += self.stmt(s, env)
        if res is None:
            raise Shape("%s has no control loop" % name)
        return pre, res[0], res[1], post

    # ------------------------------------------------------------------ whole translation
    def run(self):
        modes = {}
        for m, fn in (("Disabled", "_disabled"), ("Auto", "autonomous"), ("Teleop", "_operatorControl"), ("Test", "_test")):
            modes[m] = self.mode_fn("robot", fn, {"lists": []})
        # startCompetition: robotInit, then the dispatch loop
        sc = self.body_of("robot", "startCompetition")
        loops = [s for s in sc if isinstance(s, ast.While)]
        if not (len(loops) == 1 and txt(loops[0].test) == "not self.__done" and len(loops[0].body) == 2
                and txt(loops[0].body[0]) == "isEnabled, isAutonomous, isTest = self.getControlState()"
                and isinstance(loops[0].body[1], ast.If)):
            raise Shape("startCompetition: dispatch loop")
        if not [s for s in sc if txt(s) == "self.robotInit()"] or sc.index(loops[0]) < [k for k, s in enumerate(sc) if txt(s) == "self.robotInit()"][0]:
            raise Shape("startCompetition: robotInit() is not called before the loop")
        calls = {"self._disabled()": "Disabled", "self.autonomous()": "Auto", "self._test()": "Test", "self._operatorControl()": "Teleop"}
        names = {"isEnabled": "en", "isAutonomous": "au", "isTest": "te"}

        def disp(n):
            if isinstance(n, list):
                if len(n) == 1 and isinstance(n[0], ast.If):
                    n = n[0]
                elif len(n) == 1 and txt(n[0]) in calls:
                    return calls[txt(n[0])]
                else:
                    raise Shape("startCompetition: dispatch branch %s" % [txt(x) for x in n])
            if len(n.body) != 1 or txt(n.body[0]) not in calls:
                raise Shape("startCompetition: dispatch branch %s" % txt(n.body[0]))
            return "if %s then %s else %s" % (self.bexpr(n.test, names), calls[txt(n.body[0])], disp(n.orelse))
        dispatch = disp(loops[0].body[1])
        # robotInit: the periodic list; _create_components: the setup loop
        ri = self.fn.get(("robot", "robotInit"))
        per = [s for s in ast.walk(ri) if isinstance(s, (ast.Assign, ast.AnnAssign)) and
               txt(s.targets[0] if isinstance(s, ast.Assign) else s.target) == "self.__periodics"]
        if not (len(per) == 1 and isinstance(per[0].value, ast.List) and len(per[0].value.elts) == 1
                and isinstance(per[0].value.elts[0], ast.Tuple) and txt(per[0].value.elts[0].elts[0]) == "self.robotPeriodic"):
            raise Shape("robotInit: self.__periodics is not [(self.robotPeriodic, ..)]")
        for s in ast.walk(ri):
            if isinstance(s, ast.Call) and txt(s.func) == "self.__periodics.append":
                if txt(s.args[0].elts[0]) != "self.__simulationPeriodic":
                    raise Shape("robotInit appends %s to the periodic list" % txt(s.args[0]))
        cc = self.body_of("robot", "_create_components")
        setups = [s for s in cc if isinstance(s, ast.For) and txt(s.iter) == "components" and '"setup"' in txt(s).replace("'", '"')]
        if len(setups) != 1:
            raise Shape("_create_components: setup loop")
        startup = seq_of(self.stmt(setups[0], {"cls": "robot", "startup": True}))
        # onException
        oe = self.body_of("robot", "onException")
        if not (oe and isinstance(oe[0], ast.If) and txt(oe[0].test) == "not wpilib.DriverStation.isFMSAttached()"
                and len(oe[0].body) == 1 and isinstance(oe[0].body[0], ast.Raise) and oe[0].body[0].exc is None and not oe[0].orelse):
            raise Shape("onException does not start with `if not isFMSAttached(): raise`")
        for s in oe[1:]:
            for n in ast.walk(s):
                if isinstance(n, (ast.Raise, ast.Return)):
                    raise Shape("onException raises/returns after the FMS test (line %d)" % n.lineno)
        se = self.body_of("selector", "_on_exception")
        if not (se and isinstance(se[0], ast.If) and txt(se[0].test) == "not wpilib.DriverStation.isFMSAttached()"
                and len(se[0].body) == 1 and isinstance(se[0].body[0], ast.Raise)):
            raise Shape("selector._on_exception does not start with `if not isFMSAttached(): raise`")
        handle = "if in_flight w then (if negb (w_fms w) then w else w <| w_exc := None |>) else w"
        return modes, dispatch, startup, handle

    def coq(self):
        modes, dispatch, startup, handle = self.run()
        L = ["(* GENERATED by harness/robot_translate.py from magicbot/magicrobot.py and robotpy_ext/autonomous/selector.py *)",
             "From Coq Require Import ZArith List Bool.", "From RecordUpdate Require Import RecordSet.",
             "From RV Require Import Robot.Model.", "Import ListNotations RecordSetNotations.", "Open Scope bool_scope.", "",
             "Section Gen.", "Variable c : cfg.", ""]
        for name, term in self.defs:
            L.append("Definition %s : prog :=\n  %s." % (name, term))
        order = ("Disabled", "Auto", "Teleop", "Test")
        for k, what in ((0, "enter"), (2, "iteration"), (3, "leave")):
            L.append("Definition gen_%s (m : mode) : prog :=\n  match m with\n%s\n  end." % (
                what, "\n".join("  | %s => %s" % (m, seq_of(modes[m][k])) for m in order)))
        L.append("Definition gen_startup : prog :=\n  %s." % startup)
        L.append("End Gen.\n")
        L.append("Definition gen_leaves (m : mode) (en au te : bool) : bool :=\n  match m with\n%s\n  end." % (
            "\n".join("  | %s => %s" % (m, modes[m][1]) for m in order)))
        L.append("Definition gen_dispatch (en au te : bool) : mode :=\n  %s." % dispatch)
        L.append("Definition gen_handle (w : world) : world :=\n  %s.\n" % handle)
        L += ["Lemma src_enter : forall c m, gen_enter c m = enter c m. Proof. intros c m; destruct m; reflexivity. Qed.",
              "Lemma src_iteration : forall c m, gen_iteration c m = iteration c m. Proof. intros c m; destruct m; reflexivity. Qed.",
              "Lemma src_leave : forall c m, gen_leave c m = leave c m. Proof. intros c m; destruct m; reflexivity. Qed.",
              "Lemma src_startup : forall c, gen_startup c = startup c. Proof. intros c; reflexivity. Qed.",
              "Lemma src_stays : forall m en au te, negb (gen_leaves m en au te) = stays m en au te.",
              "Proof. intros m en au te; destruct m, en, au, te; reflexivity. Qed.",
              "Lemma src_dispatch : forall en au te, gen_dispatch en au te = dispatch en au te.",
              "Proof. intros en au te; destruct en, au, te; reflexivity. Qed.",
              "Lemma src_handle : forall w, gen_handle w = handle w.",
              "Proof. intros w; unfold gen_handle, handle; destruct (in_flight w), (w_fms w); reflexivity. Qed.", ""]
        return "\n".join(L)


def obligation(ctx, label):
    """translate $VERIF_REPO's source, compile the generated file; records the obligations; -> True when all hold"""
    from .common import REPO
    try:
        text = Tr(REPO).coq()
    except Shape as e:
        ctx.obligation("regen:magicrobot.py / selector.py have the control structure the translator recognises", False, str(e))
        return False
    except (SyntaxError, OSError, KeyError, IndexError, AttributeError) as e:
        ctx.obligation("regen:magicrobot.py / selector.py have the control structure the translator recognises", False, repr(e))
        return False
    ctx.obligation("regen:magicrobot.py / selector.py have the control structure the translator recognises", True, "")
    rc, out = ctx.coq_file("Gen_robot_%s" % label, text)
    ctx.obligation("regen:Gen_robot (programs translated from the source == Robot.Model enter/iteration/leave/startup/stays/"
                   "dispatch/handle, by reflexivity)", rc == 0, out[-1500:])
    return rc == 0


if __name__ == "__main__":
    import sys
    print(Tr(sys.argv[1] if len(sys.argv) > 1 else "/repo").coq())
