"""C12: magicbot/state_machine.py -- _State.__init__ (name check, signature loop, fields), _get_class_members and the checks
part of StateMachine._build_states, translated from the CURRENT source statement by statement (fail-closed: any statement
or expression outside the forms below raises Shape and breaks the `regen:` obligation) into Gallina, and proved equal to
Defs.Model.sig_loop / init_state / class_members / build_states for every input.

Generated (prefix `ref` for the committed reference Defs/SrcDefs.v, `gen` for work/C12/Gen_defs.v):
  <p>_sig_loop     the `for i, arg in enumerate(sig.parameters.values())` loop of _State.__init__ as a Fixpoint over the
                   parameter list with the index and the two accumulators
  <p>_init_state   _State.__init__ : list string -> decl -> bool -> bool -> bool -> bool -> result sdata deferr
  <p>_state_fn / <p>_timed_state_fn / <p>_default_state_fn  the three decorators: which _State(..) call they make
  <p>_class_members  _get_class_members
  <p>_build_loop / <p>_build_states  the loop of _build_states over the merged members with its locals, then the
                   no-first check and the two tunables: result (built * tunable * tunable) builderr

Statements accepted: docstrings; `x = e`; `self.a = e` / `cls.a = e` for the attributes named in the spec; `X.append(e)`;
`if c: .. [else: ..]`; `raise E(..)`; `continue`; one `for` loop per function over a recognised iterable (its body may
assign only locals that exist before the loop and the listed self attributes; everything it changes is threaded through the
Fixpoint as an argument); annotation-only statements.  Symbolic execution with continuations: the statements after an `if`
are the continuation of both branches.

Reading of the source (trusted, see DESIGN section 10 and notes_c12.md):
  f (the decorated function)          -> the model's decl d: f.__name__ = d_fname d, inspect.signature(f).parameters.values()
                                         = d_params d (arg.name = p_name, arg.kind is arg.VAR_POSITIONAL / VAR_KEYWORD /
                                         KEYWORD_ONLY = the model's kinds VarPos / VarKw / KwOnly), inspect.getdoc(f) = d_doc d
  hasattr(StateMachine, n) or n in StateMachine.__annotations__ -> mem n reserved (the list the harness regenerates from
                                         exactly this condition on every run)
  raise InvalidStateName / ValueError(msg) -> EInvalidStateName / the sigerr constructor chosen by the message's first words
                                         ("First argument to", "Cannot use *args", "Cannot use **kwargs", "Cannot use
                                         keyword-only", "Invalid parameter names in" + the joined invalid_args)
  _State(f, a, b, duration=x, is_default=c) in state / timed_state / default_state -> <p>_init_state reserved f a b timed c with
                                         the arguments bound as Python binds them (missing ones = the defaults of __init__);
                                         timed_state's wrapper.next_state = next_state is not part of C12
  duration (None or a number)         -> the bool `timed` = duration is not None; self.duration = duration -> s_timed
  self.run = eval(f"lambda self, tm, state_tm, initial_call: f({','.join(args)})") -> s_args := args (Defs.Model.adapter
                                         selects exactly these four names)
  type(self).__mro__ / cls.__dict__   -> the list of class dicts mro (most derived first); dicts as association lists
  isinstance(state, _State)           -> the member is `MState s`; state.first / .is_default / .description = its fields
  _StateData(state)                   -> identified with the key `name` it is stored under (states[name] = state_data);
                                         default_state / self.__default_state hold that key; `states` itself is not modelled
  self.__first (unset before the loop)-> an option, None = no such attribute; has_first is threaded separately, as in the source
  tunable(l, subtable="state"[, writeDefault=b]) -> mk_tunable l None / (Some b)
  self.__should_engage / __engaged / __states / __state / __start = ..  after the checks -> instance bookkeeping, not part of C12"""
import ast
import os

from .pytr import Shape, txt

PATH = "magicbot/state_machine.py"
KINDS = {"VAR_POSITIONAL": "VarPos", "VAR_KEYWORD": "VarKw", "KEYWORD_ONLY": "KwOnly",
         "POSITIONAL_ONLY": "PosOnly", "POSITIONAL_OR_KEYWORD": "PosOrKw"}
TYPES = {"bool": "bool", "list": "list string", "optstr": "option string", "nat": "nat"}
SIG_MSG = [("First argument to", "ErrFirstNotSelf"), ("Cannot use *args", "ErrVarPos"), ("Cannot use **kwargs", "ErrVarKw"),
           ("Cannot use keyword-only", "ErrKwOnly")]
WRAPPER = "f'lambda self, tm, state_tm, initial_call: f({%s})'"


def cstr(s):
    if '"' in s or "\\" in s or not all(32 <= ord(c) < 127 for c in s):
        raise Shape("string constant %r" % s)
    return '"%s"' % s


def v(name):
    return "v_" + name.lstrip("_")


class Env:
    def __init__(self):
        self.loc = {}       # python name (or 'self.attr') -> (term, kind)
        self.fields = {}    # model field -> term

    def copy(self):
        e = Env()
        e.loc, e.fields = dict(self.loc), dict(self.fields)
        return e


class Tr:
    def __init__(self, prefix, mode):
        self.p, self.mode = prefix, mode            # mode: 'init' | 'build'
        self.defs = []
        self.in_loop = False
        self.loops = 0

    # ------------------------------------------------------------------ values
    def value(self, n, env):
        """(term, kind)"""
        t = txt(n)
        if isinstance(n, ast.Constant):
            if isinstance(n.value, bool):
                return ("true" if n.value else "false", "bool")
            if isinstance(n.value, str):
                return (cstr(n.value), "str")
            if n.value is None:
                return ("None", "optstr")
            if isinstance(n.value, int) and 0 <= n.value < 100:
                return ("%d" % n.value, "nat")
            raise Shape("constant %s" % t)
        if isinstance(n, ast.List) and not n.elts:
            return ("[]", "list")
        if isinstance(n, ast.Tuple) and n.elts and all(isinstance(e, ast.Constant) and isinstance(e.value, str) for e in n.elts):
            return ("[%s]" % "; ".join(cstr(e.value) for e in n.elts), "list")
        if isinstance(n, ast.Name):
            if n.id in env.loc:
                return env.loc[n.id]
            raise Shape("unknown name %s" % n.id)
        if isinstance(n, ast.Attribute) and isinstance(n.value, ast.Name):
            base, a = n.value.id, n.attr
            if base == "self" and ("self." + a) in env.loc:
                return env.loc["self." + a]
            bt, bk = env.loc.get(base, (None, None))
            if bk == "func" and a == "__name__":
                return ("(d_fname %s)" % bt, "str")
            if bk == "param" and a == "name":
                return ("(p_name %s)" % bt, "str")
            if bk == "param" and a == "kind":
                return ("(p_kind %s)" % bt, "kind")
            if bk == "param" and a in KINDS:
                return (KINDS[a], "kind")
            if bk == "state" and a in ("first", "is_default"):
                return ("(%s %s)" % ({"first": "s_first", "is_default": "s_default"}[a], bt), "bool")
            if bk == "state" and a == "description":
                return ("(s_desc %s)" % bt, "optstr")
        if isinstance(n, ast.Call):
            f = txt(n.func)
            args = n.args
            if f == "inspect.signature" and len(args) == 1 and not n.keywords and self.kind(args[0], env) == "func":
                return ("(d_params %s)" % self.value(args[0], env)[0], "sig")
            if f == "inspect.getdoc" and len(args) == 1 and not n.keywords and self.kind(args[0], env) == "func":
                return ("(d_doc %s)" % self.value(args[0], env)[0], "optstr")
            if isinstance(n.func, ast.Attribute) and n.func.attr == "values" and not args and not n.keywords \
                    and isinstance(n.func.value, ast.Attribute) and n.func.value.attr == "parameters" \
                    and self.kind(n.func.value.value, env) == "sig":
                return (self.value(n.func.value.value, env)[0], "params")
            if f == "type" and len(args) == 1 and txt(args[0]) == "self" and self.mode == "build":
                return ("mro", "cls")
            if f == "_get_class_members" and len(args) == 1 and not n.keywords and self.kind(args[0], env) == "cls":
                return ("(%s_class_members mro)" % self.p, "members")
            if f == "_StateData" and len(args) == 1 and not n.keywords and self.kind(args[0], env) == "state" and "@key" in env.loc:
                return env.loc["@key"]
            if f == "','.join" and len(args) == 1 and self.kind(args[0], env) == "list":
                return (self.value(args[0], env)[0], "joined")
            if f == "eval" and len(args) == 3 and self.kind(args[0], env) == "wrapper" and self.kind(args[1], env) == "varlist" \
                    and txt(args[1]) == txt(args[2]):
                return (self.value(args[0], env)[0], "list")
            if f == "tunable" and len(args) == 1 and self.kind(args[0], env) == "list":
                kw = {k.arg: k.value for k in n.keywords}
                if set(kw) - {"subtable", "writeDefault"} or txt(kw.get("subtable", ast.Constant(None))) != "'state'":
                    raise Shape("tunable call %s" % t)
                wd = "None"
                if "writeDefault" in kw:
                    if not (isinstance(kw["writeDefault"], ast.Constant) and isinstance(kw["writeDefault"].value, bool)):
                        raise Shape("tunable call %s" % t)
                    wd = "(Some %s)" % ("true" if kw["writeDefault"].value else "false")
                return ("(mk_tunable %s %s)" % (self.value(args[0], env)[0], wd), "tunable")
        if isinstance(n, ast.Dict) and not n.keys and self.mode == "build":
            return ("", "statesdict")       # states = {}: the per-instance table, not modelled
        if isinstance(n, ast.Dict) and len(n.keys) == 1 and txt(n.keys[0]) == "'f'" and self.kind(n.values[0], env) == "func":
            return ("", "varlist")
        if isinstance(n, ast.JoinedStr):
            for name, (term, kind) in env.loc.items():
                if kind == "joined" and t == WRAPPER % name:
                    return (term, "wrapper")
            raise Shape("f-string %s" % t[:80])
        if isinstance(n, ast.BoolOp) and isinstance(n.op, ast.Or) and len(n.values) == 2 and txt(n.values[1]) == "''" \
                and self.kind(n.values[0], env) == "optstr":
            return ('(match %s with Some t => t | None => "" end)' % self.value(n.values[0], env)[0], "str")
        if isinstance(n, (ast.Compare, ast.BoolOp)) or (isinstance(n, ast.UnaryOp) and isinstance(n.op, ast.Not)):
            return (self.bexpr(n, env), "bool")
        raise Shape("expression not recognised: %s" % t[:80])

    def kind(self, n, env):
        try:
            return self.value(n, env)[1]
        except Shape:
            return None

    def bexpr(self, n, env):
        t = txt(n)
        if isinstance(n, ast.BoolOp):
            if isinstance(n.op, ast.Or) and len(n.values) == 2:
                a, b = n.values
                if isinstance(a, ast.Call) and txt(a.func) == "hasattr" and len(a.args) == 2 and txt(a.args[0]) == "StateMachine" \
                        and isinstance(b, ast.Compare) and len(b.ops) == 1 and isinstance(b.ops[0], ast.In) \
                        and txt(b.comparators[0]) == "StateMachine.__annotations__" and txt(b.left) == txt(a.args[1]) \
                        and self.kind(b.left, env) == "str":
                    return "(mem %s reserved)" % self.value(b.left, env)[0]
            op = " && " if isinstance(n.op, ast.And) else " || "
            return "(" + op.join(self.bexpr(x, env) for x in n.values) + ")"
        if isinstance(n, ast.UnaryOp) and isinstance(n.op, ast.Not):
            return "(negb %s)" % self.bexpr(n.operand, env)
        if isinstance(n, ast.Compare) and len(n.ops) == 1:
            op, a, b = n.ops[0], n.left, n.comparators[0]
            (ta, ka), (tb, kb) = self.value(a, env), self.value(b, env)
            pos = isinstance(op, (ast.Eq, ast.Is, ast.In))
            r = None
            if isinstance(op, (ast.Eq, ast.NotEq)) and ka == kb == "nat":
                r = "(Nat.eqb %s %s)" % (ta, tb)
            elif isinstance(op, (ast.Eq, ast.NotEq)) and ka == kb == "str":
                r = "(String.eqb %s %s)" % (ta, tb)
            elif isinstance(op, (ast.Is, ast.IsNot)) and ka == kb == "kind":
                r = "(kind_eqb %s %s)" % (ta, tb)
            elif isinstance(op, (ast.Is, ast.IsNot)) and ka == "optstr" and tb == "None":
                return "(is_some %s)" % ta if isinstance(op, ast.IsNot) else "(negb (is_some %s))" % ta
            elif isinstance(op, (ast.In, ast.NotIn)) and ka == "str" and kb == "list":
                r = "(mem %s %s)" % (ta, tb)
            if r is not None:
                return r if pos else "(negb %s)" % r
        if isinstance(n, (ast.Name, ast.Attribute)) and self.kind(n, env) == "bool":
            return self.value(n, env)[0]
        raise Shape("condition not recognised: %s" % t[:80])

    def cond(self, n, env, kt, kf):
        if isinstance(n, ast.UnaryOp) and isinstance(n.op, ast.Not):
            return self.cond(n.operand, env, kf, kt)
        if isinstance(n, ast.Call) and txt(n.func) == "isinstance" and len(n.args) == 2 and txt(n.args[1]) == "_State" \
                and isinstance(n.args[0], ast.Name) and self.kind(n.args[0], env) == "member":
            e1 = env.copy()
            e1.loc[n.args[0].id] = ("s", "state")
            return "(match %s with MState s => %s | MOther => %s end)" % (env.loc[n.args[0].id][0], kt(e1), kf(env.copy()))
        if isinstance(n, ast.Name) and self.kind(n, env) == "list":
            return "(match %s with [] => %s | _ :: _ => %s end)" % (env.loc[n.id][0], kf(env.copy()), kt(env.copy()))
        return "(if %s then %s else %s)" % (self.bexpr(n, env), kt(env.copy()), kf(env.copy()))

    # ------------------------------------------------------------------ statements
    def raise_term(self, s, env):
        if not (isinstance(s.exc, ast.Call) and isinstance(s.exc.func, ast.Name)):
            raise Shape("raise %s" % txt(s)[:60])
        exc, args = s.exc.func.id, s.exc.args
        if self.mode == "build":
            m = {"MultipleFirstStatesError": "MultipleFirst", "MultipleDefaultStatesError": "MultipleDefault",
                 "NoFirstStateError": "NoFirst"}
            if exc in m:
                return "(Err %s)" % m[exc]
            raise Shape("raise %s" % exc)
        if exc == "InvalidStateName" and not self.in_loop:
            return "(Err EInvalidStateName)"
        if exc == "ValueError" and len(args) == 1:
            a = args[0]
            lit = None
            if isinstance(a, ast.JoinedStr) and a.values and isinstance(a.values[0], ast.Constant):
                lit = a.values[0].value
            if lit is not None and self.in_loop:
                for pre, ctor in SIG_MSG:
                    if lit.startswith(pre):
                        return "(Err %s)" % ctor
            if not self.in_loop and isinstance(a, ast.Call) and isinstance(a.func, ast.Attribute) and a.func.attr == "format" \
                    and isinstance(a.func.value, ast.Constant) and str(a.func.value.value).startswith("Invalid parameter names in") \
                    and len(a.args) == 2 and isinstance(a.args[1], ast.Call) and txt(a.args[1].func) == "','.join" \
                    and len(a.args[1].args) == 1 and self.kind(a.args[1].args[0], env) == "list":
                return "(Err (ESig (ErrInvalidNames %s)))" % self.value(a.args[1].args[0], env)[0]
        raise Shape("raise not recognised: %s" % txt(s)[:80])

    def run(self, stmts, env, k_fall, k_next=None):
        if not stmts:
            return k_fall(env)
        s, rest = stmts[0], stmts[1:]

        def go(e):
            return self.run(rest, e, k_fall, k_next)
        if isinstance(s, ast.Expr) and isinstance(s.value, ast.Constant) and isinstance(s.value.value, str):
            return go(env)
        if isinstance(s, ast.AnnAssign) and s.value is None:
            return go(env)
        if isinstance(s, ast.AnnAssign) and s.simple == 0 or isinstance(s, ast.AnnAssign) and isinstance(s.target, ast.Name):
            s = ast.copy_location(ast.Assign(targets=[s.target], value=s.value), s)      # x: T = e  is  x = e
        if isinstance(s, ast.Continue) and k_next is not None:
            return k_next(env)
        if isinstance(s, ast.Raise):
            return self.raise_term(s, env)
        if isinstance(s, ast.If):
            return self.cond(s.test, env, lambda e: self.run(list(s.body) + rest, e, k_fall, k_next),
                             lambda e: self.run(list(s.orelse) + rest, e, k_fall, k_next))
        if isinstance(s, ast.For):
            if self.in_loop or self.loops:
                raise Shape("more than one loop")
            return self.loop(s, env, rest, k_fall)
        if isinstance(s, ast.Expr) and isinstance(s.value, ast.Call) and isinstance(s.value.func, ast.Attribute) \
                and s.value.func.attr == "append" and isinstance(s.value.func.value, ast.Name) and len(s.value.args) == 1 \
                and not s.value.keywords:
            x = s.value.func.value.id
            if env.loc.get(x, (None, None))[1] != "list":
                raise Shape("append to %s" % x)
            t, k = self.value(s.value.args[0], env)
            if k != "str":
                raise Shape("append of a %s" % k)
            e = env.copy()
            e.loc[x] = ("(%s ++ [%s])" % (env.loc[x][0], t), "list")
            return go(e)
        if isinstance(s, ast.Assign) and len(s.targets) == 1:
            tg = s.targets[0]
            e = env.copy()
            if isinstance(tg, ast.Name):
                t, k = self.value(s.value, env)
                old = env.loc.get(tg.id)
                if old is not None and old[1] == "optstr" and k == "str":
                    t, k = "(Some %s)" % t, "optstr"        # a variable that was None now holds a value
                if self.in_loop and old is not None and old[1] != k:
                    raise Shape("%s changes its kind in the loop (%s -> %s)" % (tg.id, old[1], k))
                e.loc[tg.id] = (t, k)
                return go(e)
            if isinstance(tg, ast.Subscript) and self.mode == "build" and self.in_loop and txt(tg.value) == "states" \
                    and self.value(tg.slice, env) == env.loc.get("@key") and self.value(s.value, env) == env.loc.get("@key"):
                return go(env)          # states[name] = state_data: not modelled
            if isinstance(tg, ast.Attribute) and isinstance(tg.value, ast.Name):
                base, a = tg.value.id, tg.attr
                if self.mode == "init" and base == "self" and not self.in_loop:
                    want = {"name": "str", "description": "optstr", "first": "bool", "must_finish": "bool", "is_default": "bool",
                            "duration": "duration", "run": "list"}
                    if a in want:
                        t, k = self.value(s.value, env)
                        if k != want[a]:
                            raise Shape("self.%s = %s (a %s)" % (a, txt(s.value)[:40], k))
                        e.fields[a] = t
                        return go(e)
                if self.mode == "build" and base == "self" and a == "__first":
                    t, k = self.value(s.value, env)
                    if k != "str":
                        raise Shape("self.__first = a %s" % k)
                    e.loc["self.__first"] = ("(Some %s)" % t, "optstr")
                    return go(e)
                if self.mode == "build" and not self.in_loop and base == "self" and a == "__default_state":
                    t, k = self.value(s.value, env)
                    if k != "optstr":
                        raise Shape("self.__default_state = a %s" % k)
                    e.fields["default"] = t
                    return go(e)
                if self.mode == "build" and not self.in_loop and base == "self" and a in ("__should_engage", "__engaged", "__states", "__state", "__start"):
                    return go(env)
                if self.mode == "build" and not self.in_loop and self.kind(tg.value, env) == "cls" and a in ("state_names", "state_descriptions"):
                    t, k = self.value(s.value, env)
                    if k != "tunable":
                        raise Shape("%s = a %s" % (txt(tg), k))
                    e.fields[a] = t
                    return go(e)
            raise Shape("assignment not recognised (line %d): %s" % (s.lineno, txt(s)[:80]))
        raise Shape("statement not recognised (line %d): %s" % (getattr(s, "lineno", 0), txt(s)[:80]))

    # ------------------------------------------------------------------ the loop
    def loop(self, s, env, rest, k_fall):
        self.loops += 1
        if s.orelse or not isinstance(s.target, ast.Tuple) or len(s.target.elts) != 2 or \
                not all(isinstance(x, ast.Name) for x in s.target.elts):
            raise Shape("loop header %s" % txt(s.target))
        a, b = s.target.elts[0].id, s.target.elts[1].id
        it = s.iter
        e = env.copy()
        if self.mode == "init" and isinstance(it, ast.Call) and txt(it.func) == "enumerate" and len(it.args) == 1 and not it.keywords \
                and self.kind(it.args[0], env) == "params":
            items, name, ityp, pat, index = self.value(it.args[0], env)[0], "%s_sig_loop" % self.p, "list param", "arg", a
            e.loc[a] = ("i", "nat")
            e.loc[b] = ("arg", "param")
            rtyp = "sigerr"
        elif self.mode == "build" and isinstance(it, ast.Call) and isinstance(it.func, ast.Attribute) and it.func.attr == "items" \
                and not it.args and self.kind(it.func.value, env) == "members":
            items, name, ityp, pat, index = self.value(it.func.value, env)[0], "%s_build_loop" % self.p, "dict member", "(key, m)", None
            e.loc[a] = ("key", "str")
            e.loc["@key"] = ("key", "str")
            e.loc[b] = ("m", "member")
            rtyp = "builderr"
        else:
            raise Shape("loop over %s" % txt(it)[:80])
        # what the body changes: locals that exist before the loop, self.__first
        changed = []
        for node in ast.walk(ast.Module(body=list(s.body), type_ignores=[])):
            if isinstance(node, ast.Assign):
                for tg in node.targets:
                    if isinstance(tg, ast.Name) and tg.id in env.loc and tg.id not in changed:
                        changed.append(tg.id)
                    if isinstance(tg, ast.Attribute) and txt(tg) == "self.__first" and "self.__first" not in changed:
                        changed.append("self.__first")
            if isinstance(node, ast.Call) and isinstance(node.func, ast.Attribute) and node.func.attr == "append" \
                    and isinstance(node.func.value, ast.Name) and node.func.value.id not in changed:
                changed.append(node.func.value.id)
            if isinstance(node, (ast.AugAssign, ast.For, ast.While, ast.Try, ast.With, ast.Delete, ast.Return, ast.Break)):
                raise Shape("%s inside the loop" % type(node).__name__)
        carried = [x for x in list(env.loc) + ["self.__first"] if x in changed]
        if sorted(carried) != sorted(changed):
            raise Shape("the loop assigns %s which is not defined before it" % sorted(set(changed) - set(carried)))
        if "self.__first" in carried and "self.__first" not in env.loc:
            env = env.copy()
            env.loc["self.__first"] = ("None", "optstr")
        for x in carried:
            if env.loc[x][1] not in TYPES:
                raise Shape("loop-carried %s is a %s" % (x, env.loc[x][1]))
            e.loc[x] = (v(x.replace("self.", "")), env.loc[x][1])
        idx = " i" if index else ""

        def k_next(en):
            return "(%s rest%s %s)" % (name, " (S i)" if index else "", " ".join(paren(en.loc[x][0]) for x in carried))
        self.in_loop = True
        body = self.run(list(s.body), e, k_next, k_next)
        self.in_loop = False
        tup = ", ".join(e.loc[x][0] for x in carried)
        self.defs.append("Fixpoint %s (items : %s)%s %s {struct items} : result (%s) %s :=\n  match items with\n  | [] => Ok (%s)\n"
                         "  | %s :: rest => %s\n  end." % (
                             name, ityp, " (i : nat)" if index else "",
                             " ".join("(%s : %s)" % (e.loc[x][0], TYPES[e.loc[x][1]]) for x in carried),
                             " * ".join(TYPES[e.loc[x][1]] for x in carried), rtyp, tup, pat, body))
        after = env.copy()
        for x in carried:
            after.loc[x] = e.loc[x]
        for x in (a, b, "@key"):
            after.loc.pop(x, None)
        call = "%s %s%s %s" % (name, paren(items), " 0" if index else "", " ".join(paren(env.loc[x][0]) for x in carried))
        return "(match %s with\n  | Err e => Err %s\n  | Ok (%s) => %s\n  end)" % (
            call, "(ESig e)" if self.mode == "init" else "e", tup, self.run(rest, after, k_fall))


def paren(t):
    t = t.strip()
    return t if (" " not in t or (t.startswith("(") and t.endswith(")") and balanced(t))) else "(%s)" % t


def balanced(t):
    d = 0
    for i, c in enumerate(t):
        d += c == "("
        d -= c == ")"
        if d == 0 and i < len(t) - 1:
            return False
    return True


# ---------------------------------------------------------------------- the three functions
def find(tree, cls, fn):
    body = tree.body
    if cls:
        cs = [n for n in body if isinstance(n, ast.ClassDef) and n.name == cls]
        if len(cs) != 1:
            raise Shape("class %s not found" % cls)
        body = cs[0].body
    fs = [n for n in body if isinstance(n, ast.FunctionDef) and n.name == fn]
    if len(fs) != 1 or fs[0].decorator_list:
        raise Shape("function %s.%s not found / decorated" % (cls, fn))
    return fs[0]


def init_state(tree, p):
    fn = find(tree, "_State", "__init__")
    a = fn.args
    if [x.arg for x in a.args] != ["self", "f", "first", "must_finish"] or [x.arg for x in a.kwonlyargs] != ["duration", "is_default"] \
            or a.vararg or a.kwarg or a.posonlyargs or [txt(d) for d in a.defaults] != ["False", "False"] \
            or [txt(d) for d in a.kw_defaults] != ["None", "False"]:
        raise Shape("_State.__init__ has parameters %s" % txt(a))
    tr = Tr(p, "init")
    env = Env()
    env.loc.update({"f": ("d", "func"), "first": ("first", "bool"), "must_finish": ("must_finish", "bool"),
                    "duration": ("timed", "duration"), "is_default": ("is_default", "bool")})

    def fall(e):
        need = ["name", "description", "first", "must_finish", "is_default", "duration", "run"]
        miss = [x for x in need if x not in e.fields]
        if miss:
            raise Shape("_State.__init__ does not set %s" % miss)
        f = e.fields
        return ("(Ok {| s_name := %s; s_desc := %s; s_first := %s; s_must_finish := %s; s_default := %s; s_timed := %s; s_args := %s |})"
                % (f["name"], f["description"], f["first"], f["must_finish"], f["is_default"], f["duration"], f["run"]))
    body = tr.run(list(fn.body), env, fall)
    if tr.loops != 1:
        raise Shape("_State.__init__ has no signature loop")
    return tr.defs + ["Definition %s_init_state (reserved : list string) (d : decl) (first must_finish timed is_default : bool)\n"
                      "  : result sdata deferr :=\n  %s." % (p, body)]


def class_members(tree, p):
    fn = find(tree, None, "_get_class_members")
    body = [s for s in fn.body if not (isinstance(s, ast.Expr) and isinstance(s.value, ast.Constant))]
    if [x.arg for x in fn.args.args] != ["cls"] or len(body) != 3 or not isinstance(body[1], ast.For):
        raise Shape("_get_class_members is not `d = {}; for ..: ..; return d`")
    d = body[0].targets[0].id if isinstance(body[0], ast.Assign) and isinstance(body[0].targets[0], ast.Name) else None
    lp = body[1]
    c = lp.target.id if isinstance(lp.target, ast.Name) else None
    if d is None or c is None or txt(body[0].value) != "{}" or txt(lp.iter) != "reversed(cls.__mro__)" or lp.orelse \
            or len(lp.body) != 1 or txt(lp.body[0]) != "%s.update(%s.__dict__)" % (d, c) or txt(body[2]) != "return %s" % d:
        raise Shape("_get_class_members: %s" % txt(fn)[:200])
    return ["Definition %s_class_members (mro : list (dict member)) : dict member :=\n  fold_left (fun d c => dict_update d c) (rev mro) []." % p]


def build_states(tree, p):
    fn = find(tree, "StateMachine", "_build_states")
    if [x.arg for x in fn.args.args] != ["self"] or fn.args.kwonlyargs or fn.args.vararg or fn.args.kwarg:
        raise Shape("_build_states has parameters %s" % txt(fn.args))
    tr = Tr(p, "build")
    env = Env()

    def fall(e):
        miss = [x for x in ("state_names", "state_descriptions", "default") if x not in e.fields]
        if miss or "self.__first" not in e.loc:
            raise Shape("_build_states does not set %s" % (miss or "self.__first"))
        import re
        m1 = re.match(r"^\(mk_tunable (.*) (None|\(Some (?:true|false)\))\)$", e.fields["state_names"])
        m2 = re.match(r"^\(mk_tunable (.*) (None|\(Some (?:true|false)\))\)$", e.fields["state_descriptions"])
        return ("(Ok ({| r_first := attr_or_unset %s; r_default := %s; r_names := %s; r_descs := %s |}, %s, %s))"
                % (paren(e.loc["self.__first"][0]), e.fields["default"], m1.group(1), m2.group(1),
                   e.fields["state_names"], e.fields["state_descriptions"]))
    body = tr.run(list(fn.body), env, fall)
    if tr.loops != 1:
        raise Shape("_build_states has no loop over the class members")
    return tr.defs + ["Definition %s_build_states (mro : list (dict member)) : result (built * tunable * tunable) builderr :=\n  %s." % (p, body)]

# ---------------------------------------------------------------------- the three decorators
def state_call(n, p, scope, fvar):
    """_State(f, first, must_finish, duration=.., is_default=..) -> <p>_init_state reserved f first must_finish timed is_default"""
    if not (isinstance(n, ast.Call) and txt(n.func) == "_State"):
        raise Shape("not a _State(..) call: %s" % txt(n)[:60])
    got = {}
    for name, a in zip(["f", "first", "must_finish"], n.args):
        got[name] = a
    if len(n.args) > 3 or any(isinstance(a, ast.Starred) for a in n.args):
        raise Shape("_State call %s" % txt(n))
    for k in n.keywords:
        if k.arg not in ("f", "first", "must_finish", "duration", "is_default") or k.arg in got:
            raise Shape("_State call %s" % txt(n))
        got[k.arg] = k.value
    if "f" not in got or txt(got["f"]) != fvar:
        raise Shape("_State call without the decorated function: %s" % txt(n))

    def b(x, default):
        if x not in got:
            return default
        a = got[x]
        if isinstance(a, ast.Constant) and isinstance(a.value, bool):
            return "true" if a.value else "false"
        if isinstance(a, ast.Name) and scope.get(a.id) == "bool":
            return a.id
        if x == "duration" and isinstance(a, ast.Name) and scope.get(a.id) == "number":
            return "true"           # a duration is passed on: duration is not None
        raise Shape("_State(.. %s=%s ..)" % (x, txt(a)))
    return "(%s_init_state reserved g %s %s %s %s)" % (p, b("first", "false"), b("must_finish", "false"), b("duration", "false"),
                                                      b("is_default", "false"))


def nodoc(body):
    return [s for s in body if not (isinstance(s, ast.Expr) and isinstance(s.value, ast.Constant))]


def find_plain(tree, fn):
    fs = [n for n in tree.body if isinstance(n, ast.FunctionDef) and n.name == fn and not n.decorator_list]
    if len(fs) != 1:
        raise Shape("function %s not found (once, undecorated)" % fn)
    return fs[0]


def decorators(tree, p):
    out = []
    # def state(f=None, *, first=False, must_finish=False): if f is None: return lambda f: _State(..) ; return _State(..)
    fn = find_plain(tree, "state")
    a, body = fn.args, nodoc(fn.body)
    if [x.arg for x in a.args] != ["f"] or [x.arg for x in a.kwonlyargs] != ["first", "must_finish"] or a.vararg or a.kwarg \
            or [txt(d) for d in a.defaults] != ["None"] or [txt(d) for d in a.kw_defaults] != ["False", "False"]:
        raise Shape("state has parameters %s" % txt(a))
    sc = {"first": "bool", "must_finish": "bool"}
    if len(body) != 2 or not isinstance(body[0], ast.If) or txt(body[0].test) != "f is None" or body[0].orelse or len(body[0].body) != 1 \
            or not isinstance(body[0].body[0], ast.Return) or not isinstance(body[0].body[0].value, ast.Lambda) \
            or not isinstance(body[1], ast.Return):
        raise Shape("state is not `if f is None: return lambda f: _State(..)` + `return _State(..)`")
    lam = body[0].body[0].value
    if [x.arg for x in lam.args.args] != ["f"] or lam.args.kwonlyargs or lam.args.vararg or lam.args.kwarg or lam.args.defaults:
        raise Shape("state: lambda %s" % txt(lam)[:60])
    out.append("Definition %s_state_fn (reserved : list string) (f : option decl) (first must_finish : bool) : state_ret :=\n"
               "  match f with\n  | None => RDecorator (fun g => %s)\n  | Some g => RWrapper %s\n  end."
               % (p, state_call(lam.body, p, sc, "f"), state_call(body[1].value, p, sc, "f")))
    # def timed_state(*, duration, next_state=None, first=False, must_finish=False): def decorator(f): w = _State(..); w.next_state = next_state; return w
    fn = find_plain(tree, "timed_state")
    a, body = fn.args, nodoc(fn.body)
    if a.args or [x.arg for x in a.kwonlyargs] != ["duration", "next_state", "first", "must_finish"] or a.vararg or a.kwarg \
            or [d if d is None else txt(d) for d in a.kw_defaults] != [None, "None", "False", "False"]:
        raise Shape("timed_state has parameters %s" % txt(a))
    sc = {"first": "bool", "must_finish": "bool", "duration": "number"}
    if len(body) != 2 or not isinstance(body[0], ast.FunctionDef) or body[0].decorator_list or not isinstance(body[1], ast.Return) \
            or txt(body[1].value) != body[0].name or [x.arg for x in body[0].args.args] != ["f"] or body[0].args.kwonlyargs \
            or body[0].args.vararg or body[0].args.kwarg or body[0].args.defaults:
        raise Shape("timed_state is not `def decorator(f): ..` + `return decorator`")
    inner = nodoc(body[0].body)
    if len(inner) == 1 and isinstance(inner[0], ast.Return):
        call = inner[0].value
    elif len(inner) in (2, 3) and isinstance(inner[0], ast.Assign) and len(inner[0].targets) == 1 and isinstance(inner[0].targets[0], ast.Name) \
            and isinstance(inner[-1], ast.Return) and txt(inner[-1].value) == inner[0].targets[0].id \
            and (len(inner) == 2 or txt(inner[1]) == "%s.next_state = next_state" % inner[0].targets[0].id):
        call = inner[0].value
    else:
        raise Shape("timed_state.decorator: %s" % txt(body[0])[:120])
    out.append("Definition %s_timed_state_fn (reserved : list string) (first must_finish : bool) : decl -> result sdata deferr :=\n"
               "  fun g => %s." % (p, state_call(call, p, sc, "f")))
    # def default_state(f): return _State(f, first=False, must_finish=True, is_default=True)
    fn = find_plain(tree, "default_state")
    a, body = fn.args, nodoc(fn.body)
    if [x.arg for x in a.args] != ["f"] or a.kwonlyargs or a.vararg or a.kwarg or a.defaults or len(body) != 1 or not isinstance(body[0], ast.Return):
        raise Shape("default_state is not `def default_state(f): return _State(..)`")
    out.append("Definition %s_default_state_fn (reserved : list string) (g : decl) : result sdata deferr :=\n  %s."
               % (p, state_call(body[0].value, p, {}, "f")))
    return out


def definitions(repo, p):
    tree = ast.parse(open(os.path.join(repo, PATH)).read())
    out = ["(* state_machine.py: _State.__init__ *)"] + init_state(tree, p)
    out += ["(* state_machine.py: state / timed_state / default_state *)"] + decorators(tree, p)
    out += ["(* state_machine.py: _get_class_members *)"] + class_members(tree, p)
    out += ["(* state_machine.py: StateMachine._build_states *)"] + build_states(tree, p)
    return out


def reference(repo):
    return "\n".join(definitions(repo, "ref"))


HEADER = ("From Coq Require Import List String Bool Arith.\nImport ListNotations.\nOpen Scope string_scope.\nOpen Scope list_scope.\n"
          "From RV Require Import Defs.Model Defs.SrcDefs Defs.SrcDefsProofs.\n")


def coq(repo):
    L = [HEADER] + definitions(repo, "gen")
    L.append(r"""
Lemma regen_sig_loop : forall ps i a b, gen_sig_loop ps i a b = ref_sig_loop ps i a b.
Proof. first [ reflexivity | induction ps as [|p r IH]; intros i a b; cbn [gen_sig_loop ref_sig_loop]; rewrite ?IH; reflexivity ]. Qed.
Lemma regen_init_state : forall reserved d first must_finish timed is_default,
  gen_init_state reserved d first must_finish timed is_default = ref_init_state reserved d first must_finish timed is_default.
Proof. first [ reflexivity | intros; unfold gen_init_state, ref_init_state; rewrite regen_sig_loop; reflexivity ]. Qed.
Lemma regen_state_fn : forall reserved f first must_finish, gen_state_fn reserved f first must_finish = ref_state_fn reserved f first must_finish.
Proof. reflexivity. Qed.
Lemma regen_timed_state_fn : forall reserved first must_finish g,
  gen_timed_state_fn reserved first must_finish g = ref_timed_state_fn reserved first must_finish g.
Proof. reflexivity. Qed.
Lemma regen_default_state_fn : forall reserved g, gen_default_state_fn reserved g = ref_default_state_fn reserved g.
Proof. reflexivity. Qed.
Lemma regen_class_members : forall mro, gen_class_members mro = ref_class_members mro.
Proof. reflexivity. Qed.
Lemma regen_build_states : forall mro, gen_build_states mro = ref_build_states mro.
Proof. reflexivity. Qed.

(* so the definitions of state_machine.py, as the source has them now, ARE the model's *)
Theorem src_init_state_is_model : forall reserved d first must_finish timed is_default,
  gen_init_state reserved d first must_finish timed is_default = init_state reserved d first must_finish timed is_default.
Proof. intros; rewrite regen_init_state; apply ref_init_state_spec. Qed.
Theorem src_sig_loop_is_model : forall ps i a b, gen_sig_loop ps i a b = sig_loop i ps a b.
Proof. intros; rewrite regen_sig_loop; apply ref_sig_loop_spec. Qed.
(* the three decorators: with the function the wrapper (or the exception) of the model, without it a decorator that gives
   on every function what the model's gives *)
Theorem src_decorators_are_model : forall reserved first must_finish g,
  gen_state_fn reserved (Some g) first must_finish = state_fn reserved (Some g) first must_finish /\
  (exists dec, gen_state_fn reserved None first must_finish = RDecorator dec /\
     forall g', match state_fn reserved None first must_finish with
                | RDecorator dec' => dec g' = dec' g'
                | RWrapper _ => False
                end) /\
  gen_timed_state_fn reserved first must_finish g = timed_state_fn reserved first must_finish g /\
  gen_default_state_fn reserved g = default_state_fn reserved g.
Proof.
  intros. rewrite regen_state_fn, regen_timed_state_fn, regen_default_state_fn.
  destruct (ref_decorators_spec reserved first must_finish g) as (A & [dec [B C]] & D & E).
  repeat split; try assumption. exists dec. rewrite regen_state_fn. split; assumption.
Qed.
Theorem src_class_members_is_model : forall mro, gen_class_members mro = class_members mro.
Proof. intros; rewrite regen_class_members; apply ref_class_members_spec. Qed.
Theorem src_build_states_is_model : forall mro,
  gen_build_states mro = match build_states mro with
                         | Ok r => Ok (r, names_tunable r, descs_tunable r)
                         | Err e => Err e
                         end.
Proof. intros; rewrite regen_build_states; apply ref_build_states_spec. Qed.
Print Assumptions src_init_state_is_model.
Print Assumptions src_sig_loop_is_model.
Print Assumptions src_decorators_are_model.
Print Assumptions src_class_members_is_model.
Print Assumptions src_build_states_is_model.
""")
    return "\n".join(L)


def obligation(ctx):
    from .common import REPO
    name = "regen:state_machine.py definitions (_State.__init__, _get_class_members, _build_states have the shape the translator recognises)"
    try:
        text = coq(REPO)
    except Shape as e:
        ctx.obligation(name, False, str(e))
        return False
    except (SyntaxError, OSError, KeyError, IndexError, AttributeError, TypeError) as e:
        ctx.obligation(name, False, repr(e))
        return False
    ctx.obligation(name, True, "")
    rc, out = ctx.coq_file("Gen_defs", text)
    ok = rc == 0 and out.count("Closed under the global context") == 5
    ctx.obligation("regen:Gen_defs (_State.__init__ / _get_class_members / _build_states translated from the source == Defs.Model."
                   "init_state / class_members / build_states for every input; Defs/SrcDefsProofs.v)", ok, out[-1500:])
    return ok


if __name__ == "__main__":
    import sys
    a = sys.argv[1:]
    if a and a[0] == "--ref":
        print(reference(a[1] if len(a) > 1 else "/repo"))
    else:
        print(coq(a[0] if a else "/repo"))
