"""Shared by C05 C06 C07 C10 C11: generator of robot layouts / tick histories / fault and
assignment scripts, parallel runner of harness/robot_driver.py (one process per robot), emission
of Robot.Corr cases, and the property oracles over implementation logs."""
import json
import os
import subprocess
import sys
from concurrent.futures import ThreadPoolExecutor

from .common import ROOT, REPO, CORPUS, coq_Z, coq_bool, coq_list, coq_nat, coq_opt, parse_eval_lists, shards

P_US = 20000
MODES = ["Disabled", "Auto", "Teleop", "Test"]
NT_MODE = {"disabled": "Disabled", "auto": "Auto", "teleop": "Teleop", "test": "Test"}


# ----------------------------------------------------------------------------------
def dispatch(t):
    en, au, te = t
    if not en:
        return "Disabled"
    if au:
        return "Auto"
    if te:
        return "Test"
    return "Teleop"


def stays(m, t):
    en, au, te = t
    return {"Disabled": not en, "Auto": bool(en and au), "Teleop": bool(en and not au and not te), "Test": bool(te and en)}[m]


def spec_sites(case, upto=None):
    """The fault-free call sequence (python mirror of Robot.Model.spec_sites), with tick boundaries."""
    n = case["ncomp"]
    comps = case["comps"]
    fbs = [["Feedback", j] for j in range(len(case["fb_owners"]))] + [["RobotPeriodic"]]
    execs = [["Execute", i] for i in range(n)]
    en_ = [["OnEnable", i] for i in range(n) if comps[i]["has_enable"]]
    dis = [["OnDisable", i] for i in range(n) if comps[i]["has_disable"]]
    auto = case["has_auto"]

    def enter(m):
        return {"Disabled": dis + [["Init", "Disabled"]],
                "Auto": en_ + [["Init", "Auto"]] + ([["AutoEnable"]] if auto else []),
                "Teleop": en_ + [["Init", "Teleop"]],
                "Test": [["Init", "Test"]]}[m]

    def it(m):
        return {"Disabled": [["Periodic", "Disabled"]] + fbs,
                "Auto": ([["AutoIter"]] if auto else []) + ([["Periodic", "Teleop"]] if case["teleop_in_auto"] else []) + execs + fbs,
                "Teleop": [["Periodic", "Teleop"]] + execs + fbs,
                "Test": [["Periodic", "Test"]] + fbs}[m]

    def leave(m):
        return {"Disabled": [], "Test": [], "Teleop": dis, "Auto": ([["AutoDisable"]] if auto else []) + dis}[m]
    blocks = [[["Setup", i] for i in range(n) if comps[i]["has_setup"]]]
    modes = [None]
    cur = None
    for t in case["ticks"]:
        if t == "end":
            blocks.append(leave(cur) if cur else [])
            modes.append(None)
            break
        if t[0] == "fms":           # FMS attached / detached between two passes: nothing runs
            blocks.append([])
            modes.append(None)
            continue
        if cur is not None and stays(cur, t):
            blocks.append(it(cur))
        else:
            new = dispatch(t)
            blocks.append((leave(cur) if cur else []) + enter(new) + it(new))
            cur = new
        modes.append(cur)
    return blocks, modes


def spec_iter_len(case, mode):
    """the callbacks of one pass of the given mode (python mirror of Robot.Model.iter_sites)"""
    n = case["ncomp"]
    fbs = [0] * (len(case["fb_owners"]) + 1)
    if mode == "Auto":
        return ([0] if case["has_auto"] else []) + ([0] if case["teleop_in_auto"] else []) + [0] * n + fbs
    if mode == "Teleop":
        return [0] + [0] * n + fbs
    return [0] + fbs


def site_fms(case):
    """The FMS state in force at every call of the specified sequence (python mirror of Robot.Mixed.spec_fms)."""
    blocks, _ = spec_sites(case)
    v = bool(case["fms"])
    flags = [v] * len(blocks[0])
    for t, b in zip(case["ticks"], blocks[1:]):
        if t != "end" and t[0] == "fms":
            v = bool(t[1])
        flags += [v] * len(b)
    return flags


def gen_case(r, pid=None):
    ncomp = r.choice([0, 1, 1, 2, 2, 3, 3, 4])
    comps = [dict(has_setup=r.random() < 0.7, has_enable=r.random() < 0.75, has_disable=r.random() < 0.75,
                  inherit=r.random() < 0.4, redeclare=r.random() < 0.5, preassign=r.random() < 0.3,
                  sm=r.random() < 0.25, hook=r.random() < 0.25, static_hooks=r.random() < 0.2) for _ in range(ncomp)]
    # a second (third ...) component of the same class as an earlier one (left / right shooter)
    for j in range(1, ncomp):
        if r.random() < 0.2:
            i0 = r.randrange(j)
            while comps[i0].get("same_as") is not None:
                i0 = comps[i0]["same_as"]
            comps[j] = dict(comps[i0], same_as=i0)
    # a component whose class is derived from an earlier component's class (thermal: ThermalSensor(Sensor) declared after
    # left: Sensor): it inherits the base component's hooks and feedback getters and adds its own
    for j in range(1, ncomp):
        if (comps[j].get("same_as") is None and not comps[j]["sm"] and not any(c_.get("same_as") == j for c_ in comps)
                and r.random() < 0.25):
            cands_ = [i for i in range(j) if comps[i].get("same_as") is None and not comps[i]["sm"] and not comps[i]["preassign"]
                      and not comps[i]["hook"] and not comps[i]["static_hooks"] and comps[i].get("derives_from") is None]
            if cands_:
                i0 = r.choice(cands_)
                comps[j]["derives_from"] = i0
                comps[j]["static_hooks"] = False
                for h_ in ("has_setup", "has_enable", "has_disable"):
                    comps[j][h_] = comps[j][h_] or comps[i0][h_]
    nfb_robot = r.choice([0, 0, 1, 2])
    fb_owners = [-1] * nfb_robot
    fb_fn = list(range(nfb_robot))
    own = {}
    for i in range(ncomp):
        src = comps[i].get("same_as")
        if src is None and comps[i].get("derives_from") is not None:
            k_ = r.choice([0, 1, 1, 2])
            base_ = own[comps[i]["derives_from"]]
            new_ = list(range(len(fb_owners) + len(base_), len(fb_owners) + len(base_) + k_))
            own[i] = base_ + new_          # the inherited getters (the base component's functions) sort before the new ones
            fb_fn += own[i]
            fb_owners += [i] * len(own[i])
        elif src is None:
            k_ = r.choice([0, 0, 1, 1, 2, 3])
            own[i] = list(range(len(fb_owners), len(fb_owners) + k_))
            fb_fn += own[i]
            fb_owners += [i] * k_
        else:
            own[i] = own[src]
            fb_fn += own[src]          # the same getter functions, called on another instance
            fb_owners += [i] * len(own[src])
    nattr = r.choice([1, 2, 2, 3]) if ncomp else 0
    marked = {}
    for i in range(ncomp):
        for a in range(nattr):
            src = comps[i].get("same_as")
            if src is not None:
                if "%d,%d" % (src, a) in marked:
                    marked["%d,%d" % (i, a)] = marked["%d,%d" % (src, a)]
            elif r.random() < 0.5:
                marked["%d,%d" % (i, a)] = r.choice([0, 1, 7, -3, 50])
    for j in range(ncomp):
        i0 = comps[j].get("derives_from")
        if i0 is not None and comps[j].get("same_as") is None:
            # the even attributes of a derived component class are inherited from the parent component's class
            for a in range(0, nattr, 2):
                if "%d,%d" % (i0, a) in marked:
                    marked["%d,%d" % (j, a)] = marked["%d,%d" % (i0, a)]
                else:
                    marked.pop("%d,%d" % (j, a), None)
    for j in range(ncomp):
        src = comps[j].get("same_as")
        if src is not None:
            for a in range(nattr):
                if "%d,%d" % (src, a) in marked:
                    marked["%d,%d" % (j, a)] = marked["%d,%d" % (src, a)]
                else:
                    marked.pop("%d,%d" % (j, a), None)
    fms = r.random() < 0.7
    comp_root = ncomp >= 2 and r.random() < 0.35
    # ticks
    ticks = []
    words = [(0, 0, 0), (1, 0, 0), (1, 1, 0), (1, 0, 1), (0, 1, 0), (0, 0, 1), (0, 1, 1), (1, 1, 1)]
    weights = [4, 5, 5, 3, 1, 1, 0.5, 0.5]
    L = r.randrange(5, 41)
    while len(ticks) < L:
        w = r.choices(words, weights)[0]
        dwell = r.choice([1, 1, 2, 2, 3, 4, 6])
        ticks += [list(w)] * dwell
    ticks = ticks[:L]
    # the FMS gets attached / detached while the robot runs (never as the first tick, which is the
    # word the robot starts with, and never right before "end": endCompetition() does not refresh
    # the control word)
    nchg = 0
    if len(ticks) >= 3 and r.random() < {"C07": 0.6}.get(pid, 0.3):
        cur_f = fms
        for pos in sorted(set(r.randrange(1, len(ticks)) for _ in range(r.choice([1, 1, 2, 3])))):
            cur_f = (not cur_f) if r.random() < 0.85 else cur_f
            ticks.insert(pos + nchg, ["fms", int(cur_f)])
            nchg += 1
    if r.random() < 0.6:
        cut = r.randrange(1, len(ticks) + 1)
        while cut > 1 and ticks[cut - 1][0] == "fms":
            cut -= 1
        ticks = ticks[:cut] + ["end"]
    case = dict(ncomp=ncomp, comps=comps, fb_owners=fb_owners, fb_fn=fb_fn, teleop_in_auto=r.random() < 0.4,
                has_auto=r.random() < 0.7, auto_falsy=r.random() < 0.3, fms=fms, nattr=nattr, marked=marked,
                match_type=r.choice([None, None, "kPractice", "kQualification", "kElimination"]),
                auto_selector=r.choice([None, None, None, "scale_left_2018", "m", ""]),
                robot_split=(r.randrange(0, ncomp + 1) if ncomp and r.random() < 0.3 else 0),
                ticks=ticks, raises=[], writes={}, fbval={}, comp_root=comp_root, fb_anon=r.random() < 0.3)
    # in every other robot some of the unmarked attributes are INJECTED variables (annotated `a1: int`, value from the robot's
    # `c00_a1`) instead of plain class attributes: user code reassigns them like any other attribute
    case["inj_attrs"] = (ncomp + nattr + len(ticks)) % 2 == 0
    # some control words arrive while the previous pass is still running (not while the loop sleeps): they count from the
    # top of the next pass all the same
    if r.random() < 0.35:
        cand_ = [ti for ti in range(2, len(ticks)) if isinstance(ticks[ti], list) and ticks[ti][0] != "fms"
                 and isinstance(ticks[ti - 1], list) and ticks[ti - 1][0] != "fms"]
        r.shuffle(cand_)
        case["early_word"] = sorted(cand_[:r.choice([1, 2, 4])])
    blocks, _ = spec_sites(case)
    flat = [s for b in blocks for s in b]
    total = len(flat)
    # faults: never in setup (unguarded by design, outside C07's list)
    cand = [k for k, s in enumerate(flat) if s[0] != "Setup"]
    # group the invocations by (callback kind, mode in which it is reached) so that every call site of
    # the framework is hit equally often, however rarely it occurs in the call sequence
    groups = {}
    k = 0
    _, modes_ = spec_sites(case)
    for b, m in zip(blocks, modes_):
        for s_ in b:
            if s_[0] != "Setup":
                key = (s_[0], s_[1] if s_[0] in ("Init", "Periodic") else None, m)
                groups.setdefault(key, []).append(k)
            k += 1
    x = r.random()
    pfault = {"C07": 0.85}.get(pid, 0.7)
    if cand and x < pfault:
        style = r.random()
        gkeys = sorted(groups, key=repr)

        def pick():
            return r.choice(groups[r.choice(gkeys)])
        if style < 0.4:
            case["raises"] = [pick()]
        elif style < 0.7:
            case["raises"] = sorted(set(pick() for _ in range(r.randrange(2, 6))))
        else:   # one call site, every time it is reached
            case["raises"] = list(groups[r.choice(gkeys)])
        if not fms and r.random() < 0.5:
            # without the FMS only the first fault matters; keep a few late ones to test the cut
            case["raises"] = case["raises"][:r.choice([1, 2])]
    # assignments
    if ncomp and nattr:
        for k in range(total):
            if r.random() < 0.25:
                case["writes"][str(k)] = [[r.randrange(ncomp), r.randrange(nattr), r.choice([1, 2, 5, 9, 42, -7])]
                                          for _ in range(r.choice([1, 1, 2]))]
                for w_ in case["writes"][str(k)]:
                    d_ = marked.get("%d,%d" % (w_[0], w_[1]))
                    if d_ is not None and r.random() < 0.3:
                        # user code stores something that compares equal to the declared default without being it (True for 1,
                        # -0.0 for 0, 7.0 for 7): the reset puts the declared default itself back (500000 + d codes the object)
                        w_[2] = 500000 + d_
    for k, s in enumerate(flat):
        if s[0] == "Feedback":
            case["fbval"][str(k)] = r.choice([0, 1, 2, 3, 10, 100, -5, k])
    # callbacks that take time (and wake-ups that come late): half of the C05 robots, a quarter of the others -- what a pass
    # calls, resets and publishes must not depend on how long anything took
    if r.random() < (0.5 if pid == "C05" else 0.25):
        add_timing(case, r)
    return case


def small_scope(r):
    """Bounded-exhaustive companion (thorough tier): EVERY sequence of up to 3 modes out of disabled / autonomous / teleop / test
    (each held for 1 or 2 wake-ups), with and without endCompetition, on three small layouts, FMS on and off, without faults and
    with one fault per (callback kind, mode) group."""
    import itertools
    words = {"Disabled": [0, 0, 0], "Auto": [1, 1, 0], "Teleop": [1, 0, 0], "Test": [1, 0, 1]}
    layouts = [
        dict(ncomp=0, comps=[], fb_owners=[-1], nattr=0, marked={}),
        dict(ncomp=1, comps=[dict(has_setup=True, has_enable=True, has_disable=True, inherit=False, redeclare=False, preassign=False)],
             fb_owners=[0], nattr=1, marked={"0,0": 7}),
        dict(ncomp=2, comps=[dict(has_setup=False, has_enable=True, has_disable=False, inherit=True, redeclare=False, preassign=False),
                             dict(has_setup=True, has_enable=False, has_disable=True, inherit=False, redeclare=False, preassign=False)],
             fb_owners=[-1, 1], nattr=2, marked={"0,1": 5, "1,0": -3}),
    ]
    for L in (1, 2, 3):
        for seq in itertools.product(list(words), repeat=L):
            if any(a == b for a, b in zip(seq, seq[1:])):
                continue
            for dwell in (1, 2):
                for end in (False, True):
                    for li, lay in enumerate(layouts):
                        for fms in (True, False):
                            ticks = [list(words[m]) for m in seq for _ in range(dwell)] + (["end"] if end else [])
                            base = dict(lay, teleop_in_auto=(li == 2), has_auto=(li != 0), fms=fms, robot_split=0, ticks=ticks,
                                        raises=[], writes={}, fbval={})
                            blocks, modes_ = spec_sites(base)
                            flat = [x for b in blocks for x in b]
                            for k, x in enumerate(flat):
                                if x[0] == "Feedback":
                                    base["fbval"][str(k)] = (k % 7) - 2
                            if lay["ncomp"] and flat:
                                base["writes"] = {str(r.randrange(len(flat))): [[0, 0, 9]]}
                            yield dict(base)
                            # one fault per (callback kind, mode) group of this run
                            groups = {}
                            k = 0
                            for b, m in zip(blocks, modes_):
                                for x in b:
                                    if x[0] != "Setup":
                                        groups.setdefault((x[0], x[1] if x[0] in ("Init", "Periodic") else None, m), []).append(k)
                                    k += 1
                            if groups and dwell == 1 and not end:
                                key = sorted(groups, key=repr)[r.randrange(len(groups))]
                                yield dict(base, raises=[r.choice(groups[key])])


def add_timing(case, r):
    """callbacks that take simulated time and wake-ups that come late, all fitting in the period
    (Robot.Period.fits): spend[k] us inside invocation k, jitter[i] us lateness of the wake-up of tick i"""
    # incl. periods whose float product with 1e6 lies just below a whole number of microseconds (0.0157 * 1e6 = 15699.999...)
    P = r.choice([20000, 20000, 10000, 25000, 5000, 15700, 16300, 31400, 3970])
    blocks, _ = spec_sites(case)
    case["timed"] = True
    case["period_us"] = P
    # a third of the timed robots set their period on the instance (createObjects) instead of as a class attribute
    case["period_on_instance"] = (P + len(case["ticks"])) % 3 == 0
    jit = [0]
    for t in case["ticks"][1:]:
        jit.append(0 if (t == "end" or t[0] == "fms") else r.choice([0, 0, 1, P // 20, P // 5, P // 3, P // 2]))
    case["jitter"] = jit
    spend = {}
    k = len(blocks[0])
    for ti, b in enumerate(blocks[1:]):
        # strictly inside the period: the pass must reach wait() before the alarm is due (one tick = one wake-up)
        budget = P - (jit[ti] if ti < len(jit) else 0) - 1
        if b and r.random() < 0.7:
            style = r.random()
            if style < 0.3:
                parts = [budget]                      # the pass uses up the whole period
            elif style < 0.6:
                parts = [r.randrange(1, budget + 1)]
            else:
                a_ = r.randrange(0, budget + 1)
                parts = [a_, r.randrange(0, budget - a_ + 1)]
            for amt in parts:
                if amt > 0:
                    kk = k + r.randrange(len(b))
                    spend[str(kk)] = spend.get(str(kk), 0) + amt
        # a mode's entry code (teleopInit() ...) runs before the loop's NotifierDelay exists: it may take any time at all
        # (longer than a period, too) without moving the grid -- and nothing of a pass may depend on how long it took
        inits = [j for j, s_ in enumerate(b) if s_[0] == "Init"]
        if inits and r.random() < 0.5:
            kk = k + inits[0]
            spend[str(kk)] = spend.get(str(kk), 0) + r.choice([P // 2, P, P + P // 3, 2 * P + 7])
        k += len(b)
    case["spend"] = spend


# ----------------------------------------------------------------------------------
def run_one(case, timeout=90):
    env = dict(os.environ)
    env["PYTHONPATH"] = os.environ.get("VERIF_REPO", REPO)
    env["PYTHONHASHSEED"] = "0"
    try:
        p = subprocess.run([sys.executable, os.path.join(ROOT, "harness", "robot_driver.py")],
                           input=json.dumps(case), capture_output=True, text=True, timeout=timeout, env=env)
    except subprocess.TimeoutExpired:
        return {"error": "timeout"}
    lines = [l for l in p.stdout.splitlines() if l.startswith("{")]
    if not lines:
        return {"error": "no output", "stderr": p.stderr[-800:]}
    try:
        return json.loads(lines[-1])
    except Exception as e:
        return {"error": "bad json %r" % e}


def run_many(cases, jobs=12):
    with ThreadPoolExecutor(max_workers=jobs) as ex:
        return list(ex.map(run_one, cases))


# ----------------------------------------------------------------------------------
def coq_site(e):
    k = e[0]
    if k in ("Setup", "OnEnable", "OnDisable", "Execute", "Feedback"):
        return "S%s %s" % (k, coq_nat(e[1]))
    if k in ("Init", "Periodic"):
        return "S%s %s" % (k, e[1])
    return "S%s" % k


def coq_event(e):
    if e[0] == "cb":
        return "EvCB (%s)" % coq_site(e[1:])
    if e[0] == "exec":
        return "EvExec %s %s" % (coq_nat(e[1]), coq_list([coq_list([coq_Z(v) for v in row]) for row in e[2]]))
    if e[0] == "rp":
        m = "None" if e[1] is None else ("(Some %s)" % NT_MODE[e[1]] if e[1] in NT_MODE else "(Some Disabled)")
        return "EvRP %s %s %s" % (m, coq_list([coq_opt(v, coq_Z) for v in e[2]]),
                                  coq_list([coq_list([coq_Z(v) for v in row]) for row in e[4]]))
    raise ValueError(e)


def coq_tick(t):
    if t == "end":
        return "End"
    if t[0] == "fms":
        return "Fms %s" % coq_bool(t[1])
    return "Tick %s %s %s" % tuple(coq_bool(x) for x in t)


def coq_rcase(case, out):
    c = case
    return ("{| rc_ncomp := %s; rc_setup := %s; rc_enable := %s; rc_disable := %s; rc_nfb := %s;\n"
            "   rc_teleop_in_auto := %s; rc_has_auto := %s; rc_fms := %s; rc_nattr := %s; rc_marked := %s;\n"
            "   rc_raises := %s; rc_writes := %s; rc_fbval := %s;\n   rc_ticks := %s;\n   rc_obs := %s;\n   rc_crashed := %s |}" % (
                coq_nat(c["ncomp"]),
                coq_list([coq_bool(x["has_setup"]) for x in c["comps"]]),
                coq_list([coq_bool(x["has_enable"]) for x in c["comps"]]),
                coq_list([coq_bool(x["has_disable"]) for x in c["comps"]]),
                coq_nat(len(c["fb_owners"])), coq_bool(c["teleop_in_auto"]), coq_bool(c["has_auto"]), coq_bool(c["fms"]),
                coq_nat(c["nattr"]),
                coq_list(["(%s, %s, %s)" % (coq_nat(int(k.split(",")[0])), coq_nat(int(k.split(",")[1])), coq_Z(v))
                          for k, v in sorted(c["marked"].items())]),
                coq_list([coq_nat(k) for k in c["raises"]]),
                coq_list(["(%s, %s)" % (coq_nat(int(k)), coq_list(["(%s, %s, %s)" % (coq_nat(a), coq_nat(b), coq_Z(v)) for a, b, v in w]))
                          for k, w in sorted(c["writes"].items(), key=lambda kv: int(kv[0]))]),
                coq_list(["(%s, %s)" % (coq_nat(int(k)), coq_Z(v)) for k, v in sorted(c["fbval"].items(), key=lambda kv: int(kv[0]))]),
                coq_list([coq_tick(t) for t in c["ticks"]]),
                coq_list([coq_event(e) for e in out["log"]]),
                coq_bool(out["crashed"])))


HEADER = ("From Coq Require Import ZArith List Bool.\nFrom RV Require Import Robot.Model Robot.Corr.\n"
          "Import ListNotations.\nOpen Scope Z_scope.\n")


def correspondence(ctx, pairs, label, shard=40):
    items = []
    for k, sh in enumerate(shards(pairs, shard)):
        body = ";\n".join(coq_rcase(c, o) for c, o in sh)
        items.append(("cases_%s_%d" % (label, k),
                      HEADER + "Definition cases : list rcase := [\n%s\n].\nEval vm_compute in (bad_indices cases).\n" % body))
    res = ctx.coq_files_parallel(items)
    bad = []
    for k, (name, _) in enumerate(items):
        rc, out = res[name]
        lists = parse_eval_lists(out) if rc == 0 else []
        ok = rc == 0 and len(lists) == 1 and lists[0] == []
        ctx.obligation("corr:%s (robot-loop model log == implementation log)" % name, ok, out[-1500:])
        if rc == 0 and len(lists) == 1:
            bad += [k * shard + i for i in lists[0]]
        elif rc != 0:
            bad += list(range(k * shard, min((k + 1) * shard, len(pairs))))
    return bad


# ----------------------------------------------------------------------------------
# property oracles over IMPLEMENTATION logs (search/replay only)
def site_of(e):
    if e[0] == "cb":
        return e[1:]
    if e[0] == "exec":
        return ["Execute", e[1]]
    return ["RobotPeriodic"]


def oracle(case, out):
    """list of (property id, message)"""
    v = []
    if out.get("error") or out.get("hung") or out.get("startup_failed"):
        v.append(("C05", "the robot program hung or could not be driven: %r" % {k: out.get(k) for k in ("error", "hung", "exc")}))
        return v
    log = out["log"]
    sites = [site_of(e) for e in log]
    blocks, modes = spec_sites(case)
    flat = [s for b in blocks for s in b]
    raises = sorted(case["raises"])
    flags = site_fms(case)
    fms = all(flags[k] for k in raises if k < len(flat))       # every fault happens with the FMS attached
    n = case["ncomp"]
    nfb = len(case["fb_owners"])
    # the first fault that happens while the FMS is not attached is the last callback of the run
    first_raise = next((k for k in raises if k < len(flat) and not flags[k]), None)
    # ---- C07 / C05: the call sequence
    if first_raise is None:
        if out["crashed"]:
            culprit = sites[-1] if sites else None
            msg = "the robot program died with %r after %s (FMS attached at every fault; faults at invocations %r, FMS changes %r)" % (
                out["exc"], culprit, raises, [t for t in case["ticks"] if t != "end" and t[0] == "fms"])
            v.append(("C07", msg))
            if not any("scripted fault" in (x or "") for x in (out.get("exc") or [])):
                # not one of the scripted user faults: the framework itself failed while doing its job
                kind = (culprit or [""])[0]
                v.append(("C11" if kind == "Feedback" else "C05", msg))
        expect = flat
    else:
        expect = flat[:first_raise + 1]
        if not out["crashed"]:
            v.append(("C07", "FMS not attached at that moment: the fault at invocation %d (%s) did not propagate out of the robot program" % (
                first_raise, flat[first_raise])))
    if sites != expect:
        i = next((i for i in range(min(len(sites), len(expect))) if sites[i] != expect[i]), min(len(sites), len(expect)))
        got = sites[i] if i < len(sites) else None
        want = expect[i] if i < len(expect) else None
        # attribute the difference
        pid = "C05"
        kinds = {(got or [""])[0], (want or [""])[0]}
        if kinds & {"Setup", "OnEnable", "OnDisable"}:
            pid = "C06"
        if (raises and i > min(raises)) or first_raise is not None:
            pid = "C07"
        if "Feedback" in kinds and pid == "C05":
            pid = "C11"
        msg_ = "callback #%d is %s, expected %s (fault-free order cut at the first fault when the FMS is not attached)" % (i, got, want)
        v.append((pid, msg_))
        if pid == "C11":
            # where the feedback publishers run in a pass (after every execute(), before robotPeriodic) is C05's order too
            v.append(("C05", msg_))
        if pid == "C07" and first_raise is None:
            # every fault of this run happened with the FMS attached: the robot keeps running and every pass must
            # still be the full, ordered pass (C05: execute() of every component exactly once ...; C11: every getter)
            v.append(("C11" if "Feedback" in kinds else ("C06" if kinds & {"Setup", "OnEnable", "OnDisable"} else "C05"), msg_))
    # ---- C06 bracket, independent of the exact order
    enabled = {}
    seen_other = False
    for e in sites:
        if e[0] == "Setup":
            if e[1] >= 1000:
                v.append(("C06", "setup() of component %d ran before every component existed and had its injected variables, "
                                 "will_reset_to defaults and tunables" % (e[1] - 1000)))
            if seen_other:
                v.append(("C06", "setup() of component %d after another callback" % e[1]))
        else:
            seen_other = True
        if e[0] == "OnEnable":
            enabled[e[1]] = True
        elif e[0] == "OnDisable":
            enabled[e[1]] = False
        elif e[0] == "Execute":
            c = case["comps"][e[1]]
            if c["has_enable"] and not enabled.get(e[1], False):
                v.append(("C06", "execute() of component %d outside an on_enable()/on_disable() bracket" % e[1]))
    # ---- C05: /robot/mode and one iteration per period ; C11: entries
    k = 0
    pending = {}            # feedback j -> value returned in this iteration
    last_rp_t = None
    nt = [None] * nfb
    pos = 0
    bi = 0
    # walk blocks to know the mode of each robotPeriodic
    rp_modes = []
    for b, m in zip(blocks, modes):
        for s in b:
            if s[0] == "RobotPeriodic":
                rp_modes.append(m)
    rpi = 0
    prev_tick_t = None
    for idx, e in enumerate(log):
        s = site_of(e)
        if s[0] == "Feedback":
            if idx not in raises:
                nt[s[1]] = case["fbval"].get(str(idx), 0)
        if e[0] == "rp":
            m = rp_modes[rpi] if rpi < len(rp_modes) else None
            rpi += 1
            if m is not None and NT_MODE.get(e[1]) != m:
                v.append(("C05", "robotPeriodic #%d: /robot/mode is %r while the robot runs %s" % (rpi, e[1], m)))
            if list(e[2]) != nt:
                v.append(("C11", "robotPeriodic #%d: NetworkTables feedback entries %r, getters returned %r" % (rpi, e[2], nt)))
            if not case.get("timed") and prev_tick_t is not None and e[3] - prev_tick_t != P_US:
                v.append(("C05", "robotPeriodic #%d at FPGA %d us, previous at %d us: not one iteration per %d us" % (rpi, e[3], prev_tick_t, P_US)))
            prev_tick_t = e[3]
    # ---- C05: a mode's NotifierDelay is created after the mode's entry code and before its first pass
    nds_ = out.get("nds") or []
    if nds_ and all("at" in nd for nd in nds_):
        want_at = []
        pos_ = len(blocks[0])
        cur_ = None
        for t, b in zip(case["ticks"], blocks[1:]):
            if t == "end":
                break
            if t[0] != "fms" and not (cur_ is not None and stays(cur_, t)):
                new_ = dispatch(t)
                n_iter = len(b) - len(spec_iter_len(case, new_))
                want_at.append(pos_ + n_iter)
                cur_ = new_
            pos_ += len(b)
        got_at = [nd["at"] for nd in nds_]
        ncmp = min(len(got_at), len(want_at))
        crash_at = len(log)
        for gi in range(ncmp):
            if want_at[gi] > crash_at:
                break
            if got_at[gi] != want_at[gi]:
                v.append(("C05", "mode loop #%d: its NotifierDelay is created after callback #%d, but the mode's entry code ends and its first "
                                 "pass begins after callback #%d: the control period must start with the first pass" % (gi, got_at[gi], want_at[gi])))
                break
    # ---- C05, the time axis (timed cases: callbacks take time, wake-ups come late, all fitting in the period)
    if case.get("timed"):
        v += [("C05", m) for m in oracle_time(case, out)]
    # ---- C11: every getter exactly once per pass, in every mode (passes that completed)
    marks_ = out.get("marks") or []
    start_ = 0
    for ti, end_ in enumerate(marks_):
        mode_ = modes[ti + 1] if ti + 1 < len(modes) else None
        seg = log[start_:min(end_, len(log))]
        if mode_ is not None and any(e[0] == "rp" for e in seg):
            for j in range(nfb):
                cnt = sum(1 for e in seg if e[0] == "cb" and e[1] == "Feedback" and e[2] == j)
                if cnt != 1:
                    v.append(("C11", "pass %d (%s): feedback getter %d was called %d times, expected exactly once" % (ti, mode_, j, cnt)))
                    break
        start_ = end_
    # ---- C10: what every execute() sees: defaults + assignments since the end of the previous enabled pass
    if n and case["nattr"]:
        dflt = [[(case["marked"].get("%d,%d" % (i, a)) if case["marked"].get("%d,%d" % (i, a)) is not None else 0)
                 for a in range(case["nattr"])] for i in range(n)]
        st = [row[:] for row in dflt]
        marks = out.get("marks") or []
        start = 0
        done_c10 = False
        for ti, end in enumerate(marks):
            mode = modes[ti + 1] if ti + 1 < len(modes) else None
            for idx in range(start, min(end, len(log))):
                e = log[idx]
                if e[0] == "rp" and e[4] != st:
                    v.append(("C10", "pass %d (%s), robotPeriodic (callback #%d) sees %r, expected %r: the reset comes after "
                                     "the feedbacks and robotPeriodic" % (ti, mode, idx, e[4], st)))
                    done_c10 = True
                    break
                if e[0] == "exec" and e[2] != st:
                    v.append(("C10", "pass %d (%s), execute() of component %d (callback #%d) sees %r, expected %r: the defaults of the "
                                     "will_reset_to attributes plus what was assigned since the previous enabled pass ended"
                                     % (ti, mode, e[1], idx, e[2], st)))
                    done_c10 = True
                    break
                for (ci, a, val) in case["writes"].get(str(idx), []):
                    st[ci][a] = val
            if done_c10:
                break
            if mode in ("Auto", "Teleop"):
                for key, d in case["marked"].items():
                    ci, a = map(int, key.split(","))
                    st[ci][a] = d
            start = end
    return v


def wait_lateness(case):
    """the scripted lateness of the wake-up that ends the k-th wait() of the run, in order"""
    return [case["jitter"][ti] if ti < len(case.get("jitter") or []) else 0
            for ti, t in enumerate(case["ticks"]) if ti >= 1 and (t == "end" or t[0] != "fms")]


def oracle_time(case, out):
    """Within a mode one pass per control_loop_wait_time: the alarms of the mode loop's NotifierDelay stay on
    the grid anchored at its creation; a wait never returns before its alarm; while passes + lateness fit in
    the period the i-th wake-up is exactly its scripted lateness after grid point i."""
    msgs = []
    P = case["period_us"]
    lates = wait_lateness(case)
    wi = 0
    for ni, nd in enumerate(out.get("nds") or []):
        t0 = nd["t0"]
        for j, a in enumerate(nd["alarms"]):
            if a != t0 + (j + 1) * P:
                msgs.append("mode loop #%d (NotifierDelay created at FPGA %d us, period %d us): alarm #%d is programmed at %d us, "
                            "the grid point is %d us -- not one pass per period" % (ni, t0, P, j, a, t0 + (j + 1) * P))
                return msgs
        prev_r = t0
        prev_late = 0
        for j, (c, r_) in enumerate(nd["waits"]):
            late = lates[wi] if wi < len(lates) else 0
            wi += 1
            if j >= len(nd["alarms"]):
                break
            a = nd["alarms"][j]
            if r_ < a:
                msgs.append("mode loop #%d: wait #%d returned at %d us, before its alarm %d us" % (ni, j, r_, a))
                return msgs
            if prev_late + (c - prev_r) < P and r_ != t0 + (j + 1) * P + late:
                msgs.append("mode loop #%d (created at %d us, period %d us): pass %d started at %d us, expected grid point %d us "
                            "+ the wake-up lateness %d us" % (ni, t0, P, j + 1, r_, t0 + (j + 1) * P, late))
                return msgs
            prev_r, prev_late = r_, late
    return msgs


def coq_jcases(case, out):
    """Robot.Period.jcase per mode loop: (period, t0, [(pass duration, lateness of the wake-up)], observed)"""
    P = case["period_us"]
    lates = wait_lateness(case)
    wi = 0
    res = []
    for nd in out.get("nds") or []:
        bl, obs = [], []
        prev_r = nd["t0"]
        for j, (c, r_) in enumerate(nd["waits"]):
            late = lates[wi] if wi < len(lates) else 0
            wi += 1
            if j + 1 >= len(nd["alarms"]):
                break
            bl.append("(%s, %s)" % (coq_Z(c - prev_r), coq_Z(late)))
            obs.append("(%s, %s, %s)" % (coq_Z(c), coq_Z(r_), coq_Z(nd["alarms"][j + 1])))
            prev_r = r_
        if bl:
            res.append("(%s, %s, %s, %s)" % (coq_Z(P), coq_Z(nd["t0"]), coq_list(bl), coq_list(obs)))
    return res


def time_correspondence(ctx, pairs, label):
    """the mode loops of the timed robots against Delay.Model's NotifierDelay under late wake-ups (Robot.Period.jlog)"""
    owners, jc = [], []
    for i, (c, o) in enumerate(pairs):
        if c.get("timed"):
            for x in coq_jcases(c, o):
                owners.append(i)
                jc.append(x)
    if not jc:
        return []
    ctx.coverage["timed_robots"] = sum(1 for c, _ in pairs if c.get("timed"))
    ctx.coverage["mode_loops_checked_against_the_NotifierDelay_model"] = len(jc)
    text = ("From Coq Require Import ZArith List Bool.\nFrom RV Require Import Delay.Model Robot.Period.\n"
            "Import ListNotations.\nOpen Scope Z_scope.\n"
            "Definition cases : list jcase := [\n%s\n].\nEval vm_compute in (jbad cases).\n" % ";\n".join(jc))
    rc, out = ctx.coq_file("cases_%s_time" % label, text)
    lists = parse_eval_lists(out) if rc == 0 else []
    ok = rc == 0 and len(lists) == 1 and lists[0] == []
    ctx.obligation("corr:cases_%s_time (every mode loop's wait() call/return/alarm times == NotifierDelay model under late wake-ups)" % label,
                   ok, out[-1500:])
    if rc == 0 and len(lists) == 1:
        return sorted(set(owners[i] for i in lists[0]))
    return sorted(set(owners))


PIDS = ("C05", "C06", "C07", "C10", "C11")


def shrink(case, pid):
    def bad(c):
        o = run_one(c)
        return any(p == pid for p, _ in oracle(c, o))
    best = case
    # fewer ticks
    for n in range(1, len(case["ticks"])):
        c = dict(best, ticks=case["ticks"][:n])
        c = prune(c)
        if bad(c):
            best = c
            break
    # fewer faults
    for k in list(best["raises"]):
        c = dict(best, raises=[x for x in best["raises"] if x != k])
        if bad(c):
            best = c
    # no assignments
    c = dict(best, writes={})
    if bad(c):
        best = c
    return best


def prune(case):
    blocks, _ = spec_sites(case)
    total = sum(len(b) for b in blocks)
    c = dict(case)
    c["raises"] = [k for k in case["raises"] if k < total]
    c["writes"] = {k: w for k, w in case["writes"].items() if int(k) < total}
    c["fbval"] = {k: w for k, w in case["fbval"].items() if int(k) < total}
    return c


def violation_record(case, pid):
    out = run_one(case)
    msgs = [m for p, m in oracle(case, out) if p == pid]
    return {"kind": "input", "what": msgs[0] if msgs else "?", "fingerprint": "%s:%s" % (pid, (msgs[0][:50] if msgs else "?")),
            "case": case, "implementation_log": out.get("log"), "crashed": out.get("crashed"), "exc": out.get("exc"),
            "all_messages": msgs[:6]}


def robot_check(ctx, pid):
    from . import common
    ctx.assumptions.append(
        "%s: robot-loop model Robot.Model; one Tick = one wake-up of the mode loop with that driver-station word; "
        "user callbacks take no simulated time; HAL notifier / DriverStationSim / ntcore as exercised by the correspondence; "
        "the driver station word only changes while the loop is blocked in wait()" % pid)
    ctx.prove()
    # the programs the theorems are about, regenerated from the current source (fail-closed translator)
    from . import robot_translate
    robot_translate.obligation(ctx, pid.lower())
    if pid == "C05":
        # the time axis rests on NotifierDelay: its methods, regenerated and proved equal to Delay.Model
        from . import c16_translate
        c16_translate.obligation(ctx)
    n = {"quick": 200, "thorough": 3000}[ctx.tier]
    r = ctx.rng
    cdir = os.path.join(CORPUS, pid)
    corpus = []
    if os.path.isdir(cdir):
        for f in sorted(os.listdir(cdir)):
            if f.endswith(".json"):
                corpus.append(json.load(open(os.path.join(cdir, f)))["case"])
    cases = corpus + [gen_case(r, pid) for _ in range(n)]
    if ctx.tier == "thorough":
        ss = list(small_scope(r))
        ctx.coverage["small_scope_exhaustive"] = {
            "robots": len(ss), "what": "every sequence of <= 3 distinct consecutive modes x dwell 1-2 x endCompetition or not x 3 small layouts x "
            "FMS on/off, fault-free and with one fault in one (callback kind, mode) group"}
        cases += ss
    outs = run_many(cases)
    # a robot that could not be driven (start-up or step timed out on a loaded machine) is retried alone
    retried = 0
    nund = sum(1 for o in outs if o.get("error") or o.get("hung") or o.get("startup_failed"))
    for i, o in enumerate(outs):
        if nund <= 6 and (o.get("error") or o.get("hung") or o.get("startup_failed")):
            for attempt in range(2):
                retried += 1
                o2 = run_one(cases[i], timeout=240)
                if not (o2.get("error") or o2.get("hung") or o2.get("startup_failed")):
                    outs[i] = o2
                    break
    ctx.coverage["robots_retried"] = retried
    pairs = []
    undriven = []
    ntriv = 0
    seen = set()
    for c, o in zip(cases, outs):
        if o.get("error") or o.get("hung") or o.get("startup_failed"):
            undriven.append((c, o))
            continue
        pairs.append((c, o))
        ctx.count("fms" if c["fms"] else "no_fms")
        nch = sum(1 for t in c["ticks"] if t != "end" and t[0] == "fms")
        ctx.count("fms_changes=%s" % (nch if nch < 2 else ">=2"))
        fl = site_fms(c)
        if any(k < len(fl) and fl[k] for k in c["raises"]) and any(k < len(fl) and not fl[k] for k in c["raises"]):
            ctx.count("faults both with and without the FMS in one run")
        ctx.count("faults=%s" % (len(c["raises"]) if len(c["raises"]) < 3 else ">=3"))
        ctx.count("components=%d" % c["ncomp"])
        ctx.count("crashed" if o["crashed"] else "survived")
        _, modes = spec_sites(c)
        ms = [m for m in modes if m]
        for m in set(ms):
            ctx.count("mode=" + m)
        key = json.dumps(c, sort_keys=True)
        if key not in seen:
            seen.add(key)
            if len(set(ms)) >= 2 and c["ncomp"] >= 1:
                ntriv += 1
    ctx.obligation("corr:every generated robot started and could be stepped", not undriven,
                   repr([(o.get("error"), o.get("exc"), o.get("stderr", "")[-300:]) for _, o in undriven[:2]]))
    bad = correspondence(ctx, pairs, pid.lower())
    if pid == "C05":
        bad = time_correspondence(ctx, pairs, pid.lower()) + bad
    fb_extra = None
    if pid == "C11":
        # key = explicit key else name with ONE leading 'get_' removed; topic type from the return annotation
        from . import c09
        fcs, fobs, fbad = c09.feedback_key_cases(ctx, prefix="c11fb")
        fb_extra = (c09, fcs, fobs, fbad)
        ctx.coverage["feedback_key_type_cases"] = len(fcs)
    ctx.coverage.update({
        "evaluations": len(pairs),
        "traces_validated_against_impl": len(pairs),
        "distinct_nontrivial": ntriv,
        "rule": "generated robots (0-4 components with optional setup/on_enable/on_disable, inherited component and robot classes, "
                "0-3 feedbacks per owner, will_reset_to markers, use_teleop_in_autonomous, with/without an autonomous package, FMS "
                "on/off) x tick histories over all 8 driver-station words with dwell 1-6 and endCompetition x scripted faults/"
                "assignments/feedback values per callback invocation; each robot runs its real startCompetition() in its own "
                "process under the stepped simulated clock; non-trivial = distinct case with >= 2 modes visited and >= 1 component",
        "samples": [{"components": c["comps"], "fb_owners": c["fb_owners"], "fms": c["fms"], "ticks": c["ticks"][:10],
                     "raises": c["raises"], "log_head": o["log"][:12]} for c, o in pairs[len(corpus):len(corpus) + 3]],
        "exhaustive": False,
    })

    # C07: the selector's own exception policy (run() without on_exception), which a MagicRobot never uses
    sel_bad = None
    if pid == "C07":
        from . import c07_selector_probe
        from .common import REPO
        sel_out, sel_bad = c07_selector_probe.check(REPO)
        undriven_sel = sum(1 for _, _, r_ in sel_out if "probe_error" in r_ or "setup_error" in r_)
        ctx.coverage["selector_standalone"] = {"scenarios": len(sel_out), "not_driven": undriven_sel,
                                               "what": "AutonomousModeSelector.run() without on_exception, one DEFAULT mode, faults in on_enable / "
                                                       "on_iteration / on_disable, FMS attached and not, 5 real-time passes each"}
        ctx.obligation("impl:the selector's own exception policy (stand-alone run(), %d scenarios)" % len(sel_out),
                       sel_bad is None and undriven_sel <= 2, "" if sel_bad is None else sel_bad["what"])

    def search():
        found = []
        if sel_bad is not None:
            return [sel_bad]
        if fb_extra is not None:
            c09, fcs, fobs, fbad = fb_extra
            for i in list(fbad) + list(range(len(fcs))):
                vd = c09.oracle_fcase(fcs[i], fobs[i])
                if vd:
                    found.append({"kind": "feedback-key", "what": vd["what"], "fingerprint": "C11:" + vd["fingerprint"],
                                  "fcase": fcs[i], "observed": fobs[i]})
                    return found
        def confirmed(c):
            """shrink, re-run, and keep the candidate only if the violation shows again (a robot that merely could not be
            driven on a loaded machine is not a violation of the property)"""
            rec = violation_record(shrink(c, pid), pid)
            if rec["what"] != "?" and "could not be driven" not in rec["what"]:
                return rec
            rec = violation_record(c, pid)
            if rec["what"] != "?" and "could not be driven" not in rec["what"]:
                return rec
            return None
        for i in bad[:60]:
            c, o = pairs[i]
            if any(p == pid for p, _ in oracle(c, o)):
                rec = confirmed(c)
                if rec:
                    found.append(rec)
                    return found
        for c, o in pairs + undriven:
            if any(p == pid for p, _ in oracle(c, o)):
                rec = confirmed(c)
                if rec:
                    found.append(rec)
                    return found
        import time
        t0 = time.time()
        extra = 0
        while extra < 10 * n and time.time() - t0 < (150 if ctx.tier == "quick" else 600):
            batch = [gen_case(r, pid) for _ in range(48)]
            extra += len(batch)
            for c, o in zip(batch, run_many(batch)):
                if any(p == pid for p, _ in oracle(c, o)):
                    rec = confirmed(c)
                    if rec:
                        found.append(rec)
                        return found
        ctx.coverage["search_extra_cases"] = extra
        if bad:
            c, o = pairs[bad[0]]
            ctx.coverage["first_disagreeing_case"] = {"case": c, "implementation_log": o["log"][:60]}
        return found

    return ctx.finish(search=search)


def robot_replay(ctx, pid, obj):
    if obj.get("kind") == "feedback-key":
        from . import c09
        o = c09.exec_fcase(c09.impl(), obj["fcase"], flavor=0)
        msgs = c09.oracle_fcase(obj["fcase"], o)
        print("feedback case:", obj["fcase"], "->", o)
        if msgs:
            print("violates C11:", msgs["what"])
            print("VIOLATION property=C11 replay=(replayed)")
            return 1
        print("key and topic type are as the property says")
        return 0
    if obj.get("kind") == "selector-standalone":
        from . import c07_selector_probe
        from .common import REPO
        res = c07_selector_probe.run_scenario(REPO, obj["fms"], obj["faults"])
        vd = c07_selector_probe.verdict(obj["fms"], obj["faults"], res)
        print("AutonomousModeSelector.run() stand-alone, FMS %s, faults %r -> %r" % ("attached" if obj["fms"] else "not attached", obj["faults"], res))
        if vd:
            print("violates C07:", vd)
            print("VIOLATION property=C07 replay=(replayed)")
            return 1
        print("the selector's own exception policy does what C07 says")
        return 0
    if obj.get("kind") != "input":
        print("replay names broken obligations only: %s" % [b.get("name") for b in obj.get("broken_obligations", [])])
        return robot_check(ctx, pid)
    case = obj["case"]
    out = run_one(case)
    msgs = [m for p, m in oracle(case, out) if p == pid]
    print("ticks:", case["ticks"], "fms:", case["fms"], "raises:", case["raises"])
    for e in (out.get("log") or [])[:80]:
        print("  ", e)
    print("crashed:", out.get("crashed"), out.get("exc"))
    for m in msgs:
        print("violates %s: %s" % (pid, m))
    if msgs:
        print("VIOLATION property=%s replay=(replayed)" % pid)
        return 1
    print("no clause of %s fails on this history" % pid)
    return 0
