#!/usr/bin/env python3
"""Prints the markdown table of /verif/seeded/*: change, and what the property's check reported for it."""
import glob
import json
import os

ROOT = os.path.dirname(os.path.dirname(os.path.abspath(__file__)))
rows = []
for d in sorted(glob.glob(os.path.join(ROOT, "seeded", "C*_*"))):
    try:
        m = json.load(open(os.path.join(d, "meta.json")))
    except Exception:
        continue
    c = m.get("confirmed", {})
    out = [l.strip() for l in c.get("check_out", []) if l.strip().startswith(("what", "broken"))]
    rep = (out[0] if out else "").replace("what: ", "").replace("|", "/")
    kind = "concrete" if c.get("concrete_replay") else ("no-failing-input-found" if c.get("detected") else "MISSED")
    if m.get("superseded"):
        kind, rep = "superseded", m["superseded"].replace("|", "/")
    rows.append("| %s | %s | %s | %s |" % (os.path.basename(d), m.get("summary", "").replace("|", "/").replace("\n", " ")[:150], kind, rep[:150]))
print("| seed | change | replay | what the check reports |")
print("|---|---|---|---|")
print("\n".join(rows))
