(* Model of robotpy_ext/misc/simple_watchdog.py (SimpleWatchdog), field for
   field, as the code is now (timeout converted with round(timeout * 1e6)).
   All times are integer microseconds, as in the code.  The conversion of the
   float argument to microseconds is not modelled: the model takes the
   timeout in microseconds.  No proofs in this file. *)
From Coq Require Import ZArith List Bool.
From RV Require Import Control.Machine.
Import ListNotations.
Open Scope Z_scope.

(* calls, each with the value self._get_time() returns during the call
   (disable() and getTimeout() do not read the clock) *)
Inductive wop :=
| WReset (now : Z)
| WEnable (now : Z)
| WDisable
| WSetTimeout (now : Z) (timeout_us : Z)
| WIsExpired (now : Z)
| WAddEpoch (now : Z) (name : nat)
| WPrintIfExpired (now : Z)
| WGetTime (now : Z)
| WGetTimeout.

(* what a call lets the caller observe *)
Inductive wout :=
| ONone                       (* returns None, logs nothing *)
| OExpired (b : bool)         (* isExpired() *)
| OPrint (warned : bool)      (* printIfExpired(): was the "Watchdog not fed" warning logged *)
| OTime (us : Z)              (* getTime() * 1e6 *)
| OTimeout (us : Z).          (* getTimeout() * 1e6 *)

(* kMinPrintPeriod = 1000000  # us *)
Definition kMinPrintPeriod : Z := 1000000.

Record watchdog := mkWd {
  w_startTime : Z;
  w_timeout : Z;
  w_expirationTime : Z;
  w_lastTimeoutPrintTime : Z;        (* never used by the code *)
  w_lastEpochsPrintTime : Z;
  w_epochs : list (nat * Z)
}.

(* __init__(timeout): everything 0, _timeout = round(timeout * 1e6), no epochs *)
Definition wd_new (timeout_us : Z) : watchdog := mkWd 0 timeout_us 0 0 0 [].

(* enable(): _epochs.clear(); _startTime = now; _expirationTime = _startTime + _timeout *)
Definition wd_enable (w : watchdog) (now : Z) : watchdog :=
  mkWd now (w_timeout w) (now + w_timeout w)
       (w_lastTimeoutPrintTime w) (w_lastEpochsPrintTime w) [].

(* setTimeout(t): _epochs.clear(); _timeout = t; _startTime = now; _expirationTime = _startTime + t *)
Definition wd_setTimeout (w : watchdog) (now t : Z) : watchdog :=
  mkWd now t (now + t) (w_lastTimeoutPrintTime w) (w_lastEpochsPrintTime w) [].

(* isExpired(): return self._get_time() > self._expirationTime *)
Definition wd_isExpired (w : watchdog) (now : Z) : bool := now >? w_expirationTime w.

(* addEpoch(name): self._epochs.append((name, now)) *)
Definition wd_addEpoch (w : watchdog) (now : Z) (name : nat) : watchdog :=
  mkWd (w_startTime w) (w_timeout w) (w_expirationTime w)
       (w_lastTimeoutPrintTime w) (w_lastEpochsPrintTime w) (w_epochs w ++ [(name, now)]).

(* printIfExpired():
     now = self._get_time()
     if now > self._expirationTime and now - self._lastEpochsPrintTime > self.kMinPrintPeriod:
         self._lastEpochsPrintTime = now
         logger.warning(...); logger.info(epochs)                            *)
Definition wd_printIfExpired (w : watchdog) (now : Z) : watchdog * bool :=
  if (now >? w_expirationTime w) && (now - w_lastEpochsPrintTime w >? kMinPrintPeriod)
  then (mkWd (w_startTime w) (w_timeout w) (w_expirationTime w)
             (w_lastTimeoutPrintTime w) now (w_epochs w), true)
  else (w, false).

Definition wd_step (w : watchdog) (o : wop) : watchdog * wout :=
  match o with
  | WReset now => (wd_enable w now, ONone)                  (* reset() = enable() *)
  | WEnable now => (wd_enable w now, ONone)
  | WDisable => (w, ONone)                                  (* does nothing *)
  | WSetTimeout now t => (wd_setTimeout w now t, ONone)
  | WIsExpired now => (w, OExpired (wd_isExpired w now))
  | WAddEpoch now name => (wd_addEpoch w now name, ONone)
  | WPrintIfExpired now => let (w', b) := wd_printIfExpired w now in (w', OPrint b)
  | WGetTime now => (w, OTime (now - w_startTime w))
  | WGetTimeout => (w, OTimeout (w_timeout w))
  end.

Definition wd_run (timeout_us : Z) (h : list wop) : list wout :=
  run wd_step (wd_new timeout_us) h.

(* ---- vocabulary of the theorems ----------------------------------------- *)
(* isExpired() at clock reading [now] after the calls [h] on a fresh
   SimpleWatchdog whose timeout is [t0] microseconds *)
Definition expired (t0 : Z) (h : list wop) (now : Z) : bool :=
  wd_isExpired (reach wd_step (wd_new t0) h) now.

(* does printIfExpired() at [now], after [h], log the warning *)
Definition warns (t0 : Z) (h : list wop) (now : Z) : bool :=
  snd (wd_printIfExpired (reach wd_step (wd_new t0) h) now).

(* the clock readings taken by the calls of a history *)
Definition wop_times (h : list wop) : list Z :=
  flat_map (fun o => match o with
    | WReset t | WEnable t | WSetTimeout t _ | WIsExpired t | WAddEpoch t _
    | WPrintIfExpired t | WGetTime t => [t]
    | WDisable | WGetTimeout => [] end) h.

(* clock reading of the last reset()/enable()/setTimeout() of [h] *)
Fixpoint last_feed (a : option Z) (h : list wop) : option Z :=
  match h with
  | [] => a
  | (WReset t | WEnable t | WSetTimeout t _) :: r => last_feed (Some t) r
  | _ :: r => last_feed a r
  end.

(* the timeout in force after [h]: the last one set, else the constructor's *)
Fixpoint timeout_of (t0 : Z) (h : list wop) : Z :=
  match h with
  | [] => t0
  | WSetTimeout _ t :: r => timeout_of t r
  | _ :: r => timeout_of t0 r
  end.

Definition is_epoch (o : wop) : bool :=
  match o with WAddEpoch _ _ => true | _ => false end.

(* the history without its addEpoch() calls, and the results of the calls
   of [h] that are not addEpoch() *)
Definition drop_epochs (h : list wop) : list wop :=
  filter (fun o => negb (is_epoch o)) h.
Definition non_epoch_results (h : list wop) (rs : list wout) : list wout :=
  map snd (filter (fun x => negb (is_epoch (fst x))) (combine h rs)).
