(* Proofs about the SimpleWatchdog model (C19). *)
From Coq Require Import ZArith List Bool Lia.
From RV Require Import Control.Machine Control.MachineProofs Control.Watchdog.
Import ListNotations.
Open Scope Z_scope.

Lemma wd_out_isExpired : forall t0 h now,
  out wd_step (wd_new t0) h (WIsExpired now) = OExpired (expired t0 h now).
Proof. reflexivity. Qed.

Lemma wd_out_print : forall t0 h now,
  out wd_step (wd_new t0) h (WPrintIfExpired now) = OPrint (warns t0 h now).
Proof.
  intros. unfold out, warns. simpl. destruct (wd_printIfExpired _ now). reflexivity.
Qed.

Lemma wd_print_fields : forall w now,
  let w' := fst (wd_printIfExpired w now) in
  w_startTime w' = w_startTime w /\ w_timeout w' = w_timeout w /\
  w_expirationTime w' = w_expirationTime w /\
  w_lastEpochsPrintTime w' = (if snd (wd_printIfExpired w now) then now else w_lastEpochsPrintTime w).
Proof. intros. subst w'. unfold wd_printIfExpired. destruct (_ && _); simpl; auto. Qed.

Lemma wd_step_print : forall w now,
  fst (wd_step w (WPrintIfExpired now)) = fst (wd_printIfExpired w now).
Proof. intros. simpl. destruct (wd_printIfExpired w now). reflexivity. Qed.

(* ---- expiry ---------------------------------------------------------------- *)
Definition fed (a : option Z) (w : watchdog) : Prop :=
  w_expirationTime w = match a with Some f => f + w_timeout w | None => 0 end.

Lemma fed_step : forall o w a,
  fed a w ->
  fed (last_feed a [o]) (fst (wd_step w o)) /\
  w_timeout (fst (wd_step w o)) = timeout_of (w_timeout w) [o].
Proof.
  intros o w a F. destruct o; try (simpl; unfold fed in *; simpl; auto; fail).
  rewrite wd_step_print.
  destruct (wd_print_fields w now) as (_ & T & E & _). unfold fed in *. simpl.
  rewrite E, T. auto.
Qed.

Lemma last_feed_cons : forall o h a, last_feed a (o :: h) = last_feed (last_feed a [o]) h.
Proof. intros. destruct o; reflexivity. Qed.
Lemma timeout_of_cons : forall o h t, timeout_of t (o :: h) = timeout_of (timeout_of t [o]) h.
Proof. intros. destruct o; reflexivity. Qed.

Lemma fed_reach : forall h w a,
  fed a w ->
  fed (last_feed a h) (reach wd_step w h) /\
  w_timeout (reach wd_step w h) = timeout_of (w_timeout w) h.
Proof.
  induction h as [|o h IH]; intros w a F; [simpl; auto|].
  rewrite last_feed_cons, timeout_of_cons.
  destruct (fed_step o w a F) as [F1 T1].
  change (reach wd_step w (o :: h)) with (reach wd_step (fst (wd_step w o)) h).
  rewrite <- T1. apply IH. exact F1.
Qed.

Lemma gtb_shift : forall now f t, (now >? f + t) = (now - f >? t).
Proof.
  intros. rewrite !Z.gtb_ltb.
  destruct (Z.ltb_spec (f + t) now), (Z.ltb_spec t (now - f)); auto; lia.
Qed.

Lemma expired_exact : forall t0 h now,
  expired t0 h now =
  match last_feed None h with
  | Some f => now - f >? timeout_of t0 h
  | None => now >? 0
  end.
Proof.
  intros. unfold expired, wd_isExpired.
  destruct (fed_reach h (wd_new t0) None eq_refl) as [F T]. unfold fed in F. rewrite F.
  destruct (last_feed None h); auto. rewrite T. apply gtb_shift.
Qed.

Lemma expired_iff : forall t0 h now f,
  last_feed None h = Some f ->
  (expired t0 h now = true <-> now - f > timeout_of t0 h).
Proof.
  intros. rewrite expired_exact, H. rewrite Z.gtb_ltb, Z.ltb_lt. lia.
Qed.

Lemma warns_spec : forall t0 h now,
  warns t0 h now =
  expired t0 h now &&
  (now - w_lastEpochsPrintTime (reach wd_step (wd_new t0) h) >? kMinPrintPeriod).
Proof.
  intros. unfold warns, expired, wd_printIfExpired, wd_isExpired.
  destruct (_ && _); reflexivity.
Qed.

Lemma warns_only_if_expired : forall t0 h now,
  warns t0 h now = true -> expired t0 h now = true.
Proof. intros t0 h now. rewrite warns_spec. intros H. apply andb_true_iff in H. tauto. Qed.

(* ---- the warning's rate limit ---------------------------------------------- *)
Lemma wop_times_cons : forall o h, wop_times (o :: h) = wop_times [o] ++ wop_times h.
Proof. intros. unfold wop_times. simpl. rewrite app_nil_r. reflexivity. Qed.

Lemma wop_times_app : forall h1 h2, wop_times (h1 ++ h2) = wop_times h1 ++ wop_times h2.
Proof. intros. unfold wop_times. apply flat_map_app. Qed.

Lemma wd_K_step : forall o w a lo,
  a <= w_lastEpochsPrintTime w <= lo -> mono_from lo (wop_times [o]) ->
  a <= w_lastEpochsPrintTime (fst (wd_step w o)) <= last (wop_times [o]) lo.
Proof.
  intros o w a lo Hk Hm. destruct o; simpl in *; try lia.
  change (fst (let (w', b) := wd_printIfExpired w now in (w', OPrint b)))
    with (fst (wd_step w (WPrintIfExpired now))).
  rewrite wd_step_print.
  destruct (wd_print_fields w now) as (_ & _ & _ & L). rewrite L.
  destruct (snd (wd_printIfExpired w now)); lia.
Qed.

Lemma wd_K : forall h w a lo,
  a <= w_lastEpochsPrintTime w <= lo -> mono_from lo (wop_times h) ->
  a <= w_lastEpochsPrintTime (reach wd_step w h) <= last (wop_times h) lo.
Proof.
  induction h as [|o h IH]; intros w a lo Hk Hm; [simpl; auto|].
  rewrite wop_times_cons in *. apply mono_from_app in Hm. destruct Hm as [M1 M2].
  change (reach wd_step w (o :: h)) with (reach wd_step (fst (wd_step w o)) h).
  pose proof (wd_K_step o w a lo Hk M1) as K1.
  pose proof (IH _ _ _ K1 M2) as K2.
  replace (last (wop_times [o] ++ wop_times h) lo) with (last (wop_times h) (last (wop_times [o]) lo)).
  exact K2.
  destruct o; simpl; try reflexivity; symmetry; apply last_cons_default.
Qed.

Lemma watchdog_warning_spacing : forall t0 h1 n1 h2 n2,
  mono (wop_times (h1 ++ WPrintIfExpired n1 :: h2 ++ [WPrintIfExpired n2])) ->
  warns t0 h1 n1 = true ->
  warns t0 (h1 ++ WPrintIfExpired n1 :: h2) n2 = true ->
  n2 - n1 > kMinPrintPeriod.
Proof.
  intros t0 h1 n1 h2 n2 Hm W1 W2.
  apply mono_mono_from in Hm. destruct Hm as [tt Hm].
  rewrite wop_times_app in Hm. apply mono_from_app in Hm. destruct Hm as [_ Hm].
  rewrite wop_times_cons in Hm. change (wop_times [WPrintIfExpired n1]) with [n1] in Hm.
  change ([n1] ++ wop_times (h2 ++ [WPrintIfExpired n2])) with (n1 :: wop_times (h2 ++ [WPrintIfExpired n2])) in Hm.
  destruct Hm as [_ Hm]. rewrite wop_times_app in Hm. apply mono_from_app in Hm.
  destruct Hm as [M2 M3]. change (wop_times [WPrintIfExpired n2]) with [n2] in M3.
  destruct M3 as [M3 _].
  rewrite warns_spec in W2. apply andb_true_iff in W2. destruct W2 as [_ W2].
  apply Z.gtb_lt in W2.
  rewrite reach_app in W2.
  change (reach wd_step (reach wd_step (wd_new t0) h1) (WPrintIfExpired n1 :: h2))
    with (reach wd_step (fst (wd_step (reach wd_step (wd_new t0) h1) (WPrintIfExpired n1))) h2) in W2.
  rewrite wd_step_print in W2.
  set (w1 := reach wd_step (wd_new t0) h1) in *.
  destruct (wd_print_fields w1 n1) as (_ & _ & _ & L).
  unfold warns in W1. fold w1 in W1. rewrite W1 in L.
  destruct (wd_K h2 (fst (wd_printIfExpired w1 n1)) n1 n1 ltac:(lia) M2) as [Ka Kb].
  lia.
Qed.

(* ---- addEpoch is invisible --------------------------------------------------- *)
Definition weq (a b : watchdog) : Prop :=
  w_startTime a = w_startTime b /\ w_timeout a = w_timeout b /\
  w_expirationTime a = w_expirationTime b /\
  w_lastTimeoutPrintTime a = w_lastTimeoutPrintTime b /\
  w_lastEpochsPrintTime a = w_lastEpochsPrintTime b.

Lemma weq_refl : forall w, weq w w.
Proof. intros. unfold weq. tauto. Qed.

Lemma weq_epoch : forall w now name, weq (wd_addEpoch w now name) w.
Proof. intros. unfold weq. simpl. tauto. Qed.

Lemma weq_step : forall o a b, weq a b ->
  weq (fst (wd_step a o)) (fst (wd_step b o)) /\ snd (wd_step a o) = snd (wd_step b o).
Proof.
  intros o a b (E1 & E2 & E3 & E4 & E5).
  destruct o; simpl; unfold weq, wd_isExpired; simpl; rewrite ?E1, ?E2, ?E3, ?E4, ?E5; try tauto.
  unfold wd_printIfExpired. rewrite E3, E5.
  destruct (_ && _); simpl; rewrite ?E1, ?E2, ?E3, ?E4, ?E5; tauto.
Qed.

Lemma weq_trans : forall a b c, weq a b -> weq b c -> weq a c.
Proof. unfold weq. intros a b c (A1&A2&A3&A4&A5) (B1&B2&B3&B4&B5). repeat split; congruence. Qed.

Lemma epochs_invisible_gen : forall h a b, weq a b ->
  non_epoch_results h (run wd_step a h) = run wd_step b (drop_epochs h).
Proof.
  induction h as [|o h IH]; intros a b E; [reflexivity|].
  unfold non_epoch_results, drop_epochs in *.
  change (run wd_step a (o :: h)) with (snd (wd_step a o) :: run wd_step (fst (wd_step a o)) h).
  cbn [combine filter fst].
  destruct (is_epoch o) eqn:Ep; cbn [negb].
  - apply IH. destruct o; try discriminate. simpl.
    eapply weq_trans; [apply weq_epoch | exact E].
  - cbn [map snd run]. destruct (weq_step o a b E) as [E' R]. rewrite R. f_equal.
    apply IH. exact E'.
Qed.

Lemma epochs_invisible : forall t0 h,
  non_epoch_results h (wd_run t0 h) = wd_run t0 (drop_epochs h).
Proof. intros. apply epochs_invisible_gen. apply weq_refl. Qed.

Lemma weq_reach : forall h a b, weq a b ->
  weq (reach wd_step a h) (reach wd_step b (drop_epochs h)).
Proof.
  induction h as [|o h IH]; intros a b E; [exact E|].
  unfold drop_epochs in *. cbn [filter].
  change (reach wd_step a (o :: h)) with (reach wd_step (fst (wd_step a o)) h).
  destruct (is_epoch o) eqn:Ep; cbn [negb].
  - apply IH. destruct o; try discriminate. simpl.
    eapply weq_trans; [apply weq_epoch | exact E].
  - cbn [reach]. apply IH. apply weq_step. exact E.
Qed.

Lemma epochs_do_not_change_expiry : forall t0 h now,
  expired t0 h now = expired t0 (drop_epochs h) now /\
  warns t0 h now = warns t0 (drop_epochs h) now.
Proof.
  intros. pose proof (weq_reach h _ _ (weq_refl (wd_new t0))) as E.
  pose proof (weq_step (WIsExpired now) _ _ E) as [_ R1].
  pose proof (weq_step (WPrintIfExpired now) _ _ E) as [_ R2].
  split.
  - unfold expired. simpl in R1. congruence.
  - unfold warns. simpl in R2.
    destruct (wd_printIfExpired (reach wd_step (wd_new t0) h) now),
             (wd_printIfExpired (reach wd_step (wd_new t0) (drop_epochs h)) now).
    simpl in *. congruence.
Qed.

Lemma addEpoch_keeps_expiry : forall t0 h t name now,
  expired t0 (h ++ [WAddEpoch t name]) now = expired t0 h now /\
  warns t0 (h ++ [WAddEpoch t name]) now = warns t0 h now.
Proof.
  intros. unfold expired, warns. rewrite reach_snoc. simpl.
  unfold wd_isExpired, wd_printIfExpired. simpl. split; [reflexivity|].
  destruct (_ && _); reflexivity.
Qed.
