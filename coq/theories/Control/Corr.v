(* Comparison functions used by the generated correspondence files
   (work/C19/cases_*.v): run the model on a recorded history and list the
   indices of the cases where it disagrees with what the implementation
   returned.  No proofs in this file. *)
From Coq Require Import ZArith List Bool.
From RV Require Import Control.Machine Control.Toggle Control.Debounce Control.Filter Control.Watchdog.
Import ListNotations.
Open Scope Z_scope.

Section Bad.
  Context {A : Type} (ok : A -> bool).
  Fixpoint bad_from (i : nat) (l : list A) : list nat :=
    match l with
    | [] => []
    | c :: r => if ok c then bad_from (S i) r else i :: bad_from (S i) r
    end.
End Bad.

Section ListEq.
  Context {A : Type} (eqb : A -> A -> bool).
  Fixpoint list_eqb (a b : list A) : bool :=
    match a, b with
    | [], [] => true
    | x :: a', y :: b' => eqb x y && list_eqb a' b'
    | _, _ => false
    end.
End ListEq.

Definition obool_eqb (a b : option bool) : bool :=
  match a, b with
  | None, None => true
  | Some x, Some y => Bool.eqb x y
  | _, _ => false
  end.

(* short constructors for the generated files *)
Definition s := mkSample.
Definition r := mkRec.

(* Toggle: (debounce period, samples, returned values) *)
Definition toggle_ok (c : option Z * list sample * list bool) : bool :=
  let '(p, h, e) := c in list_eqb Bool.eqb (toggle_run p h) e.

(* ButtonDebouncer: (period, calls, results; None for set_debounce_period) *)
Definition deb_ok (c : Z * list bop * list (option bool)) : bool :=
  let '(p, h, e) := c in list_eqb obool_eqb (deb_run p h) e.

(* PeriodicFilter: (period, bypass level, records, results of filter()) *)
Definition pf_ok (c : Z * Z * list lrec * list bool) : bool :=
  let '(p, b, h, e) := c in list_eqb Bool.eqb (pf_run p b h) e.

(* SimpleWatchdog: what the property speaks about is compared, the rest is
   masked: isExpired() and the number of warnings of printIfExpired() once
   the watchdog has been fed (reset/enable/setTimeout) for the first time;
   getTime()/getTimeout() values, return values of the other calls and
   anything before the first feed are left open. *)
Inductive wobs := WN | WE (b : bool) | WP (warnings : nat).

Definition wobs_eqb (a b : wobs) : bool :=
  match a, b with
  | WN, WN => true
  | WE x, WE y => Bool.eqb x y
  | WP x, WP y => Nat.eqb x y
  | _, _ => false
  end.

Definition is_feed (o : wop) : bool :=
  match o with WReset _ | WEnable _ | WSetTimeout _ _ => true | _ => false end.

Fixpoint wmask (fed : bool) (h : list wop) (outs : list wout) : list wobs :=
  match h, outs with
  | o :: h', x :: outs' =>
      (match x with
       | OExpired b => if fed then WE b else WN
       | OPrint b => if fed then WP (if b then 1 else 0) else WN
       | _ => WN
       end) :: wmask (fed || is_feed o) h' outs'
  | _, _ => []
  end.

Definition wd_ok (c : Z * list wop * list wobs) : bool :=
  let '(t0, h, e) := c in list_eqb wobs_eqb (wmask false h (wd_run t0 h)) e.
