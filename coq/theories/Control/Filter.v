(* Model of robotpy_ext/misc/periodic_filter.py (PeriodicFilter), field for
   field.  Clock readings (time.monotonic) and the period are integer ticks,
   logging levels are integers.  No proofs in this file. *)
From Coq Require Import ZArith List Bool.
From RV Require Import Control.Machine.
Import ListNotations.
Open Scope Z_scope.

(* one call of filter(record): the clock reading and record.levelno *)
Record lrec := mkRec { r_now : Z; r_level : Z }.

(* self._period, self._loggingLoop, self._last_log, self._bypass_level *)
Record pfilter := mkPF { f_period : Z; f_loggingLoop : bool; f_last_log : Z; f_bypass : Z }.

(* __init__(period, bypass_level): _loggingLoop = True; _last_log = -period *)
Definition pf_new (period bypass : Z) : pfilter := mkPF period true (- period) bypass.

(* _refresh_logger():
     now = time.monotonic()
     self._loggingLoop = False
     if now - self._last_log > self._period:
         self._loggingLoop = True
         self._last_log = now                                                *)
Definition pf_refresh (f : pfilter) (now : Z) : pfilter :=
  if now - f_last_log f >? f_period f
  then mkPF (f_period f) true now (f_bypass f)
  else mkPF (f_period f) false (f_last_log f) (f_bypass f).

(* filter(record): self._refresh_logger()
                   return self._loggingLoop or record.levelno >= self._bypass_level *)
Definition pf_filter (f : pfilter) (r : lrec) : pfilter * bool :=
  let f' := pf_refresh f (r_now r) in
  (f', f_loggingLoop f' || (r_level r >=? f_bypass f')).

Definition pf_run (period bypass : Z) (h : list lrec) : list bool :=
  run pf_filter (pf_new period bypass) h.

(* ---- vocabulary of the theorems ----------------------------------------- *)
(* does the record [r] pass a fresh PeriodicFilter(period, bypass) that has
   already filtered the records [h] *)
Definition passes (period bypass : Z) (h : list lrec) (r : lrec) : bool :=
  out pf_filter (pf_new period bypass) h r.
