(* Generic facts about [reach]/[run]/[out] and [mono_from]. *)
From Coq Require Import ZArith List Lia.
From RV Require Import Control.Machine.
Import ListNotations.
Open Scope Z_scope.

Section Machine.
  Context {St Op Res : Type} (step : St -> Op -> St * Res).

  Lemma reach_app : forall h1 h2 s,
    reach step s (h1 ++ h2) = reach step (reach step s h1) h2.
  Proof. induction h1; intros; simpl; auto. Qed.

  Lemma reach_snoc : forall h o s,
    reach step s (h ++ [o]) = fst (step (reach step s h) o).
  Proof. intros. rewrite reach_app. reflexivity. Qed.

  Lemma run_app : forall h1 h2 s,
    run step s (h1 ++ h2) = run step s h1 ++ run step (reach step s h1) h2.
  Proof. induction h1; intros; simpl; auto. f_equal. apply IHh1. Qed.

  (* the result of the last call of a history is [out] after the calls before it *)
  Lemma run_snoc : forall h o s,
    run step s (h ++ [o]) = run step s h ++ [out step s h o].
  Proof. intros. rewrite run_app. reflexivity. Qed.

  Lemma run_length : forall h s, length (run step s h) = length h.
  Proof. induction h; intros; simpl; auto. Qed.

  (* the k-th result of a run is [out] after the first k calls *)
  Lemma run_nth : forall h s k o,
    nth_error h k = Some o ->
    nth_error (run step s h) k = Some (out step s (firstn k h) o).
  Proof.
    induction h; intros s k o H; destruct k; simpl in *; try discriminate.
    - inversion H; subst. reflexivity.
    - apply IHh. exact H.
  Qed.
End Machine.

Lemma mono_from_weaken : forall l a b, a <= b -> mono_from b l -> mono_from a l.
Proof. destruct l; simpl; intros; auto. split; try lia. tauto. Qed.

Lemma last_cons_default : forall (A : Type) (l : list A) (a d : A), last (a :: l) d = last l a.
Proof. induction l; intros; auto. change (last (a0 :: a :: l) d) with (last (a :: l) d). rewrite (IHl a d), (IHl a a0). reflexivity. Qed.

Lemma mono_from_app : forall l1 l2 t0,
  mono_from t0 (l1 ++ l2) <-> mono_from t0 l1 /\ mono_from (last l1 t0) l2.
Proof.
  induction l1; intros.
  - simpl. tauto.
  - rewrite last_cons_default. simpl. rewrite IHl1. tauto.
Qed.

Lemma mono_from_last : forall l t0, mono_from t0 l -> t0 <= last l t0.
Proof.
  induction l; intros t0 H.
  - simpl. lia.
  - rewrite last_cons_default. destruct H as [H1 H2]. specialize (IHl _ H2). lia.
Qed.

Lemma last_snoc : forall (A : Type) (l : list A) (a d : A), last (l ++ [a]) d = a.
Proof.
  induction l; intros; auto.
  change ((a :: l) ++ [a0]) with (a :: (l ++ [a0])). rewrite last_cons_default. apply IHl.
Qed.

Lemma mono_mono_from : forall l, mono l -> exists t0, mono_from t0 l.
Proof. destruct l; simpl; intros. exists 0; auto. exists z. split; auto; lia. Qed.

Lemma mono_from_mono : forall l t0, mono_from t0 l -> mono l.
Proof. destruct l; simpl; intros; tauto. Qed.
