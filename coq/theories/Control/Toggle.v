(* Model of robotpy_ext/control/toggle.py (Toggle and Toggle._SteadyDebounce),
   field for field.  Clock readings are integer ticks (Z).  No proofs here. *)
From Coq Require Import ZArith List Bool.
From RV Require Import Control.Machine.
Import ListNotations.
Open Scope Z_scope.

(* which accessor takes the sample: get(), .on, .off, bool(toggle) *)
Inductive accessor := AGet | AOn | AOff | ABool.

(* one sample: the FPGA clock reading at the call, the raw button level the
   joystick would report, the accessor used *)
Record sample := mkSample { s_now : Z; s_level : bool; s_acc : accessor }.

Definition with_acc (s : sample) (a : accessor) : sample :=
  mkSample (s_now s) (s_level s) a.

(* ---- Toggle._SteadyDebounce ------------------------------------------- *)
(* self.latest, self.debounce_period, self.enabled (never read) *)
Record steady := mkSteady { sd_latest : Z; sd_period : Z; sd_enabled : bool }.

(* __init__: latest = -debounce_period; enabled = False *)
Definition sd_new (period : Z) : steady := mkSteady (- period) period false.

(* get():
     now = getFPGATimestamp()
     if now - self.latest < self.debounce_period: return True
     if joystick.getRawButton(button): self.latest = now; return True
     else: return False                                                      *)
Definition sd_get (d : steady) (now : Z) (pressed : bool) : steady * bool :=
  if now - sd_latest d <? sd_period d then (d, true)
  else if pressed then (mkSteady now (sd_period d) (sd_enabled d), true)
  else (d, false).

Definition sd_step (d : steady) (s : sample) : steady * bool :=
  sd_get d (s_now s) (s_level s).

(* ---- Toggle -------------------------------------------------------------- *)
(* self.released, self.toggle, self.state.  (NB the code's [released] is True
   while the button is seen pressed.) *)
Record toggle := mkToggle { released : bool; tgl : bool; state : bool }.

(* the object: the bound joystickget (raw button, or a _SteadyDebounce.get)
   and the three flags *)
Record toggle_obj := mkObj { o_deb : option steady; o_tg : toggle }.

(* __init__(joystick, button, debounce_period=None) *)
Definition toggle_new (period : option Z) : toggle_obj :=
  mkObj (option_map sd_new period) (mkToggle false false false).

(* current_state = self.joystickget() *)
Definition joystickget (o : toggle_obj) (now : Z) (pressed : bool) : option steady * bool :=
  match o_deb o with
  | None => (None, pressed)
  | Some d => let (d', c) := sd_get d now pressed in (Some d', c)
  end.

(* get():
     if current_state and not self.released:
         released = True; toggle = not toggle; state = not state
     elif not current_state and self.released:
         released = False
     return self.toggle                                                      *)
Definition tg_get (t : toggle) (cur : bool) : toggle :=
  if cur && negb (released t) then mkToggle true (negb (tgl t)) (negb (state t))
  else if negb cur && released t then mkToggle false (tgl t) (state t)
  else t.

(* get()/__bool__ return self.toggle; on: self.get(); return self.state;
   off: self.get(); return not self.state *)
Definition tg_read (t : toggle) (a : accessor) : bool :=
  match a with
  | AGet | ABool => tgl t
  | AOn => state t
  | AOff => negb (state t)
  end.

Definition toggle_sample (o : toggle_obj) (s : sample) : toggle_obj * bool :=
  let (deb', cur) := joystickget o (s_now s) (s_level s) in
  let t' := tg_get (o_tg o) cur in
  (mkObj deb' t', tg_read t' (s_acc s)).

(* all return values of a sample history on a fresh Toggle *)
Definition toggle_run (period : option Z) (h : list sample) : list bool :=
  run toggle_sample (toggle_new period) h.

(* ---- vocabulary of the theorems ----------------------------------------- *)
(* the toggle's value (self.toggle) after the samples [h] of a fresh Toggle *)
Definition value (period : option Z) (h : list sample) : bool :=
  tgl (o_tg (reach toggle_sample (toggle_new period) h)).

(* what the accessor [a] must return when the value is [v] *)
Definition shows (a : accessor) (v : bool) : bool :=
  match a with AOff => negb v | _ => v end.

(* number of released->pressed edges in a list of levels, the level before
   the first one being [prev] *)
Fixpoint rising (prev : bool) (l : list bool) : nat :=
  match l with
  | [] => O
  | b :: r => ((if b && negb prev then 1 else 0) + rising b r)%nat
  end.

(* the levels the toggle logic sees through a _SteadyDebounce of period p *)
Definition debounced (p : Z) (h : list sample) : list bool :=
  run sd_step (sd_new p) h.
