(* Shared vocabulary of the four C19 models: a deterministic transition system
   [step : state -> op -> state * result] folded over a history, and
   "clock readings never go backwards".  No proofs in this file. *)
From Coq Require Import ZArith List.
Import ListNotations.
Open Scope Z_scope.

Section Machine.
  Context {St Op Res : Type} (step : St -> Op -> St * Res).

  (* state after the history [h], starting in [s] *)
  Fixpoint reach (s : St) (h : list Op) : St :=
    match h with
    | [] => s
    | o :: r => reach (fst (step s o)) r
    end.

  (* everything the calls of [h] returned, in order *)
  Fixpoint run (s : St) (h : list Op) : list Res :=
    match h with
    | [] => []
    | o :: r => snd (step s o) :: run (fst (step s o)) r
    end.

  (* what the call [o] returns when it is made after the history [h] *)
  Definition out (s : St) (h : list Op) (o : Op) : Res :=
    snd (step (reach s h) o).
End Machine.

(* [mono_from t0 l]: the readings [l] are non-decreasing and none is
   earlier than [t0]. *)
Fixpoint mono_from (t0 : Z) (l : list Z) : Prop :=
  match l with
  | [] => True
  | t :: r => t0 <= t /\ mono_from t r
  end.

(* non-decreasing, no lower bound *)
Definition mono (l : list Z) : Prop :=
  match l with
  | [] => True
  | t :: r => mono_from t r
  end.
