(* Model of robotpy_ext/control/button_debouncer.py (ButtonDebouncer), field
   for field.  Clock readings and periods are integer ticks.  No proofs. *)
From Coq Require Import ZArith List Bool.
From RV Require Import Control.Machine.
Import ListNotations.
Open Scope Z_scope.

(* calls: get() / bool(obj) with the clock reading and the raw button level
   at that instant; set_debounce_period(p) *)
Inductive bop := BGet (now : Z) (pressed : bool) | BSetPeriod (p : Z).

(* self.latest, self.debounce_period (joystick, buttonnum, timer are the
   environment: they supply [now] and [pressed]) *)
Record debouncer := mkDeb { b_latest : Z; b_period : Z }.

(* __init__: latest = 0; debounce_period = float(period) *)
Definition deb_new (period : Z) : debouncer := mkDeb 0 period.

(* get():
     now = self.timer.getFPGATimestamp()
     if self.joystick.getRawButton(self.buttonnum):
         if (now - self.latest) > self.debounce_period:
             self.latest = now
             return True
     return False                                                            *)
Definition deb_get (d : debouncer) (now : Z) (pressed : bool) : debouncer * bool :=
  if pressed then
    if now - b_latest d >? b_period d then (mkDeb now (b_period d), true)
    else (d, false)
  else (d, false).

Definition deb_step (d : debouncer) (o : bop) : debouncer * option bool :=
  match o with
  | BGet now pressed => let (d', r) := deb_get d now pressed in (d', Some r)
  | BSetPeriod p => (mkDeb (b_latest d) p, None)
  end.

Definition deb_run (period : Z) (h : list bop) : list (option bool) :=
  run deb_step (deb_new period) h.

(* ---- vocabulary of the theorems ----------------------------------------- *)
(* what get() returns at clock reading [now] with the button at [pressed],
   after the calls [h] on a fresh ButtonDebouncer(period) *)
Definition deb_result (period : Z) (h : list bop) (now : Z) (pressed : bool) : bool :=
  snd (deb_get (reach deb_step (deb_new period) h) now pressed).

(* the clock readings taken by the calls of a history *)
Definition bop_times (h : list bop) : list Z :=
  flat_map (fun o => match o with BGet now _ => [now] | BSetPeriod _ => [] end) h.

(* the period in force after the calls [h]: the last one set, else [p] *)
Fixpoint period_of (p : Z) (h : list bop) : Z :=
  match h with
  | [] => p
  | BSetPeriod q :: r => period_of q r
  | BGet _ _ :: r => period_of p r
  end.

(* the clock reading of the last get() of [h] that returned True according
   to the results [rs]; [a] if there is none *)
Fixpoint anchor_of (a : Z) (h : list bop) (rs : list (option bool)) : Z :=
  match h, rs with
  | BGet now _ :: h', Some true :: rs' => anchor_of now h' rs'
  | _ :: h', _ :: rs' => anchor_of a h' rs'
  | _, _ => a
  end.

(* time of the last True of a fresh debouncer's history; the code's initial
   [latest = 0] (FPGA boot) when there has been none *)
Definition last_true (period : Z) (h : list bop) : Z :=
  anchor_of 0 h (deb_run period h).
