(* Proofs about the ButtonDebouncer model (C19). *)
From Coq Require Import ZArith List Bool Lia.
From RV Require Import Control.Machine Control.MachineProofs Control.Debounce.
Import ListNotations.
Open Scope Z_scope.

Lemma deb_out_get : forall p h now lvl,
  out deb_step (deb_new p) h (BGet now lvl) = Some (deb_result p h now lvl).
Proof.
  intros. unfold out, deb_result. simpl.
  destruct (deb_get _ now lvl). reflexivity.
Qed.

Lemma deb_out_set : forall p h q, out deb_step (deb_new p) h (BSetPeriod q) = None.
Proof. reflexivity. Qed.

Lemma deb_get_spec : forall d now lvl,
  snd (deb_get d now lvl) = lvl && (now - b_latest d >? b_period d).
Proof. intros. unfold deb_get. destruct lvl; simpl; auto. destruct (_ >? _); auto. Qed.

Lemma deb_get_latest : forall d now lvl,
  b_latest (fst (deb_get d now lvl)) = (if snd (deb_get d now lvl) then now else b_latest d) /\
  b_period (fst (deb_get d now lvl)) = b_period d.
Proof. intros. unfold deb_get. destruct lvl; simpl; auto. destruct (_ >? _); auto. Qed.

Lemma deb_true_only_when_pressed : forall p h now lvl,
  deb_result p h now lvl = true -> lvl = true.
Proof. intros p h now lvl. unfold deb_result. rewrite deb_get_spec. destruct lvl; auto. Qed.

(* the two fields are what the declarative readings of the history say *)
Lemma deb_state : forall h d,
  b_latest (reach deb_step d h) = anchor_of (b_latest d) h (run deb_step d h) /\
  b_period (reach deb_step d h) = period_of (b_period d) h.
Proof.
  induction h as [|o h IH]; intros d; [simpl; auto|].
  destruct o as [now lvl | q].
  - change (reach deb_step d (BGet now lvl :: h))
      with (reach deb_step (fst (deb_step d (BGet now lvl))) h).
    change (run deb_step d (BGet now lvl :: h))
      with (snd (deb_step d (BGet now lvl)) :: run deb_step (fst (deb_step d (BGet now lvl))) h).
    assert (E1 : fst (deb_step d (BGet now lvl)) = fst (deb_get d now lvl))
      by (simpl; destruct (deb_get d now lvl); reflexivity).
    assert (E2 : snd (deb_step d (BGet now lvl)) = Some (snd (deb_get d now lvl)))
      by (simpl; destruct (deb_get d now lvl); reflexivity).
    rewrite E1, E2. destruct (IH (fst (deb_get d now lvl))) as [A B].
    destruct (deb_get_latest d now lvl) as [L P].
    rewrite A, B, L, P. simpl. destruct (snd (deb_get d now lvl)); auto.
  - simpl. destruct (IH (mkDeb (b_latest d) q)) as [A B]. simpl in A, B. auto.
Qed.

Lemma deb_exact : forall p h now lvl,
  deb_result p h now lvl = lvl && (now - last_true p h >? period_of p h).
Proof.
  intros. unfold deb_result, last_true, deb_run. rewrite deb_get_spec.
  destruct (deb_state h (deb_new p)) as [A B]. rewrite A, B. reflexivity.
Qed.

Lemma deb_liveness : forall p h now,
  now - last_true p h > period_of p h -> deb_result p h now true = true.
Proof. intros. rewrite deb_exact. simpl. apply Z.gtb_lt. lia. Qed.

(* the anchor stays between a known earlier reading and the latest reading *)
Lemma deb_K : forall h d a lo,
  a <= b_latest d <= lo -> mono_from lo (bop_times h) ->
  a <= b_latest (reach deb_step d h) <= last (bop_times h) lo /\
  b_period (reach deb_step d h) = period_of (b_period d) h.
Proof.
  induction h as [|o h IH]; intros d a lo Hk Hm; [simpl; auto|].
  destruct o as [now lvl | q].
  - change (bop_times (BGet now lvl :: h)) with (now :: bop_times h) in *.
    rewrite last_cons_default. destruct Hm as [M1 M2].
    change (reach deb_step d (BGet now lvl :: h))
      with (reach deb_step (fst (deb_step d (BGet now lvl))) h).
    assert (E1 : fst (deb_step d (BGet now lvl)) = fst (deb_get d now lvl))
      by (simpl; destruct (deb_get d now lvl); reflexivity).
    rewrite E1. destruct (deb_get_latest d now lvl) as [L P].
    change (period_of (b_period d) (BGet now lvl :: h)) with (period_of (b_period d) h).
    rewrite <- P. apply IH; auto. rewrite L. destruct (snd (deb_get d now lvl)); lia.
  - change (bop_times (BSetPeriod q :: h)) with (bop_times h) in *.
    change (reach deb_step d (BSetPeriod q :: h)) with (reach deb_step (mkDeb (b_latest d) q) h).
    change (period_of (b_period d) (BSetPeriod q :: h)) with (period_of (b_period (mkDeb (b_latest d) q)) h).
    apply IH; auto.
Qed.

Lemma bop_times_app : forall h1 h2, bop_times (h1 ++ h2) = bop_times h1 ++ bop_times h2.
Proof. intros. unfold bop_times. apply flat_map_app. Qed.

Lemma period_of_app : forall h1 h2 p, period_of p (h1 ++ h2) = period_of (period_of p h1) h2.
Proof. induction h1 as [|[]]; intros; simpl; auto. Qed.

Lemma deb_spacing : forall p h1 n1 l1 h2 n2 l2,
  mono (bop_times (h1 ++ BGet n1 l1 :: h2 ++ [BGet n2 l2])) ->
  deb_result p h1 n1 l1 = true ->
  deb_result p (h1 ++ BGet n1 l1 :: h2) n2 l2 = true ->
  n2 - n1 > period_of p (h1 ++ BGet n1 l1 :: h2).
Proof.
  intros p h1 n1 l1 h2 n2 l2 Hm R1 R2.
  apply mono_mono_from in Hm. destruct Hm as [t0 Hm].
  rewrite bop_times_app in Hm. apply mono_from_app in Hm. destruct Hm as [_ Hm].
  change (bop_times (BGet n1 l1 :: h2 ++ [BGet n2 l2])) with (n1 :: bop_times (h2 ++ [BGet n2 l2])) in Hm.
  destruct Hm as [_ Hm]. rewrite bop_times_app in Hm. apply mono_from_app in Hm.
  destruct Hm as [M2 M3]. simpl in M3. destruct M3 as [M3 _].
  unfold deb_result in R1, R2.
  rewrite reach_app in R2.
  change (reach deb_step (reach deb_step (deb_new p) h1) (BGet n1 l1 :: h2))
    with (reach deb_step (fst (deb_step (reach deb_step (deb_new p) h1) (BGet n1 l1))) h2) in R2.
  set (d1 := reach deb_step (deb_new p) h1) in *.
  assert (E1 : fst (deb_step d1 (BGet n1 l1)) = fst (deb_get d1 n1 l1))
    by (simpl; destruct (deb_get d1 n1 l1); reflexivity).
  rewrite E1 in R2.
  destruct (deb_get_latest d1 n1 l1) as [L P]. rewrite R1 in L.
  destruct (deb_K h2 (fst (deb_get d1 n1 l1)) n1 n1 ltac:(lia) M2) as [[Ka Kb] Kp].
  rewrite deb_get_spec in R2. apply andb_true_iff in R2. destruct R2 as [_ R2].
  apply Z.gtb_lt in R2.
  rewrite period_of_app. change (period_of (period_of p h1) (BGet n1 l1 :: h2)) with (period_of (period_of p h1) h2).
  rewrite Kp, P in R2. destruct (deb_state h1 (deb_new p)) as [_ B]. fold d1 in B. simpl in B.
  rewrite B in R2. lia.
Qed.
