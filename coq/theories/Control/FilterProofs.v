(* Proofs about the PeriodicFilter model (C19). *)
From Coq Require Import ZArith List Bool Lia.
From RV Require Import Control.Machine Control.MachineProofs Control.Filter.
Import ListNotations.
Open Scope Z_scope.

Lemma pf_refresh_consts : forall f now,
  f_period (pf_refresh f now) = f_period f /\ f_bypass (pf_refresh f now) = f_bypass f.
Proof. intros. unfold pf_refresh. destruct (_ >? _); auto. Qed.

Lemma pf_consts : forall h f,
  f_period (reach pf_filter f h) = f_period f /\ f_bypass (reach pf_filter f h) = f_bypass f.
Proof.
  induction h; intros; simpl; auto.
  destruct (IHh (pf_refresh f (r_now a))) as [A B].
  destruct (pf_refresh_consts f (r_now a)) as [C D]. rewrite A, B. auto.
Qed.

Lemma pf_filter_snd : forall f r,
  snd (pf_filter f r) = f_loggingLoop (pf_refresh f (r_now r)) || (r_level r >=? f_bypass f).
Proof.
  intros. destruct (pf_refresh_consts f (r_now r)) as [_ B]. rewrite <- B. reflexivity.
Qed.

Lemma passes_spec : forall period bypass h r,
  passes period bypass h r =
  f_loggingLoop (pf_refresh (reach pf_filter (pf_new period bypass) h) (r_now r))
  || (r_level r >=? bypass).
Proof.
  intros. unfold passes, out. rewrite pf_filter_snd.
  destruct (pf_consts h (pf_new period bypass)) as [_ D].
  rewrite D. reflexivity.
Qed.

Lemma filter_bypass_always_passes : forall period bypass h r,
  r_level r >= bypass -> passes period bypass h r = true.
Proof.
  intros. rewrite passes_spec. apply orb_true_iff. right. apply Z.geb_le. lia.
Qed.

(* a record below the bypass level passes exactly when the refresh fires *)
Lemma low_passes : forall period bypass h r,
  r_level r < bypass ->
  passes period bypass h r =
  (r_now r - f_last_log (reach pf_filter (pf_new period bypass) h) >? period).
Proof.
  intros. rewrite passes_spec.
  replace (r_level r >=? bypass) with false by (symmetry; rewrite Z.geb_leb; apply Z.leb_gt; lia).
  rewrite orb_false_r. unfold pf_refresh.
  destruct (pf_consts h (pf_new period bypass)) as [C _]. simpl in C. rewrite C.
  destruct (_ >? _); reflexivity.
Qed.

Lemma pf_K_step : forall f now a lo,
  a <= f_last_log f <= lo -> lo <= now ->
  a <= f_last_log (pf_refresh f now) <= now.
Proof. intros. unfold pf_refresh. destruct (_ >? _); simpl; lia. Qed.

Lemma pf_K : forall h f a lo,
  a <= f_last_log f <= lo -> mono_from lo (map r_now h) ->
  a <= f_last_log (reach pf_filter f h) <= last (map r_now h) lo.
Proof.
  induction h as [|r h IH]; intros f a lo Hk Hm; [simpl; auto|].
  change (map r_now (r :: h)) with (r_now r :: map r_now h) in *.
  rewrite last_cons_default. destruct Hm as [M1 M2].
  change (reach pf_filter f (r :: h)) with (reach pf_filter (pf_refresh f (r_now r)) h).
  apply IH; auto. eapply pf_K_step; eauto.
Qed.

Lemma filter_low_spacing : forall period bypass h1 r1 h2 r2,
  mono (map r_now (h1 ++ r1 :: h2 ++ [r2])) ->
  r_level r1 < bypass -> r_level r2 < bypass ->
  passes period bypass h1 r1 = true ->
  passes period bypass (h1 ++ r1 :: h2) r2 = true ->
  r_now r2 - r_now r1 > period.
Proof.
  intros period bypass h1 r1 h2 r2 Hm L1 L2 P1 P2.
  apply mono_mono_from in Hm. destruct Hm as [t0 Hm].
  rewrite map_app in Hm. apply mono_from_app in Hm. destruct Hm as [_ Hm].
  change (map r_now (r1 :: h2 ++ [r2])) with (r_now r1 :: map r_now (h2 ++ [r2])) in Hm.
  destruct Hm as [_ Hm]. rewrite map_app in Hm. apply mono_from_app in Hm.
  destruct Hm as [M2 M3]. simpl in M3. destruct M3 as [M3 _].
  rewrite low_passes in P1, P2 by assumption.
  rewrite reach_app in P2.
  change (reach pf_filter (reach pf_filter (pf_new period bypass) h1) (r1 :: h2))
    with (reach pf_filter (pf_refresh (reach pf_filter (pf_new period bypass) h1) (r_now r1)) h2) in P2.
  set (f1 := reach pf_filter (pf_new period bypass) h1) in *.
  assert (E : f_last_log (pf_refresh f1 (r_now r1)) = r_now r1).
  { unfold pf_refresh. destruct (pf_consts h1 (pf_new period bypass)) as [C _]. fold f1 in C.
    simpl in C. rewrite C, P1. reflexivity. }
  destruct (pf_K h2 (pf_refresh f1 (r_now r1)) (r_now r1) (r_now r1) ltac:(lia) M2) as [Ka Kb].
  apply Z.gtb_lt in P2. lia.
Qed.

(* every result of filter() is one of the two allowed reasons *)
Lemma low_pass_needs_period : forall period bypass h r,
  passes period bypass h r = true ->
  r_level r >= bypass \/
  r_now r - f_last_log (reach pf_filter (pf_new period bypass) h) > period.
Proof.
  intros. destruct (Z_lt_ge_dec (r_level r) bypass) as [L|L]; auto.
  right. rewrite low_passes in H by assumption. apply Z.gtb_lt in H. lia.
Qed.
