(* Proofs about the Toggle model (C19). *)
From Coq Require Import ZArith List Bool Lia Arith.
From RV Require Import Control.Machine Control.MachineProofs Control.Toggle.
Import ListNotations.
Open Scope Z_scope.

Lemma cons_app : forall (A : Type) (h1 : list A) s r, h1 ++ s :: r = (h1 ++ [s]) ++ r.
Proof. intros. rewrite <- app_assoc. reflexivity. Qed.

(* ---- the flag logic ------------------------------------------------------ *)
Lemma tg_get_released : forall t cur, released (tg_get t cur) = cur.
Proof. intros [r g s] cur. unfold tg_get. simpl. destruct cur, r; reflexivity. Qed.

Lemma tg_get_tgl : forall t cur,
  tgl (tg_get t cur) = xorb (tgl t) (cur && negb (released t)).
Proof. intros [r g s] cur. unfold tg_get. simpl. destruct cur, r, g; reflexivity. Qed.

Lemma tg_get_same : forall t cur,
  tgl t = state t -> tgl (tg_get t cur) = state (tg_get t cur).
Proof. intros [r g s] cur. unfold tg_get. simpl. intros ->. destruct cur, r; reflexivity. Qed.

Lemma sample_tg : forall o s,
  o_tg (fst (toggle_sample o s)) = tg_get (o_tg o) (snd (joystickget o (s_now s) (s_level s))).
Proof. intros. unfold toggle_sample. destruct (joystickget o (s_now s) (s_level s)). reflexivity. Qed.

Lemma sample_deb : forall o s,
  o_deb (fst (toggle_sample o s)) = fst (joystickget o (s_now s) (s_level s)).
Proof. intros. unfold toggle_sample. destruct (joystickget o (s_now s) (s_level s)). reflexivity. Qed.

Lemma sample_ret : forall o s,
  snd (toggle_sample o s) = tg_read (o_tg (fst (toggle_sample o s))) (s_acc s).
Proof. intros. unfold toggle_sample. destruct (joystickget o (s_now s) (s_level s)). reflexivity. Qed.

(* self.toggle and self.state never differ *)
Lemma same_reach : forall h o,
  tgl (o_tg o) = state (o_tg o) ->
  tgl (o_tg (reach toggle_sample o h)) = state (o_tg (reach toggle_sample o h)).
Proof.
  induction h; intros o H; simpl; auto.
  apply IHh. rewrite sample_tg. apply tg_get_same. exact H.
Qed.

Lemma same_new : forall p h,
  tgl (o_tg (reach toggle_sample (toggle_new p) h)) = state (o_tg (reach toggle_sample (toggle_new p) h)).
Proof. intros. apply same_reach. reflexivity. Qed.

(* every accessor returns (its view of) the value after its own sample *)
Lemma accessors_report_value : forall p h s,
  out toggle_sample (toggle_new p) h s = shows (s_acc s) (value p (h ++ [s])).
Proof.
  intros. unfold out, value. rewrite reach_snoc, sample_ret.
  pose proof (same_new p (h ++ [s])) as E. rewrite reach_snoc in E.
  unfold tg_read, shows. destruct (s_acc s); rewrite <- ?E; reflexivity.
Qed.

(* which accessor takes the sample makes no difference to the state *)
Lemma any_accessor_samples : forall p h s a,
  reach toggle_sample (toggle_new p) (h ++ [with_acc s a]) =
  reach toggle_sample (toggle_new p) (h ++ [s]).
Proof.
  intros. rewrite !reach_snoc. unfold toggle_sample, with_acc. simpl.
  destruct (joystickget _ (s_now s) (s_level s)). reflexivity.
Qed.

Lemma on_is_not_off : forall p h now lvl,
  out toggle_sample (toggle_new p) h (mkSample now lvl AOn) =
  negb (out toggle_sample (toggle_new p) h (mkSample now lvl AOff)).
Proof.
  intros. rewrite !accessors_report_value. simpl.
  change (mkSample now lvl AOn) with (with_acc (mkSample now lvl AOff) AOn).
  unfold value. rewrite any_accessor_samples. rewrite negb_involutive. reflexivity.
Qed.

Lemma get_is_on_is_bool : forall p h now lvl,
  out toggle_sample (toggle_new p) h (mkSample now lvl AGet) =
  out toggle_sample (toggle_new p) h (mkSample now lvl AOn) /\
  out toggle_sample (toggle_new p) h (mkSample now lvl ABool) =
  out toggle_sample (toggle_new p) h (mkSample now lvl AOn).
Proof.
  intros. rewrite !accessors_report_value. simpl. unfold value.
  change (mkSample now lvl AGet) with (with_acc (mkSample now lvl AOn) AGet).
  change (mkSample now lvl ABool) with (with_acc (mkSample now lvl AOn) ABool).
  rewrite !any_accessor_samples. split; reflexivity.
Qed.

(* ---- rising edges --------------------------------------------------------- *)
Lemma rising_snoc : forall l prev b,
  rising prev (l ++ [b]) = (rising prev l + (if b && negb (last l prev) then 1 else 0))%nat.
Proof.
  induction l; intros prev b.
  - simpl. lia.
  - change ((a :: l) ++ [b]) with (a :: (l ++ [b])). rewrite last_cons_default.
    simpl. rewrite IHl. lia.
Qed.

Lemma odd_add_bit : forall n (c : bool),
  Nat.odd (n + (if c then 1 else 0)) = xorb (Nat.odd n) c.
Proof.
  intros. rewrite Nat.odd_add. destruct c; simpl; auto.
Qed.

(* ---- the undebounced toggle ---------------------------------------------- *)
Lemma plain_reach : forall h t,
  let o' := reach toggle_sample (mkObj None t) h in
  o_deb o' = None /\
  tgl (o_tg o') = xorb (tgl t) (Nat.odd (rising (released t) (map s_level h))) /\
  released (o_tg o') = last (map s_level h) (released t).
Proof.
  induction h; intros t.
  - simpl. rewrite xorb_false_r. auto.
  - cbn zeta. change (reach toggle_sample (mkObj None t) (a :: h))
      with (reach toggle_sample (fst (toggle_sample (mkObj None t) a)) h).
    assert (E : fst (toggle_sample (mkObj None t) a) = mkObj None (tg_get t (s_level a))) by reflexivity.
    rewrite E. destruct (IHh (tg_get t (s_level a))) as (A & B & C).
    split; [exact A|]. split.
    + rewrite B, tg_get_tgl, tg_get_released.
      change (map s_level (a :: h)) with (s_level a :: map s_level h).
      cbn [rising]. rewrite Nat.add_comm, odd_add_bit.
      rewrite xorb_assoc. f_equal. apply xorb_comm.
    + rewrite C, tg_get_released.
      change (map s_level (a :: h)) with (s_level a :: map s_level h).
      rewrite last_cons_default. reflexivity.
Qed.

Lemma toggle_parity : forall h,
  value None h = Nat.odd (rising false (map s_level h)).
Proof. intros. unfold value. destruct (plain_reach h (mkToggle false false false)) as (_ & B & _). cbn [tgl released] in B. rewrite xorb_false_l in B. exact B. Qed.

Lemma toggle_step_value : forall h s,
  value None (h ++ [s]) = xorb (value None h) (s_level s && negb (last (map s_level h) false)).
Proof.
  intros. rewrite !toggle_parity, map_app. simpl. rewrite rising_snoc. apply odd_add_bit.
Qed.

Lemma xorb_changes : forall v x, xorb v x <> v <-> x = true.
Proof. destruct v, x; simpl; split; intros; try congruence; try reflexivity; try (exfalso; apply H; reflexivity). Qed.

Lemma toggle_changes_exactly_at_rising_edges : forall h s,
  value None (h ++ [s]) <> value None h <->
  (s_level s = true /\ last (map s_level h) false = false).
Proof.
  intros. rewrite toggle_step_value, xorb_changes, andb_true_iff, negb_true_iff. tauto.
Qed.

Lemma toggle_steady_level_no_change : forall h s,
  s_level s = last (map s_level h) false -> value None (h ++ [s]) = value None h.
Proof.
  intros. rewrite toggle_step_value, H. rewrite andb_negb_r. apply xorb_false_r.
Qed.

Lemma toggle_released_no_change : forall h s,
  s_level s = false -> value None (h ++ [s]) = value None h.
Proof. intros. rewrite toggle_step_value, H. apply xorb_false_r. Qed.

(* ---- the debounced toggle -------------------------------------------------- *)
Lemma deb_sample : forall d t s,
  fst (toggle_sample (mkObj (Some d) t) s) =
  mkObj (Some (fst (sd_step d s))) (tg_get t (snd (sd_step d s))).
Proof.
  intros. unfold toggle_sample, joystickget, sd_step. simpl.
  destruct (sd_get d (s_now s) (s_level s)). reflexivity.
Qed.

Lemma deb_reach : forall h d t,
  let o' := reach toggle_sample (mkObj (Some d) t) h in
  o_deb o' = Some (reach sd_step d h) /\
  tgl (o_tg o') = xorb (tgl t) (Nat.odd (rising (released t) (run sd_step d h))) /\
  released (o_tg o') = last (run sd_step d h) (released t).
Proof.
  induction h; intros d t.
  - simpl. rewrite xorb_false_r. auto.
  - cbn zeta. change (reach toggle_sample (mkObj (Some d) t) (a :: h))
      with (reach toggle_sample (fst (toggle_sample (mkObj (Some d) t) a)) h).
    rewrite deb_sample.
    destruct (IHh (fst (sd_step d a)) (tg_get t (snd (sd_step d a)))) as (A & B & C).
    split; [exact A|]. split.
    + rewrite B, tg_get_tgl, tg_get_released.
      change (run sd_step d (a :: h)) with (snd (sd_step d a) :: run sd_step (fst (sd_step d a)) h).
      cbn [rising]. rewrite Nat.add_comm, odd_add_bit.
      rewrite xorb_assoc. f_equal. apply xorb_comm.
    + rewrite C, tg_get_released.
      change (run sd_step d (a :: h)) with (snd (sd_step d a) :: run sd_step (fst (sd_step d a)) h).
      rewrite last_cons_default. reflexivity.
Qed.

Lemma toggle_debounce_parity : forall p h,
  value (Some p) h = Nat.odd (rising false (debounced p h)).
Proof.
  intros. unfold value, debounced.
  destruct (deb_reach h (sd_new p) (mkToggle false false false)) as (_ & B & _). cbn [tgl released] in B. rewrite xorb_false_l in B. exact B.
Qed.

(* J: when the toggle logic last saw "not pressed", the steady window is over
   at the latest clock reading [lo].  K: the window anchor lies in [a, lo]. *)
Definition J (p lo : Z) (o : toggle_obj) : Prop :=
  exists d, o_deb o = Some d /\ sd_period d = p /\
            (released (o_tg o) = false -> lo - sd_latest d >= p).
Definition K (a lo : Z) (o : toggle_obj) : Prop :=
  exists d, o_deb o = Some d /\ a <= sd_latest d <= lo.

Lemma J_step : forall p lo o s, J p lo o -> lo <= s_now s ->
  J p (s_now s) (fst (toggle_sample o s)).
Proof.
  intros p lo [od t] s (d & Hd & Hp & Hj) Hlo. simpl in Hd. subst od.
  rewrite deb_sample. unfold J. simpl. unfold sd_step, sd_get.
  destruct (s_now s - sd_latest d <? sd_period d) eqn:W; simpl.
  - exists d. rewrite tg_get_released. repeat split; auto. discriminate.
  - destruct (s_level s) eqn:L; simpl.
    + eexists. rewrite tg_get_released. repeat split; eauto. discriminate.
    + exists d. repeat split; auto. intros _. apply Z.ltb_ge in W. lia.
Qed.

Lemma K_step : forall a lo o s, K a lo o -> lo <= s_now s ->
  K a (s_now s) (fst (toggle_sample o s)).
Proof.
  intros a lo [od t] s (d & Hd & Hk) Hlo. simpl in Hd. subst od.
  rewrite deb_sample. unfold K. simpl. unfold sd_step, sd_get.
  destruct (s_now s - sd_latest d <? sd_period d); simpl.
  - exists d. split; auto. lia.
  - destruct (s_level s); simpl.
    + eexists. split; eauto. simpl. lia.
    + exists d. split; auto. lia.
Qed.

Lemma J_reach : forall h p lo o, J p lo o -> mono_from lo (map s_now h) ->
  J p (last (map s_now h) lo) (reach toggle_sample o h).
Proof.
  induction h; intros p lo o Hj Hm; simpl in *; auto.
  destruct Hm as [H1 H2].
  change (match map s_now h with [] => s_now a | _ :: _ => last (map s_now h) lo end)
    with (last (s_now a :: map s_now h) lo).
  rewrite last_cons_default. apply IHh; auto. eapply J_step; eauto.
Qed.

Lemma K_reach : forall h a lo o, K a lo o -> mono_from lo (map s_now h) ->
  K a (last (map s_now h) lo) (reach toggle_sample o h).
Proof.
  induction h; intros a0 lo o Hk Hm; simpl in *; auto.
  destruct Hm as [H1 H2].
  change (match map s_now h with [] => s_now a | _ :: _ => last (map s_now h) lo end)
    with (last (s_now a :: map s_now h) lo).
  rewrite last_cons_default. apply IHh; auto. eapply K_step; eauto.
Qed.

(* a change of the value at a sample: the button was read pressed and the
   window anchor moved to this sample's clock reading *)
Lemma J_change : forall p lo o s, J p lo o -> lo <= s_now s ->
  tgl (o_tg (fst (toggle_sample o s))) <> tgl (o_tg o) ->
  s_level s = true /\ K (s_now s) (s_now s) (fst (toggle_sample o s)).
Proof.
  intros p lo [od t] s (d & Hd & Hp & Hj) Hlo Hc. simpl in Hd. subst od.
  revert Hc. rewrite deb_sample. unfold K. simpl. rewrite tg_get_tgl.
  rewrite xorb_changes, andb_true_iff, negb_true_iff. intros [Hcur Hrel].
  specialize (Hj Hrel). revert Hcur. unfold sd_step, sd_get.
  destruct (s_now s - sd_latest d <? sd_period d) eqn:W.
  - apply Z.ltb_lt in W. lia.
  - destruct (s_level s); simpl; intros; try discriminate.
    split; auto. eexists. split; eauto. simpl. lia.
Qed.

Lemma JK_change : forall p a lo o s, J p lo o -> K a lo o -> lo <= s_now s ->
  tgl (o_tg (fst (toggle_sample o s))) <> tgl (o_tg o) ->
  s_now s - a >= p.
Proof.
  intros p a lo [od t] s (d & Hd & Hp & Hj) (d2 & Hd2 & Hk) Hlo Hc.
  simpl in Hd, Hd2. subst od. inversion Hd2; subst d2.
  revert Hc. rewrite deb_sample. simpl. rewrite tg_get_tgl.
  rewrite xorb_changes, andb_true_iff, negb_true_iff. intros [_ Hrel].
  specialize (Hj Hrel). lia.
Qed.

Lemma J_new : forall p, J p 0 (toggle_new (Some p)).
Proof. intros. exists (sd_new p). simpl. repeat split; auto. intros _. lia. Qed.

Lemma toggle_debounce_change_needs_press : forall p h s,
  mono_from 0 (map s_now (h ++ [s])) ->
  value (Some p) (h ++ [s]) <> value (Some p) h ->
  s_level s = true.
Proof.
  intros p h s Hm Hc. rewrite map_app in Hm. apply mono_from_app in Hm. destruct Hm as [M1 M2].
  simpl in M2. destruct M2 as [M2 _].
  unfold value in Hc. rewrite reach_snoc in Hc.
  eapply J_change; [ apply J_reach; [apply J_new | exact M1] | exact M2 | exact Hc ].
Qed.

Lemma toggle_debounce_spacing : forall p h1 s1 h2 s2,
  mono_from 0 (map s_now (h1 ++ s1 :: h2 ++ [s2])) ->
  value (Some p) (h1 ++ [s1]) <> value (Some p) h1 ->
  value (Some p) (h1 ++ s1 :: h2 ++ [s2]) <> value (Some p) (h1 ++ s1 :: h2) ->
  s_now s2 - s_now s1 >= p.
Proof.
  intros p h1 s1 h2 s2 Hm C1 C2.
  rewrite map_app in Hm. apply mono_from_app in Hm. destruct Hm as [M1 M2].
  change (map s_now (s1 :: h2 ++ [s2])) with (s_now s1 :: map s_now (h2 ++ [s2])) in M2.
  destruct M2 as [M2 M3]. rewrite map_app in M3. apply mono_from_app in M3.
  destruct M3 as [M3 M4]. simpl in M4. destruct M4 as [M4 _].
  unfold value in C1, C2. rewrite reach_snoc in C1.
  rewrite (cons_app _ h1 s1 (h2 ++ [s2])), app_assoc, reach_snoc in C2.
  rewrite (cons_app _ h1 s1 h2) in C2. rewrite (reach_app _ (h1 ++ [s1]) h2), reach_snoc in C2.
  set (o1 := reach toggle_sample (toggle_new (Some p)) h1) in *.
  assert (J1 : J p (last (map s_now h1) 0) o1) by (apply J_reach; [apply J_new | exact M1]).
  destruct (J_change _ _ _ _ J1 M2 C1) as [_ K1].
  pose proof (J_step _ _ _ _ J1 M2) as J1'.
  set (o1' := fst (toggle_sample o1 s1)) in *.
  pose proof (J_reach h2 _ _ _ J1' M3) as J2.
  pose proof (K_reach h2 _ _ _ K1 M3) as K2.
  eapply JK_change; eauto.
Qed.

(* ---- a held button, a press after a quiet period, period <= 0 -------------- *)
(* _SteadyDebounce.get() never reads a pressed button as released *)
Lemma sd_get_pressed : forall d now, snd (sd_get d now true) = true.
Proof. intros. unfold sd_get. destruct (now - sd_latest d <? sd_period d); reflexivity. Qed.

Lemma steady_never_hides_press : forall p h s,
  s_level s = true -> out sd_step (sd_new p) h s = true.
Proof. intros p h s H. unfold out, sd_step. rewrite H. apply sd_get_pressed. Qed.

Lemma joystickget_pressed : forall o now, snd (joystickget o now true) = true.
Proof.
  intros. unfold joystickget. destruct (o_deb o) as [d|]; [|reflexivity].
  pose proof (sd_get_pressed d now) as E. destruct (sd_get d now true). exact E.
Qed.

Lemma sample_tgl : forall o s,
  tgl (o_tg (fst (toggle_sample o s))) =
  xorb (tgl (o_tg o)) (snd (joystickget o (s_now s) (s_level s)) && negb (released (o_tg o))).
Proof. intros. rewrite sample_tg. apply tg_get_tgl. Qed.

Lemma sample_released : forall o s,
  released (o_tg (fst (toggle_sample o s))) = snd (joystickget o (s_now s) (s_level s)).
Proof. intros. rewrite sample_tg. apply tg_get_released. Qed.

(* with or without debounce, any clock: the sample that follows a sample that
   read the button pressed never changes the value *)
Lemma toggle_no_change_after_pressed_sample : forall p h s1 s2,
  s_level s1 = true -> value p (h ++ [s1; s2]) = value p (h ++ [s1]).
Proof.
  intros p h s1 s2 H. unfold value.
  change (h ++ [s1; s2]) with (h ++ [s1] ++ [s2]). rewrite app_assoc, (reach_snoc _ (h ++ [s1])).
  rewrite sample_tgl. rewrite (reach_snoc _ h), sample_released, H, joystickget_pressed.
  rewrite andb_false_r. apply xorb_false_r.
Qed.

(* the debounced toggle changes only at a released->pressed edge of the
   sampled raw levels *)
Lemma toggle_debounce_change_only_at_rising_edge : forall p h s,
  mono_from 0 (map s_now (h ++ [s])) ->
  value (Some p) (h ++ [s]) <> value (Some p) h ->
  s_level s = true /\ last (map s_level h) false = false.
Proof.
  intros p h s Hm Hc. split.
  - eapply toggle_debounce_change_needs_press; eauto.
  - destruct h as [|a h0] using rev_ind; [reflexivity|].
    rewrite map_app. cbn [map]. rewrite last_snoc.
    destruct (s_level a) eqn:L; [|reflexivity]. exfalso. apply Hc.
    rewrite <- app_assoc. apply toggle_no_change_after_pressed_sample. exact L.
Qed.

(* the window anchor is the constructor's or the clock reading of a sample
   that read the button pressed *)
Lemma sd_latest_inv : forall h d,
  sd_period (reach sd_step d h) = sd_period d /\
  (sd_latest (reach sd_step d h) = sd_latest d \/
   exists s', In s' h /\ s_level s' = true /\ sd_latest (reach sd_step d h) = s_now s').
Proof.
  induction h as [|a h IH]; intros d.
  - simpl. auto.
  - change (reach sd_step d (a :: h)) with (reach sd_step (fst (sd_step d a)) h).
    destruct (IH (fst (sd_step d a))) as (P & Q).
    assert (S : (fst (sd_step d a) = d) \/
                (s_level a = true /\ sd_period (fst (sd_step d a)) = sd_period d /\
                 sd_latest (fst (sd_step d a)) = s_now a)).
    { unfold sd_step, sd_get. destruct (s_now a - sd_latest d <? sd_period d); [left; reflexivity|].
      destruct (s_level a); [right; simpl; auto | left; reflexivity]. }
    destruct S as [S | (L & SP & SL)].
    + rewrite S in *. split; [exact P|]. destruct Q as [Q | (s' & I & L & E)]; [left; exact Q|].
      right. exists s'. split; [right; exact I | auto].
    + split; [congruence|]. right. destruct Q as [Q | (s' & I & L' & E)].
      * exists a. split; [left; reflexivity|]. split; [exact L | congruence].
      * exists s'. split; [right; exact I | auto].
Qed.

Lemma sd_quiet_last : forall p h,
  0 <= last (map s_now h) 0 ->
  last (map s_level h) false = false ->
  (forall s', In s' h -> s_level s' = true -> last (map s_now h) 0 - s_now s' >= p) ->
  last (run sd_step (sd_new p) h) false = false.
Proof.
  intros p h. destruct h as [|a h0 _] using rev_ind; [reflexivity|].
  rewrite !map_app, run_snoc. cbn [map]. rewrite !last_snoc. intros H0 HL HQ.
  destruct (sd_latest_inv h0 (sd_new p)) as (P & Q).
  unfold out. set (d' := reach sd_step (sd_new p) h0) in *.
  unfold sd_step, sd_get. rewrite HL, P. simpl.
  destruct (s_now a - sd_latest d' <? p) eqn:W; [|reflexivity].
  exfalso. apply Z.ltb_lt in W. destruct Q as [Q | (s' & I & L & E)].
  - rewrite Q in W. simpl in W. lia.
  - rewrite E in W. specialize (HQ s' (in_or_app _ _ _ (or_introl I)) L). lia.
Qed.

(* liveness: a sample that reads pressed, right after a sample that read
   released (or first of all), flips the toggle when every earlier sample that
   read pressed lies at least p before that released sample *)
Lemma toggle_debounce_press_after_quiet_flips : forall p h s,
  0 <= last (map s_now h) 0 ->
  last (map s_level h) false = false ->
  (forall s', In s' h -> s_level s' = true -> last (map s_now h) 0 - s_now s' >= p) ->
  s_level s = true ->
  value (Some p) (h ++ [s]) <> value (Some p) h.
Proof.
  intros p h s H0 HL HQ Hs. unfold value. rewrite reach_snoc, sample_tgl.
  apply xorb_changes. rewrite Hs, joystickget_pressed. simpl.
  destruct (deb_reach h (sd_new p) (mkToggle false false false)) as (_ & _ & C).
  unfold toggle_new. simpl. cbn [released] in C. rewrite C.
  rewrite (sd_quiet_last p h H0 HL HQ). reflexivity.
Qed.

(* a debounce period <= 0 debounces nothing: on clocks that start at or after
   0 and never go backwards the Toggle returns what the plain Toggle returns *)
Lemma nonpositive_period_run : forall h d t lo,
  sd_period d <= 0 -> lo - sd_latest d >= sd_period d -> mono_from lo (map s_now h) ->
  run toggle_sample (mkObj (Some d) t) h = run toggle_sample (mkObj None t) h.
Proof.
  induction h as [|a h IH]; intros d t lo Hp Hw Hm; [reflexivity|].
  simpl in Hm. destruct Hm as [M1 M2].
  assert (E : toggle_sample (mkObj (Some d) t) a =
              (mkObj (Some (if s_level a then mkSteady (s_now a) (sd_period d) (sd_enabled d) else d))
                     (tg_get t (s_level a)), tg_read (tg_get t (s_level a)) (s_acc a))).
  { unfold toggle_sample, joystickget, sd_get. simpl.
    destruct (s_now a - sd_latest d <? sd_period d) eqn:W.
    - apply Z.ltb_lt in W. lia.
    - destruct (s_level a); reflexivity. }
  change (run toggle_sample (mkObj (Some d) t) (a :: h)) with
    (snd (toggle_sample (mkObj (Some d) t) a) :: run toggle_sample (fst (toggle_sample (mkObj (Some d) t) a)) h).
  change (run toggle_sample (mkObj None t) (a :: h)) with
    (tg_read (tg_get t (s_level a)) (s_acc a) :: run toggle_sample (mkObj None (tg_get t (s_level a))) h).
  rewrite E. simpl. f_equal. apply (IH _ _ (s_now a)); auto.
  - destruct (s_level a); simpl; auto.
  - destruct (s_level a); simpl; lia.
Qed.

Lemma toggle_nonpositive_period_is_plain : forall p h,
  p <= 0 -> mono_from 0 (map s_now h) ->
  toggle_run (Some p) h = toggle_run None h.
Proof.
  intros p h Hp Hm. unfold toggle_run, toggle_new. simpl.
  apply (nonpositive_period_run h (sd_new p) _ 0); simpl; auto. lia.
Qed.
