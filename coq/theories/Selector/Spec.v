(* Selector/Spec.v -- the vocabulary of property C14, stated over package
   layouts and call sequences independently of the model's state.
   Definitions only. *)
From Coq Require Import String Ascii List ZArith Bool.
From RV Require Import Selector.Model.
Import ListNotations.
Open Scope string_scope.
Open Scope list_scope.

(* ------------------------------------------------------------------ *)
(* Which classes of a layout the selector has to instantiate           *)

(* "define MODE_NAME and are not marked DISABLED" *)
Definition is_needed (c : cls) : bool :=
  match mode_name c with Some _ => negb (disabled c) | None => false end.

(* the modules of the package: every *.py the glob returns except __init__.py *)
Definition scanned_modules (p : package) : list module :=
  match p with
  | PkgPresent ms => filter (fun m => negb (mname m =? "__init__")) ms
  | _ => []
  end.

(* ... that can be imported *)
Definition loaded_modules (p : package) : list module :=
  filter (fun m => negb (import_fails m)) (scanned_modules p).

Definition needed_of (m : module) : list inst :=
  map (mkInst (file m)) (filter is_needed (classes m)).

(* the mode classes of the layout, in scan order, each paired with its file *)
Definition needed (p : package) : list inst := flat_map needed_of (loaded_modules p).

Definition name_of (i : inst) : string :=
  match mode_name (icls i) with Some n => n | None => "" end.
Definition call_of (i : inst) : ctor_call := (ifile i, cname (icls i)).
Definition healthy (i : inst) : bool := negb (ctor_raises (icls i)).
Definition is_default (i : inst) : bool := dflt (icls i).
Definition entry_of (i : inst) : string * inst := (name_of i, i).

(* the key under which a duplicate is kept when the FMS is attached *)
Definition renamed (i : inst) : string := (cname (icls i) ++ "_" ++ ifile i)%string.

(* ------------------------------------------------------------------ *)
(* Fault vocabulary of the property                                    *)

(* importing the package itself fails (other than "there is no such package") *)
Definition package_fault (p : package) : Prop := p = PkgInitFails.
Definition import_fault (p : package) : Prop :=
  exists m, In m (scanned_modules p) /\ import_fails m = true.
Definition ctor_fault (p : package) : Prop :=
  exists i, In i (needed p) /\ ctor_raises (icls i) = true.
Definition duplicate_names (p : package) : Prop :=
  ~ NoDup (map name_of (needed p)).
Definition several_defaults (p : package) : Prop :=
  (2 <= length (filter is_default (needed p)))%nat.

(* the same, decidable (used by the correspondence to mask multi-fault layouts) *)
Definition import_faultb (p : package) : bool := existsb import_fails (scanned_modules p).
Definition ctor_faultb (p : package) : bool := existsb (fun i => ctor_raises (icls i)) (needed p).
Fixpoint has_dup (l : list string) : bool :=
  match l with
  | [] => false
  | x :: r => if existsb (String.eqb x) r then true else has_dup r
  end.
Definition duplicate_namesb (p : package) : bool := has_dup (map name_of (needed p)).
Definition several_defaultsb (p : package) : bool :=
  (2 <=? length (filter is_default (needed p)))%nat.

(* Layout sanity that Python guarantees: distinct files, distinct member names
   per module.  Together with "every class is defined in one module only"
   (DESIGN 10) a class is identified by (file, member name). *)
Definition layout_ok (p : package) : Prop :=
  NoDup (map file (scanned_modules p)) /\
  forall m, In m (scanned_modules p) -> NoDup (map cname (classes m)).

(* The artificial keys "<class>_<file>" under which the FMS branch keeps
   duplicates are pairwise different (true when files are absolute paths and
   member names are identifiers) and no MODE_NAME equals one of them. *)
Definition no_key_clash (p : package) : Prop :=
  NoDup (map renamed (needed p)) /\
  forall i j, In i (needed p) -> In j (needed p) -> name_of i <> renamed j.

(* a name the chooser can hand back: not its own "None" entry, not empty *)
Definition choosable (k : string) : Prop := k <> "None" /\ k <> "".

(* ------------------------------------------------------------------ *)
(* Well-formed call sequences (DESIGN 10):
   (start . periodic* . disable+)* and run() periods; periodic() after
   disable() is allowed, periodic() before the first start() is not (the code
   raises AttributeError), start()/run() while a period is open is not. *)

Inductive phase := Fresh | Idle | Open.

Fixpoint wf (ph : phase) (ops : list op) : bool :=
  match ops with
  | [] => true
  | Start _ _ :: r => match ph with Open => false | _ => wf Open r end
  | Periodic _ :: r => match ph with Fresh => false | _ => wf ph r end
  | Disable :: r => wf (match ph with Open => Idle | x => x end) r
  | RunPeriod _ _ _ :: r => match ph with Open => false | _ => wf ph r end
  | EndCompetition :: r => wf ph r
  end.

Definition well_formed (ops : list op) : bool := wf Fresh ops.

(* every clock reading of the call sequence, in the order the code reads them *)
Fixpoint readings (ops : list op) : list Z :=
  match ops with
  | [] => []
  | Start _ now :: r => now :: readings r
  | Periodic now :: r => now :: readings r
  | RunPeriod _ t0 wakes :: r => t0 :: map wake_now wakes ++ readings r
  | _ :: r => readings r
  end.

Fixpoint nondecreasing (l : list Z) : Prop :=
  match l with
  | [] => True
  | x :: r => match r with [] => True | y :: _ => (x <= y)%Z end /\ nondecreasing r
  end.

(* the FPGA clock never runs backwards *)
Definition clock_monotone (ops : list op) : Prop := nondecreasing (readings ops).

(* the selections in force when the periods of a call sequence begin *)
Fixpoint selections (ops : list op) : list sel :=
  match ops with
  | [] => []
  | Start s _ :: r => s :: selections r
  | RunPeriod s _ _ :: r => s :: selections r
  | _ :: r => selections r
  end.

(* The language of the property: one block per period, in order.  A period
   whose selection yields no mode contributes nothing; otherwise it is
   on_enable m . on_iteration m t* . on_disable m with 0 <= t non-decreasing;
   only the last period may still be open (no on_disable yet). *)
Inductive conforms (r : selector) : list sel -> list event -> Prop :=
| conf_nil : conforms r [] []
| conf_none : forall s ss tr,
    select r s = None -> conforms r ss tr -> conforms r (s :: ss) tr
| conf_closed : forall s ss m ts tr,
    select r s = Some m -> nondecreasing ts -> Forall (fun t => 0 <= t)%Z ts ->
    conforms r ss tr ->
    conforms r (s :: ss) (OnEnable m :: map (OnIteration m) ts ++ OnDisable m :: tr)
| conf_open : forall s m ts,
    select r s = Some m -> nondecreasing ts -> Forall (fun t => 0 <= t)%Z ts ->
    conforms r [s] (OnEnable m :: map (OnIteration m) ts).

Definition mode_of (e : event) : inst :=
  match e with OnEnable m => m | OnIteration m _ => m | OnDisable m => m end.

(* loop passes of run() that saw "autonomous and enabled" *)
Fixpoint enabled_prefix (wakes : list wake) : list Z :=
  match wakes with
  | (now, true, _) :: r => now :: enabled_prefix r
  | _ => []
  end.

(* ... of these, the passes up to and including the one during which disable()
   was called on the selector (by an iter_fn hook or another thread): the passes
   whose on_iteration the property allows *)
Fixpoint live_prefix (wakes : list wake) : list Z :=
  match wakes with
  | (now, true, dis) :: r => now :: (if dis then [] else live_prefix r)
  | _ => []
  end.

(* was disable() called during one of the passes the loop made? *)
Fixpoint disable_seen (wakes : list wake) : bool :=
  match wakes with
  | (_, true, dis) :: r => if dis then true else disable_seen r
  | _ => false
  end.

(* nobody calls disable() while the loop of run() is going round *)
Definition undisturbed (wakes : list wake) : Prop :=
  Forall (fun w => wake_disable w = false) wakes.

(* ------------------------------------------------------------------ *)
(* Call sequences in which a period is NOT followed by disable()
   (TimedRobot: autonomousInit -> start(), autonomousPeriodic -> periodic(),
   and a robot that never calls disable() from disabledInit -- the class
   documentation allows that: "It is okay to not call disable() if you do not
   need on_disable").  Then the period simply ends when the next one begins. *)

(* is disable() called before the next period begins? *)
Fixpoint closed_before_next (ops : list op) : bool :=
  match ops with
  | [] => false
  | Disable :: _ => true
  | Start _ _ :: _ => false
  | RunPeriod _ _ _ :: _ => false
  | _ :: r => closed_before_next r
  end.

(* the periods of a call sequence, whatever its shape: the selection in force
   when each one begins, and whether it is ended by a disable() before the
   next one begins (a run() period always is: run() calls disable() itself) *)
Fixpoint periods (ops : list op) : list (sel * bool) :=
  match ops with
  | [] => []
  | Start s _ :: r => (s, closed_before_next r) :: periods r
  | RunPeriod s _ _ :: r => (s, true) :: periods r
  | _ :: r => periods r
  end.

(* The language of the property over such periods: the mode selected when the
   period begins -- and no other -- gets on_enable . on_iteration(t)* with
   0 <= t non-decreasing, followed by on_disable exactly when the period is
   ended by a disable(); a period whose selection yields no mode is silent. *)
Inductive conforms_marked (r : selector) : list (sel * bool) -> list event -> Prop :=
| cm_nil : conforms_marked r [] []
| cm_none : forall s c ps tr,
    select r s = None -> conforms_marked r ps tr -> conforms_marked r ((s, c) :: ps) tr
| cm_closed : forall s ps m ts tr,
    select r s = Some m -> nondecreasing ts -> Forall (fun t => 0 <= t)%Z ts ->
    conforms_marked r ps tr ->
    conforms_marked r ((s, true) :: ps) (OnEnable m :: map (OnIteration m) ts ++ OnDisable m :: tr)
| cm_left_open : forall s ps m ts tr,
    select r s = Some m -> nondecreasing ts -> Forall (fun t => 0 <= t)%Z ts ->
    conforms_marked r ps tr ->
    conforms_marked r ((s, false) :: ps) (OnEnable m :: map (OnIteration m) ts ++ tr).

(* periodic() is not called before the first start() (self.timer exists) *)
Fixpoint timer_ready (started : bool) (ops : list op) : bool :=
  match ops with
  | [] => true
  | Start _ _ :: r => timer_ready true r
  | Periodic _ :: r => started && timer_ready started r
  | _ :: r => timer_ready started r
  end.

(* ------------------------------------------------------------------ *)
(* The import of the package itself                                    *)

(* nothing but "None" is offered by a selector built without modules *)
Definition offers_nothing (r : selector) : Prop :=
  modes r = [] /\ ctor_calls r = [] /\ option_names r = ["None"] /\ preselection r = "None".

(* pkgname.split(".")[0] -- the top-level name under which the package lives *)
Fixpoint top_component (s : string) : string :=
  match s with
  | EmptyString => EmptyString
  | String c r => if Ascii.eqb c "."%char then EmptyString else String c (top_component r)
  end.

(* n is the dotted name of the package or of a package it is nested in:
   "a", "a.b" and "a.b.c" for the package "a.b.c" *)
Definition dotted_prefix (n pkgname : string) : Prop :=
  n = pkgname \/ exists rest, pkgname = (n ++ "." ++ rest)%string.

(* "there is no such package": the import machinery could not find the package
   or one of the packages it is nested in *)
Definition no_such_package (pkgname : string) (i : pkg_import) : Prop :=
  exists n, i = ImportRaisesImportError true (Some n) /\ dotted_prefix n pkgname.

(* importing the package fails, and not because there is no such package:
   an exception that is not an ImportError, an ImportError that is not a
   ModuleNotFoundError (whatever its name), a ModuleNotFoundError without a name
   or naming anything else *)
Definition package_import_fault (pkgname : string) (i : pkg_import) : Prop :=
  (i = ImportRaisesOther \/ exists mnf ename, i = ImportRaisesImportError mnf ename) /\
  ~ no_such_package pkgname i.

(* ------------------------------------------------------------------ *)
(* Implicit (namespace) packages: the __path__ as a SET of directories *)

(* What the file system guarantees about the entries of a __path__: the glob
   of a directory is a function of the directory (an entry that names the same
   directory again lists the same files), a file lies in one directory only, and
   a directory lists a file once. *)
Definition path_ok (path : list portion) : Prop :=
  (forall a b, In a path -> In b path -> pdir a = pdir b -> pfiles a = pfiles b) /\
  (forall a b m n, In a path -> In b path -> In m (pfiles a) -> In n (pfiles b) ->
     file m = file n -> pdir a = pdir b) /\
  (forall a, In a path -> NoDup (map file (pfiles a))).

(* the module files found in the directories of a __path__, as a set *)
Definition in_path (path : list portion) (m : module) : Prop :=
  exists po, In po path /\ In m (pfiles po).

(* What Python guarantees when the directories of an implicit package hold files
   of the same name: "." + name is ONE module (the file in the first directory
   of __path__ that has it; the others are shadowed), so what the import does
   and what inspect.getmembers yields depend on the name only. *)
Definition name_determines_module (path : list portion) : Prop :=
  forall m n, in_path path m -> in_path path n -> mname m = mname n ->
    classes m = classes n /\ import_fails m = import_fails n.

(* no module file name occurs in two directories *)
Definition names_distinct (path : list portion) : Prop :=
  forall m n, in_path path m -> in_path path n -> mname m = mname n -> m = n.
