(* Selector/Model.v -- executable model of
   robotpy_ext/autonomous/selector.py (AutonomousModeSelector), statement by
   statement.  No proofs in this file.

   Inputs that are "as observed" (not modelled): the list of files returned by
   glob(pkgdir/"*.py") in its order, and for every module the classes that
   inspect.getmembers(module, inspect.isclass) yields, in its (name-sorted)
   order, with the values of getattr(cls,"MODE_NAME",None), bool(DISABLED),
   bool(instance.DEFAULT) and whether calling the class raises -- by whatever
   mechanism ([ctor_behaviour]).  For an implicit (namespace) package: the
   entries of its __path__ -- repetitions included -- each with its own glob.

   Modelled assumptions (see harness/notes_c14.md): instance.MODE_NAME equals
   the class attribute; mode callbacks (on_enable/on_iteration/on_disable) do
   not raise (that fault space is C07's); time is the integer microsecond
   reading of the FPGA clock. *)
From Coq Require Import String Ascii List ZArith Bool.
Import ListNotations.
Open Scope string_scope.
Open Scope list_scope.

(* ------------------------------------------------------------------ *)
(* Package layouts                                                     *)

Record cls := mkCls {
  cname       : string;          (* member name in the module *)
  mode_name   : option string;   (* getattr(obj, "MODE_NAME", None) *)
  disabled    : bool;            (* truth value of getattr(obj, "DISABLED", False) *)
  dflt        : bool;            (* truth value of getattr(instance, "DEFAULT", False) *)
  ctor_raises : bool             (* the call obj(args.., kwargs..) raises -- whatever raises it, see [fails] *)
}.

(* What the call obj(args.., kwargs..) of a class does.  The selector sees only
   "an instance came back" or "an exception came out of the call"; where the
   exception is raised does not matter to it: in the body of __init__, in
   __new__, in the metaclass's __call__, by object.__new__ because the class is
   abstract (abc: an abstract method is left unimplemented -> TypeError), or by
   the interpreter because __init__ wants arguments the selector does not pass
   (TypeError).  All of these are "failing constructors". *)
Inductive ctor_behaviour :=
| Constructs         (* an instance is returned *)
| InitRaises         (* __init__ raises *)
| NewRaises          (* __new__ raises *)
| MetaCallRaises     (* type(obj).__call__ raises *)
| AbstractClass      (* inspect.isabstract(obj): object.__new__ raises TypeError *)
| NeedsArguments.    (* __init__(self, x) called without x: TypeError *)

Definition fails (b : ctor_behaviour) : bool :=
  match b with Constructs => false | _ => true end.

Record module := mkMod {
  mname        : string;         (* os.path.basename(module_filename[:-3]) *)
  file         : string;         (* module_filename as glob returned it *)
  import_fails : bool;           (* importlib.import_module("."+mname, pkg) raises *)
  classes      : list cls
}.

Inductive package :=
| PkgMissing                       (* import_module(pkg) raises ModuleNotFoundError naming the package or a package it is nested in *)
| PkgInitFails                     (* import_module(pkg) raises anything else: another ImportError, a missing
                                      other module, or any Exception out of the package's own code *)
| PkgPresent (mods : list module). (* the files that are scanned, in glob order: the first file of every module
                                      name ([unique_names], see [import_outcome]) *)

(* an instance of a mode class: where it came from *)
Record inst := mkInst { ifile : string; icls : cls }.

Inductive error :=
| ErrPackage                                   (* exception out of importing the package itself *)
| ErrImport (f : string)                       (* the module's own exception *)
| ErrCtor (f : string) (c : string)            (* the constructor's own exception *)
| ErrDuplicate (name : string) (f : string)    (* RuntimeError("Duplicate name ...") *)
| ErrDefaults (names : list string).           (* RuntimeError("More than one autonomous mode was specified as default!") *)

(* ------------------------------------------------------------------ *)
(* Python dict with str keys: insertion ordered, assignment overwrites *)

Section Dict.
Context {V : Type}.

Fixpoint dict_get (k : string) (d : list (string * V)) : option V :=
  match d with
  | [] => None
  | (k', v) :: r => if k' =? k then Some v else dict_get k r
  end.

Definition dict_mem (k : string) (d : list (string * V)) : bool :=
  match dict_get k d with Some _ => true | None => false end.

Fixpoint dict_set (k : string) (v : V) (d : list (string * V)) : list (string * V) :=
  match d with
  | [] => [(k, v)]
  | (k', v') :: r => if k' =? k then (k, v) :: r else (k', v') :: dict_set k v r
  end.

(* sorted(d.items()): keys are unique, so only keys are compared;
   str comparison = lexicographic by code point *)
Fixpoint insert_sorted (kv : string * V) (l : list (string * V)) : list (string * V) :=
  match l with
  | [] => [kv]
  | kv' :: r => if (fst kv <=? fst kv')%string then kv :: kv' :: r else kv' :: insert_sorted kv r
  end.

Fixpoint sort_items (l : list (string * V)) : list (string * V) :=
  match l with
  | [] => []
  | kv :: r => insert_sorted kv (sort_items r)
  end.

End Dict.

(* ------------------------------------------------------------------ *)
(* __init__: the module loop (selector.py:114-166)                     *)

Definition ctor_call := (string * string)%type.   (* (module file, class member name) *)

Record scan := mkScan {
  s_modes : list (string * inst);   (* self.modes *)
  s_ctors : list ctor_call          (* every call obj(args..), in call order *)
}.

(* name + "_" + module_filename *)
Definition rename_key (c : cls) (m : module) : string := (cname c ++ "_" ++ file m)%string.

(* for name, obj in inspect.getmembers(module, inspect.isclass): ... *)
Fixpoint scan_classes (fms : bool) (m : module) (cs : list cls) (st : scan) : scan * option error :=
  match cs with
  | [] => (st, None)
  | c :: rest =>
    match mode_name c with
    | None => scan_classes fms m rest st                       (* mode_name is None *)
    | Some n =>
      if disabled c then scan_classes fms m rest st            (* continue *)
      else
        let st1 := mkScan (s_modes st) (s_ctors st ++ [(file m, cname c)]) in
        if ctor_raises c then
          if fms then scan_classes fms m rest st1              (* continue *)
          else (st1, Some (ErrCtor (file m) (cname c)))        (* raise *)
        else
          let i := mkInst (file m) c in
          if dict_mem n (s_modes st1) then
            if fms then
              scan_classes fms m rest
                (mkScan (dict_set (rename_key c m) i (s_modes st1)) (s_ctors st1))
            else (st1, Some (ErrDuplicate n (file m)))
          else
            scan_classes fms m rest (mkScan (dict_set n i (s_modes st1)) (s_ctors st1))
    end
  end.

(* for module_filename in modules: ... *)
Fixpoint scan_modules (fms : bool) (ms : list module) (st : scan) : scan * option error :=
  match ms with
  | [] => (st, None)
  | m :: rest =>
    if mname m =? "__init__" then scan_modules fms rest st     (* continue *)
    else if import_fails m then
      if fms then
        (* module = None; inspect.getmembers(None, isclass) = [("__class__", NoneType)],
           which has no MODE_NAME *)
        scan_modules fms rest st
      else (st, Some (ErrImport (file m)))                     (* raise *)
    else
      match scan_classes fms m (classes m) st with
      | (st', None) => scan_modules fms rest st'
      | (st', Some e) => (st', Some e)
      end
  end.

(* ------------------------------------------------------------------ *)
(* wpilib.SendableChooser                                              *)

Record chooser := mkChooser {
  options  : list (string * option inst);   (* m_choices *)
  cdefault : string                         (* m_defaultChoice, "" when never set *)
}.

Definition add_option (k : string) (v : option inst) (ch : chooser) : chooser :=
  mkChooser (dict_set k v (options ch)) (cdefault ch).

Definition set_default_option (k : string) (v : option inst) (ch : chooser) : chooser :=
  mkChooser (dict_set k v (options ch)) k.

(* getSelected(): [choice] is what the dashboard wrote to "selected"
   (None: nothing was ever selected).  An empty or unknown name gives None. *)
Definition chooser_selected (ch : chooser) (choice : option string) : option inst :=
  let name := match choice with Some s => s | None => cdefault ch end in
  if name =? "" then None
  else match dict_get name (options ch) with Some v => v | None => None end.

(* for k, v in sorted(self.modes.items()): ... (selector.py:178-187) *)
Fixpoint fill_chooser (kvs : list (string * inst)) (ch : chooser) (defaults : list string)
  : chooser * list string :=
  match kvs with
  | [] => (ch, defaults)
  | (k, v) :: rest =>
    if dflt (icls v) then fill_chooser rest (set_default_option k (Some v) ch) (defaults ++ [k])
    else fill_chooser rest (add_option k (Some v) ch) defaults
  end.

(* ------------------------------------------------------------------ *)
(* The constructed selector and AutonomousModeSelector.__init__        *)

Record selector := mkSel {
  modes      : list (string * inst);   (* self.modes *)
  chooser_of : chooser;                (* self.chooser *)
  ctor_calls : list ctor_call          (* ghost: constructor calls made by __init__ *)
}.

Inductive outcome :=
| Built (r : selector)
| Raised (e : error) (ctors : list ctor_call).

Definition finish_init (fms : bool) (st : scan) : outcome :=
  let '(ch, defaults) := fill_chooser (sort_items (s_modes st)) (mkChooser [] "") [] in
  let ch := add_option "None" None ch in
  match defaults with
  | [] => Built (mkSel (s_modes st) (set_default_option "None" None ch) (s_ctors st))
  | [_] => Built (mkSel (s_modes st) ch (s_ctors st))
  | _ => if fms then Built (mkSel (s_modes st) ch (s_ctors st))
         else Raised (ErrDefaults defaults) (s_ctors st)
  end.

Definition discover (fms : bool) (p : package) : outcome :=
  match p with
  | PkgInitFails =>
    if fms then finish_init fms (mkScan [] [])               (* warning only; modules = [] *)
    else Raised ErrPackage []                                (* if not isFMSAttached(): raise *)
  | PkgMissing => finish_init fms (mkScan [] [])             (* warning only; modules = [] *)
  | PkgPresent ms =>
    match scan_modules fms ms (mkScan [] []) with
    | (st, Some e) => Raised e (s_ctors st)
    | (st, None) => finish_init fms st
    end
  end.

(* ------------------------------------------------------------------ *)
(* The import of the package itself (selector.py:91-112)               *)

(* One entry of the __path__ of an implicit (namespace) package. *)
Record portion := mkPortion {
  pdir   : string;         (* the directory, as it stands in __path__ *)
  pfiles : list module     (* glob(os.path.join(pdir, "*.py")), in its order *)
}.

(* pkgdirs = list(set(pkgpath)): every directory once, however often __path__
   lists it (a directory that is on sys.path twice is in __path__ twice).  The
   iteration order of a set is not specified: the model keeps the FIRST
   occurrences in the order of the list it is given, and the correspondence
   accepts what the model gives for ANY order of the distinct directories
   (Corr.check_case_any). *)
Fixpoint dedup_dirs (seen : list string) (path : list portion) : list portion :=
  match path with
  | [] => []
  | po :: rest =>
    if existsb (String.eqb (pdir po)) seen then dedup_dirs seen rest
    else po :: dedup_dirs (pdir po :: seen) rest
  end.

Definition path_dirs (path : list portion) : list portion := dedup_dirs [] path.

(* for pkgdir in pkgdirs: modules.extend(glob(os.path.join(pkgdir, "*.py"))) *)
Definition path_files (path : list portion) : list module := flat_map pfiles (path_dirs path).

(* [fix f71dd92]  seen_module_names = set()
   for module_filename in modules: ...
       if module_name in seen_module_names: continue
       seen_module_names.add(module_name)
   A module NAME is scanned once: the first file of that name in the order of
   [modules] stands for it, later files of the same name are skipped.  (The
   directories of an implicit package may hold files of the same name; Python
   imports "." + name from the first directory of __path__ only, so the
   [classes]/[import_fails] of all files of one name are those of that one
   module.)  The skip does not depend on anything the loop body does, so it is
   modelled as a pass over the file list before the loop.  "__init__" is tested
   first in the code and never entered into the set; those entries are skipped
   by the loop anyway, so treating them like every other name changes nothing. *)
Fixpoint unique_names (seen : list string) (ms : list module) : list module :=
  match ms with
  | [] => []
  | m :: rest =>
    if existsb (String.eqb (mname m)) seen then unique_names seen rest
    else m :: unique_names (mname m :: seen) rest
  end.

(* the files that are scanned for an implicit package: one per module name *)
Definition path_modules (path : list portion) : list module := unique_names [] (path_files path).

(* what importlib.import_module(autonomous_pkgname) does -- as observed *)
Inductive pkg_import :=
| ImportRaisesImportError (mnf : bool) (ename : option string)
                                   (* an ImportError e; mnf = isinstance(e, ModuleNotFoundError); e.name *)
| ImportRaisesOther                (* any other Exception out of the package's code *)
| Imported (mods : list module)    (* a package object with __file__; glob order of the *.py beside it *)
| ImportedNamespace (path : list portion).
                                   (* a package object without __file__ (implicit package): its __path__,
                                      entry by entry, repetitions included *)

(* isinstance(e, ModuleNotFoundError) and e.name is not None
   and (autonomous_pkgname + ".").startswith(e.name + ".") *)
Definition names_the_package (pkgname : string) (mnf : bool) (ename : option string) : bool :=
  mnf &&
  match ename with
  | Some n => prefix (n ++ ".")%string (pkgname ++ ".")%string
  | None => false
  end.

(* try: import_module(pkgname)
   except ImportError as e: if not isinstance(..) or not (..): <policy of a failing import>; else warning only
   except Exception: <policy of a failing import>
   else: glob *)
Definition import_outcome (pkgname : string) (i : pkg_import) : package :=
  match i with
  | ImportRaisesImportError mnf ename =>
    if names_the_package pkgname mnf ename then PkgMissing else PkgInitFails
  | ImportRaisesOther => PkgInitFails
  | Imported ms => PkgPresent (unique_names [] ms)
  | ImportedNamespace path => PkgPresent (path_modules path)
  end.

(* AutonomousModeSelector(autonomous_pkgname) *)
Definition init (fms : bool) (pkgname : string) (i : pkg_import) : outcome :=
  discover fms (import_outcome pkgname i).

(* what the dashboard shows *)
Definition option_names (r : selector) : list string := map fst (options (chooser_of r)).
Definition preselection (r : selector) : string := cdefault (chooser_of r).

(* ------------------------------------------------------------------ *)
(* Selection and lifecycle                                             *)

(* (SmartDashboard "Auto Selector" string if present and a string,
    the chooser's "selected" entry if the dashboard ever wrote one) *)
Definition sel := (option string * option string)%type.

(* _on_autonomous_enable, first half *)
Definition select (r : selector) (s : sel) : option inst :=
  match fst s with
  | Some a =>
    match dict_get a (modes r) with
    | Some m => Some m                                       (* auto_mode in self.modes *)
    | None => chooser_selected (chooser_of r) (snd s)
    end
  | None => chooser_selected (chooser_of r) (snd s)
  end.

Inductive event :=
| OnEnable (m : inst)
| OnIteration (m : inst) (t : Z)     (* t = elapsed microseconds handed to on_iteration *)
| OnDisable (m : inst).

(* One pass of the loop head of run(): (clock, isAutonomousEnabled(), dis).
   [dis]: disable() is called on the selector while this pass is in progress,
   after its _on_iteration(...) and before the next pass reads the loop head --
   by one of the iter_fn hooks of this pass, or by another thread while the loop
   sits in delay.wait().  (disable() is a public method; run() itself calls it
   only after the loop.) *)
Definition wake := (Z * bool * bool)%type.
Definition wake_now (w : wake) : Z := fst (fst w).
Definition wake_enabled (w : wake) : bool := snd (fst w).
Definition wake_disable (w : wake) : bool := snd w.

Inductive op :=
| Start (s : sel) (now : Z)                              (* start() called when the clock reads now *)
| Periodic (now : Z)                                     (* periodic() *)
| Disable                                                (* disable() *)
| RunPeriod (s : sel) (t0 : Z) (wakes : list wake)       (* run(): entered at t0; one entry per pass of the loop head *)
| EndCompetition.                                        (* endCompetition() *)

Record lstate := mkL {
  active     : option inst;   (* self.active_mode: None, or the selected instance.  The code tests
                                 "is not None"; the TRUTH VALUE of an instance (a mode class may define
                                 __len__ or __bool__ and make its instances falsy) is not an input of the
                                 model, so every lifecycle theorem holds whatever it is *)
  timer      : option Z;      (* start instant of self.timer; None: attribute not created yet *)
  robot_exit : bool
}.

Definition init_lstate : lstate := mkL None None false.

Definition on_autonomous_enable (r : selector) (st : lstate) (s : sel) : lstate * list event :=
  let a := select r s in
  (mkL a (timer st) (robot_exit st),
   match a with Some m => [OnEnable m] | None => [] end).

Definition on_iteration (st : lstate) (t : Z) : list event :=
  match active st with Some m => [OnIteration m t] | None => [] end.

Definition do_disable (st : lstate) : lstate * list event :=
  (mkL None (timer st) (robot_exit st),
   match active st with Some m => [OnDisable m] | None => [] end).

Definition do_start (r : selector) (st : lstate) (s : sel) (now : Z) : lstate * list event :=
  on_autonomous_enable r (mkL (active st) (Some now) (robot_exit st)) s.

(* None = AttributeError: 'AutonomousModeSelector' object has no attribute 'timer' *)
Definition do_periodic (st : lstate) (now : Z) : option (list event) :=
  match timer st with
  | None => None
  | Some t0 => Some (on_iteration st (now - t0)%Z)
  end.

(* while not self.robot_exit: refreshData(); if not isAutonomousEnabled(): break;
     observe(); self._on_iteration(timer.get()); for fn in iter_fn: fn(); delay.wait()
   _on_iteration reads self.active_mode afresh in every pass, so a disable()
   that arrives during a pass (see [wake]) is seen by all later passes: the state
   is threaded through the loop.
   An exhausted list stands for robot_exit having been set during the last wait. *)
Fixpoint run_loop (st : lstate) (t0 : Z) (wakes : list wake) : lstate * list event :=
  match wakes with
  | [] => (st, [])
  | (now, en, dis) :: rest =>
    if en then
      let e1 := on_iteration st (now - t0)%Z in
      let '(st1, e2) := if dis then do_disable st else (st, []) in
      let '(st2, e3) := run_loop st1 t0 rest in
      (st2, e1 ++ e2 ++ e3)
    else (st, [])
  end.

Definition do_run (r : selector) (st : lstate) (s : sel) (t0 : Z) (wakes : list wake)
  : lstate * list event :=
  let '(st1, e1) := on_autonomous_enable r st s in     (* timer is a local of run() *)
  let '(st2, e2) := if robot_exit st1 then (st1, []) else run_loop st1 t0 wakes in
  let '(st3, e3) := do_disable st2 in                  (* self.disable() after the loop *)
  (st3, e1 ++ e2 ++ e3).

Definition step (r : selector) (st : lstate) (o : op) : option (lstate * list event) :=
  match o with
  | Start s now => Some (do_start r st s now)
  | Periodic now => match do_periodic st now with Some e => Some (st, e) | None => None end
  | Disable => Some (do_disable st)
  | RunPeriod s t0 wakes => Some (do_run r st s t0 wakes)
  | EndCompetition => Some (mkL (active st) (timer st) true, [])
  end.

(* events delivered by a call sequence; the final state is None when a call
   raised AttributeError (the sequence stops there) *)
Fixpoint run_ops (r : selector) (st : lstate) (ops : list op) : list event * option lstate :=
  match ops with
  | [] => ([], Some st)
  | o :: rest =>
    match step r st o with
    | None => ([], None)
    | Some (st', ev) => let '(ev', fin) := run_ops r st' rest in (ev ++ ev', fin)
    end
  end.

Definition trace (r : selector) (ops : list op) : list event := fst (run_ops r init_lstate ops).
