(* Selector/Proofs.v -- lemmas and theorems about Selector.Model for ALL
   package layouts, FMS states, selections and call sequences. *)
From Coq Require Import String Ascii List ZArith Bool Arith Lia Permutation.
From RV Require Import Selector.Model Selector.Spec.
Import ListNotations.
Open Scope string_scope.
Open Scope list_scope.

(* ================================================================== *)
(* 1. Python dict lemmas                                               *)

Section DictLemmas.
Context {V : Type}.
Implicit Types (d : list (string * V)) (k : string) (v : V).

Lemma dict_get_set : forall d k k' v,
  dict_get k (dict_set k' v d) = if k' =? k then Some v else dict_get k d.
Proof.
  induction d as [|[k0 v0] d IH]; intros k k' v; simpl.
  - reflexivity.
  - destruct (k0 =? k') eqn:E0; simpl.
    + apply String.eqb_eq in E0. subst k0.
      destruct (k' =? k); reflexivity.
    + rewrite IH. destruct (k0 =? k) eqn:E1; [|reflexivity].
      apply String.eqb_eq in E1. subst k0. rewrite String.eqb_sym, E0. reflexivity.
Qed.

Lemma dict_get_In : forall d k v, dict_get k d = Some v -> In (k, v) d.
Proof.
  induction d as [|[k0 v0] d IH]; simpl; intros k v H; [discriminate|].
  destruct (k0 =? k) eqn:E.
  - apply String.eqb_eq in E. inversion H. subst. now left.
  - right. now apply IH.
Qed.

Lemma dict_get_None : forall d k, dict_get k d = None <-> ~ In k (map fst d).
Proof.
  induction d as [|[k0 v0] d IH]; simpl; intros k.
  - split; auto.
  - destruct (k0 =? k) eqn:E.
    + apply String.eqb_eq in E. split; [discriminate|]. intros H. exfalso. apply H. now left.
    + apply String.eqb_neq in E. rewrite IH. split.
      * intros H [H1|H1]; [now apply E | now apply H].
      * intros H H1. apply H. now right.
Qed.

Lemma dict_mem_true : forall d k, dict_mem k d = true <-> In k (map fst d).
Proof.
  intros d k. unfold dict_mem. destruct (dict_get k d) eqn:E.
  - split; [intros _|reflexivity]. apply dict_get_In in E. apply in_map_iff. now exists (k, v).
  - split; [discriminate|]. intros H. apply dict_get_None in E. contradiction.
Qed.

Lemma dict_mem_false : forall d k, dict_mem k d = false <-> ~ In k (map fst d).
Proof.
  intros d k. rewrite <- dict_mem_true. destruct (dict_mem k d); split; congruence.
Qed.

Lemma dict_set_fresh : forall d k v, ~ In k (map fst d) -> dict_set k v d = d ++ [(k, v)].
Proof.
  induction d as [|[k0 v0] d IH]; simpl; intros k v H; [reflexivity|].
  destruct (k0 =? k) eqn:E.
  - apply String.eqb_eq in E. exfalso. apply H. now left.
  - f_equal. apply IH. intros H1. apply H. now right.
Qed.

Lemma dict_set_keys : forall d k v k',
  In k' (map fst (dict_set k v d)) <-> k' = k \/ In k' (map fst d).
Proof.
  induction d as [|[k0 v0] d IH]; simpl; intros k v k'.
  - intuition.
  - destruct (k0 =? k) eqn:E; simpl.
    + apply String.eqb_eq in E. subst. intuition.
    + rewrite IH. intuition.
Qed.

Lemma dict_set_NoDup : forall d k v, NoDup (map fst d) -> NoDup (map fst (dict_set k v d)).
Proof.
  induction d as [|[k0 v0] d IH]; simpl; intros k v H.
  - constructor; [intros []|constructor].
  - inversion H as [|? ? Hn Hd]; subst. destruct (k0 =? k) eqn:E; simpl.
    + apply String.eqb_eq in E. subst. now constructor.
    + constructor; [|now apply IH]. rewrite dict_set_keys. intros [H1|H1].
      * subst. now rewrite String.eqb_refl in E.
      * contradiction.
Qed.

Lemma dict_get_NoDup_In : forall d k v, NoDup (map fst d) -> In (k, v) d -> dict_get k d = Some v.
Proof.
  induction d as [|[k0 v0] d IH]; simpl; intros k v Hn Hi; [contradiction|].
  inversion Hn as [|? ? Hn1 Hn2]; subst. destruct Hi as [Hi|Hi].
  - inversion Hi; subst. now rewrite String.eqb_refl.
  - destruct (k0 =? k) eqn:E.
    + apply String.eqb_eq in E. subst. exfalso. apply Hn1. apply in_map_iff. now exists (k, v).
    + now apply IH.
Qed.

(* sorting *)
Lemma insert_sorted_perm : forall (kv : string * V) l, Permutation (kv :: l) (insert_sorted kv l).
Proof.
  induction l as [|kv' l IH]; simpl; [reflexivity|].
  destruct (fst kv <=? fst kv')%string; [reflexivity|].
  rewrite perm_swap. now constructor.
Qed.

Lemma sort_items_perm : forall (l : list (string * V)), Permutation l (sort_items l).
Proof.
  induction l as [|kv l IH]; simpl; [reflexivity|].
  rewrite <- insert_sorted_perm. now constructor.
Qed.

Lemma dict_get_perm : forall d d' k, NoDup (map fst d) -> Permutation d d' ->
  dict_get k d' = dict_get k d.
Proof.
  intros d d' k Hn Hp.
  assert (Hn' : NoDup (map fst d')).
  { eapply Permutation_NoDup; [|exact Hn]. now apply Permutation_map. }
  destruct (dict_get k d) eqn:E.
  - apply dict_get_In in E. apply dict_get_NoDup_In; [assumption|].
    eapply Permutation_in; eassumption.
  - apply dict_get_None in E. apply dict_get_None. intros H. apply E.
    eapply Permutation_in; [|exact H]. apply Permutation_map. now symmetry.
Qed.

End DictLemmas.

(* ================================================================== *)
(* 2. The scan as a fold over "items"                                  *)

Inductive item := IFail (f : string) | ICls (i : inst).

Definition items_of_module (m : module) : list item :=
  if import_fails m then [IFail (file m)] else map ICls (needed_of m).

Definition items (p : package) : list item := flat_map items_of_module (scanned_modules p).

Fixpoint insts (its : list item) : list inst :=
  match its with
  | [] => []
  | IFail _ :: r => insts r
  | ICls i :: r => i :: insts r
  end.

Definition no_fail (its : list item) : Prop := forall f, ~ In (IFail f) its.

Definition log_call (st : scan) (i : inst) : scan := mkScan (s_modes st) (s_ctors st ++ [call_of i]).

Fixpoint scan_items (fms : bool) (its : list item) (st : scan) : scan * option error :=
  match its with
  | [] => (st, None)
  | IFail f :: rest => if fms then scan_items fms rest st else (st, Some (ErrImport f))
  | ICls i :: rest =>
    let st1 := log_call st i in
    if ctor_raises (icls i) then
      if fms then scan_items fms rest st1 else (st1, Some (ErrCtor (ifile i) (cname (icls i))))
    else if dict_mem (name_of i) (s_modes st1) then
      if fms then scan_items fms rest (mkScan (dict_set (renamed i) i (s_modes st1)) (s_ctors st1))
      else (st1, Some (ErrDuplicate (name_of i) (ifile i)))
    else scan_items fms rest (mkScan (dict_set (name_of i) i (s_modes st1)) (s_ctors st1))
  end.

Lemma scan_items_app : forall fms a b st,
  scan_items fms (a ++ b) st =
  match scan_items fms a st with
  | (st', None) => scan_items fms b st'
  | r => r
  end.
Proof.
  induction a as [|[f|i] a IH]; intros b st; simpl.
  - reflexivity.
  - destruct fms; [apply IH|reflexivity].
  - destruct (ctor_raises (icls i)).
    + destruct fms; [apply IH|reflexivity].
    + destruct (dict_mem (name_of i) _).
      * destruct fms; [apply IH|reflexivity].
      * apply IH.
Qed.

Lemma scan_classes_items : forall fms m cs st,
  scan_classes fms m cs st = scan_items fms (map ICls (map (mkInst (file m)) (filter is_needed cs))) st.
Proof.
  induction cs as [|c cs IH]; intros st; simpl; [reflexivity|].
  unfold is_needed at 1. destruct (mode_name c) as [n|] eqn:En; [|apply IH].
  destruct (disabled c) eqn:Ed; simpl; [apply IH|].
  unfold name_of, renamed, rename_key, log_call, call_of; simpl. rewrite En.
  destruct (ctor_raises c).
  - destruct fms; [apply IH|reflexivity].
  - destruct (dict_mem n (s_modes st)).
    + destruct fms; [apply IH|reflexivity].
    + apply IH.
Qed.

Lemma scan_modules_items : forall fms ms st,
  scan_modules fms ms st =
  scan_items fms (flat_map items_of_module (filter (fun m => negb (mname m =? "__init__")) ms)) st.
Proof.
  induction ms as [|m ms IH]; intros st; simpl; [reflexivity|].
  destruct (mname m =? "__init__"); simpl; [apply IH|].
  rewrite scan_items_app. unfold items_of_module at 1.
  destruct (import_fails m); simpl.
  - destruct fms; [apply IH|reflexivity].
  - rewrite scan_classes_items. unfold needed_of.
    destruct (scan_items fms _ st) as [st' [e|]]; [reflexivity|apply IH].
Qed.

Lemma insts_app : forall a b, insts (a ++ b) = insts a ++ insts b.
Proof.
  induction a as [|[f|i] a IH]; intros b; simpl; [reflexivity|apply IH|now rewrite IH].
Qed.

Lemma insts_map_ICls : forall l, insts (map ICls l) = l.
Proof. induction l; simpl; congruence. Qed.

Lemma insts_items : forall p, insts (items p) = needed p.
Proof.
  intros p. unfold items, needed, loaded_modules.
  induction (scanned_modules p) as [|m ms IH]; simpl; [reflexivity|].
  rewrite insts_app, IH. unfold items_of_module.
  destruct (import_fails m); simpl; [reflexivity|].
  now rewrite insts_map_ICls.
Qed.

Lemma no_fail_items : forall p, no_fail (items p) <-> ~ import_fault p.
Proof.
  intros p. unfold no_fail, import_fault, items. split.
  - intros H [m [Hm Hf]]. apply (H (file m)). apply in_flat_map. exists m. split; [assumption|].
    unfold items_of_module. rewrite Hf. now left.
  - intros H f Hin. apply H. apply in_flat_map in Hin. destruct Hin as [m [Hm Hi]].
    exists m. split; [assumption|]. unfold items_of_module in Hi.
    destruct (import_fails m); [reflexivity|]. apply in_map_iff in Hi. destruct Hi as [? [? ?]]. discriminate.
Qed.

Lemma fail_in_items : forall p f, In (IFail f) (items p) -> import_fault p.
Proof.
  intros p f Hin. unfold items in Hin. apply in_flat_map in Hin. destruct Hin as [m [Hm Hi]].
  exists m. split; [assumption|]. unfold items_of_module in Hi.
  destruct (import_fails m); [reflexivity|].
  apply in_map_iff in Hi. destruct Hi as [? [? ?]]. discriminate.
Qed.

(* the discover function in terms of items *)
Lemma discover_present : forall fms ms,
  discover fms (PkgPresent ms) =
  match scan_items fms (items (PkgPresent ms)) (mkScan [] []) with
  | (st, Some e) => Raised e (s_ctors st)
  | (st, None) => finish_init fms st
  end.
Proof. intros. unfold discover. now rewrite scan_modules_items. Qed.

(* ================================================================== *)
(* 3. Constructor calls                                                *)

Definition is_prefix {A} (a b : list A) : Prop := exists c, b = a ++ c.

Lemma scan_items_ctors : forall fms its st st' e,
  scan_items fms its st = (st', e) ->
  match e with
  | None => s_ctors st' = s_ctors st ++ map call_of (insts its)
  | Some _ => exists pre, is_prefix pre (map call_of (insts its)) /\ s_ctors st' = s_ctors st ++ pre
  end.
Proof.
  induction its as [|[f|i] its IH]; intros st st' e H; simpl in H.
  - inversion H; subst. simpl. now rewrite app_nil_r.
  - destruct fms.
    + apply IH in H. exact H.
    + inversion H; subst. exists []. split; [now exists (map call_of (insts (IFail f :: its)))|now rewrite app_nil_r].
  - assert (Hstep : forall st1, s_ctors st1 = s_ctors st ++ [call_of i] ->
              scan_items fms its st1 = (st', e) ->
              match e with
              | None => s_ctors st' = s_ctors st ++ map call_of (insts (ICls i :: its))
              | Some _ => exists pre, is_prefix pre (map call_of (insts (ICls i :: its))) /\
                                      s_ctors st' = s_ctors st ++ pre
              end).
    { intros st1 H1 H2. apply IH in H2. destruct e.
      - destruct H2 as [pre [[c Hc] Hs]]. exists (call_of i :: pre). split.
        + exists c. simpl. now rewrite Hc.
        + rewrite Hs, H1, <- app_assoc. reflexivity.
      - rewrite H2, H1, <- app_assoc. reflexivity. }
    assert (Hstop : forall e0, (log_call st i, Some e0) = (st', e) ->
              match e with
              | None => s_ctors st' = s_ctors st ++ map call_of (insts (ICls i :: its))
              | Some _ => exists pre, is_prefix pre (map call_of (insts (ICls i :: its))) /\
                                      s_ctors st' = s_ctors st ++ pre
              end).
    { intros e0 H0. inversion H0; subst. exists [call_of i]. split.
      - now exists (map call_of (insts its)).
      - reflexivity. }
    destruct (ctor_raises (icls i)).
    + destruct fms; [eapply Hstep; [|exact H]; reflexivity | eapply Hstop; exact H].
    + destruct (dict_mem (name_of i) _).
      * destruct fms; [eapply Hstep; [|exact H]; reflexivity | eapply Hstop; exact H].
      * eapply Hstep; [|exact H]. reflexivity.
Qed.

Lemma finish_init_ctors : forall fms st r, finish_init fms st = Built r -> ctor_calls r = s_ctors st /\ modes r = s_modes st.
Proof.
  intros fms st r. unfold finish_init.
  destruct (fill_chooser _ _ _) as [ch defaults].
  destruct defaults as [|d0 [|d1 ds]]; [| |destruct fms]; intros H; inversion H; subst; simpl; auto.
Qed.

Lemma finish_init_raised_ctors : forall fms st e c, finish_init fms st = Raised e c -> c = s_ctors st.
Proof.
  intros fms st e c. unfold finish_init.
  destruct (fill_chooser _ _ _) as [ch defaults].
  destruct defaults as [|d0 [|d1 ds]]; [| |destruct fms]; intros H; inversion H; subst; simpl; auto.
Qed.

(* every successful construction of the selector called exactly the
   constructors of [needed p], in scan order *)
Theorem built_ctor_calls : forall fms p r,
  discover fms p = Built r -> ctor_calls r = map call_of (needed p).
Proof.
  intros fms [| |ms] r H.
  - unfold discover in H. apply finish_init_ctors in H. simpl in H. tauto.
  - unfold discover in H. destruct fms; [|discriminate]. apply finish_init_ctors in H. simpl in H. tauto.
  - rewrite discover_present in H.
    destruct (scan_items fms (items (PkgPresent ms)) (mkScan [] [])) as [st [e|]] eqn:E; [discriminate|].
    apply scan_items_ctors in E. simpl in E. apply finish_init_ctors in H.
    destruct H as [H _]. now rewrite H, E, insts_items.
Qed.

Theorem raised_ctor_calls_prefix : forall fms p e c,
  discover fms p = Raised e c -> is_prefix c (map call_of (needed p)).
Proof.
  intros fms [| |ms] e c H.
  - unfold discover in H. apply finish_init_raised_ctors in H. subst. now exists [].
  - unfold discover in H. destruct fms.
    + apply finish_init_raised_ctors in H. subst. now exists [].
    + inversion H. now exists [].
  - rewrite discover_present in H.
    destruct (scan_items fms (items (PkgPresent ms)) (mkScan [] [])) as [st [e0|]] eqn:E.
    + inversion H; subst. apply scan_items_ctors in E. simpl in E.
      destruct E as [pre [Hp Hs]]. rewrite Hs. now rewrite insts_items in Hp.
    + apply finish_init_raised_ctors in H. apply scan_items_ctors in E. simpl in E.
      subst. rewrite E, insts_items. exists []. now rewrite app_nil_r.
Qed.

Lemma NoDup_app_intro {A} (a b : list A) :
  NoDup a -> NoDup b -> (forall x, In x a -> In x b -> False) -> NoDup (a ++ b).
Proof.
  induction a as [|x a IH]; simpl; intros Ha Hb Hd; [assumption|].
  inversion Ha; subst. constructor.
  - rewrite in_app_iff. intros [H|H]; [contradiction|]. apply (Hd x); [now left|assumption].
  - apply IH; [assumption|assumption|]. intros y Hy. apply Hd. now right.
Qed.

(* "once each": a class is identified by (file, member name) *)
Lemma needed_of_calls_NoDup : forall m, NoDup (map cname (classes m)) ->
  NoDup (map (fun i => cname (icls i)) (needed_of m)).
Proof.
  intros m. unfold needed_of. induction (classes m) as [|c cs IH]; simpl; intros H; [constructor|].
  inversion H as [|? ? Hn Hd]; subst. destruct (is_needed c); simpl; [|now apply IH].
  constructor; [|now apply IH]. intros Hin. apply Hn.
  apply in_map_iff in Hin. destruct Hin as [i [Hi Hin]].
  apply in_map_iff in Hin. destruct Hin as [c' [Hc' Hin]]. subst i. simpl in Hi.
  apply filter_In in Hin. apply in_map_iff. exists c'. tauto.
Qed.

Lemma needed_calls_NoDup : forall p, layout_ok p -> NoDup (map call_of (needed p)).
Proof.
  intros p [Hf Hc]. unfold needed, loaded_modules.
  induction (scanned_modules p) as [|m ms IH]; simpl; [constructor|].
  simpl in Hf. inversion Hf as [|? ? Hn Hd]; subst.
  assert (IH' : NoDup (map call_of (flat_map needed_of (filter (fun m => negb (import_fails m)) ms)))).
  { apply IH; [assumption|]. intros m' Hm'. apply Hc. now right. }
  destruct (import_fails m); simpl; [exact IH'|].
  rewrite map_app. apply NoDup_app_intro.
  - assert (Hm : NoDup (map (fun i => cname (icls i)) (needed_of m))) by (apply needed_of_calls_NoDup, Hc; now left).
    clear - Hm. unfold needed_of in *. induction (filter is_needed (classes m)) as [|c cs IH]; simpl in *; [constructor|].
    inversion Hm; subst. constructor; [|now apply IH]. intros Hin. apply H1.
    apply in_map_iff in Hin. destruct Hin as [i [Hi Hin]]. apply in_map_iff. exists i. split; [|assumption].
    unfold call_of in Hi. simpl in Hi. now inversion Hi.
  - exact IH'.
  - intros x Hx Hy. apply Hn.
    apply in_map_iff in Hx. destruct Hx as [i [Hi Hx]]. unfold needed_of in Hx.
    apply in_map_iff in Hx. destruct Hx as [c [Hc' _]]. subst i x. unfold call_of in Hy. simpl in Hy.
    apply in_map_iff in Hy. destruct Hy as [j [Hj Hy]]. apply in_flat_map in Hy. destruct Hy as [m' [Hm' Hy]].
    unfold needed_of in Hy. apply in_map_iff in Hy. destruct Hy as [c' [Hc'' _]]. subst j. simpl in Hj.
    inversion Hj. apply filter_In in Hm'. apply in_map_iff. exists m'. split; [congruence|tauto].
Qed.

(* ================================================================== *)
(* 4. The chooser part of __init__                                     *)

Definition is_default_kv (kv : string * inst) : bool := is_default (snd kv).

Definition default_keys (ms : list (string * inst)) : list string :=
  map fst (filter is_default_kv (sort_items ms)).

Lemma fill_chooser_snd : forall kvs ch acc,
  snd (fill_chooser kvs ch acc) = acc ++ map fst (filter is_default_kv kvs).
Proof.
  induction kvs as [|[k v] kvs IH]; intros ch acc; simpl.
  - now rewrite app_nil_r.
  - unfold is_default_kv at 1, is_default. simpl. destruct (dflt (icls v)); simpl.
    + rewrite IH, <- app_assoc. reflexivity.
    + apply IH.
Qed.

Definition filled (ms : list (string * inst)) : chooser :=
  add_option "None" None (fst (fill_chooser (sort_items ms) (mkChooser [] "") [])).

Lemma finish_init_unfold : forall fms st,
  finish_init fms st =
  match default_keys (s_modes st) with
  | [] => Built (mkSel (s_modes st) (set_default_option "None" None (filled (s_modes st))) (s_ctors st))
  | [_] => Built (mkSel (s_modes st) (filled (s_modes st)) (s_ctors st))
  | ds => if fms then Built (mkSel (s_modes st) (filled (s_modes st)) (s_ctors st))
          else Raised (ErrDefaults ds) (s_ctors st)
  end.
Proof.
  intros fms st. unfold finish_init, filled, default_keys.
  pose proof (fill_chooser_snd (sort_items (s_modes st)) (mkChooser [] "") []) as H.
  destruct (fill_chooser (sort_items (s_modes st)) (mkChooser [] "") []) as [ch ds].
  simpl in H. subst ds. simpl.
  destruct (map fst (filter is_default_kv (sort_items (s_modes st)))) as [|? [|? ?]]; reflexivity.
Qed.

Lemma Permutation_filter_length {A} (f : A -> bool) : forall l l',
  Permutation l l' -> length (filter f l) = length (filter f l').
Proof.
  induction 1; simpl; try congruence.
  - destruct (f x); simpl; congruence.
  - destruct (f x), (f y); simpl; reflexivity.
Qed.

Lemma default_keys_length : forall ms,
  length (default_keys ms) = length (filter is_default_kv ms).
Proof.
  intros ms. unfold default_keys. rewrite map_length.
  symmetry. apply Permutation_filter_length, sort_items_perm.
Qed.

Lemma filter_entry_of_length : forall l,
  length (filter is_default_kv (map entry_of l)) = length (filter is_default l).
Proof.
  induction l as [|i l IH]; simpl; [reflexivity|].
  unfold is_default_kv at 1. simpl. destruct (is_default i); simpl; congruence.
Qed.

Lemma map_fst_entry_of : forall l, map fst (map entry_of l) = map name_of l.
Proof. induction l; simpl; congruence. Qed.

(* ================================================================== *)
(* 5. Without the FMS: raises  <->  some fault                         *)

Lemma scan_items_nofms_ok : forall its st st',
  scan_items false its st = (st', None) ->
  NoDup (map fst (s_modes st)) ->
  no_fail its /\ (forall i, In i (insts its) -> ctor_raises (icls i) = false) /\
  s_modes st' = s_modes st ++ map entry_of (insts its) /\ NoDup (map fst (s_modes st')).
Proof.
  induction its as [|[f|i] its IH]; intros st st' H Hn; simpl in H.
  - inversion H; subst. simpl. rewrite app_nil_r.
    split; [intros f []|]. split; [intros i []|]. split; [reflexivity|assumption].
  - discriminate.
  - destruct (ctor_raises (icls i)) eqn:Ec; [discriminate|].
    destruct (dict_mem (name_of i) _) eqn:Em; [discriminate|].
    simpl in Em. apply dict_mem_false in Em.
    apply IH in H; [|simpl; now apply dict_set_NoDup].
    destruct H as [H1 [H2 [H3 H4]]]. simpl in H3. repeat split.
    + intros f [Hf|Hf]; [discriminate|]. now apply (H1 f).
    + intros j [Hj|Hj]; [now subst|now apply H2].
    + rewrite H3, dict_set_fresh by assumption. simpl. rewrite <- app_assoc. reflexivity.
    + assumption.
Qed.

Lemma NoDup_app_In_false {A} (a b : list A) x : In x a -> In x b -> ~ NoDup (a ++ b).
Proof.
  induction a as [|y a IH]; simpl; intros Ha Hb Hn; [contradiction|].
  inversion Hn; subst. destruct Ha as [Ha|Ha].
  - subst. apply H1. apply in_app_iff. now right.
  - now apply IH.
Qed.

Lemma scan_items_nofms_err : forall its st st' e,
  scan_items false its st = (st', Some e) ->
  (exists f, In (IFail f) its) \/
  (exists i, In i (insts its) /\ ctor_raises (icls i) = true) \/
  ~ NoDup (map fst (s_modes st) ++ map name_of (insts its)).
Proof.
  induction its as [|[f|i] its IH]; intros st st' e H; simpl in H.
  - discriminate.
  - left. exists f. now left.
  - destruct (ctor_raises (icls i)) eqn:Ec.
    { right. left. exists i. split; [now left|assumption]. }
    destruct (dict_mem (name_of i) _) eqn:Em.
    { right. right. simpl in Em. apply dict_mem_true in Em. simpl.
      apply NoDup_app_In_false with (x := name_of i); [assumption|now left]. }
    simpl in Em. apply dict_mem_false in Em.
    apply IH in H. destruct H as [[f Hf]|[[j [Hj Hr]]|Hd]].
    + left. exists f. now right.
    + right. left. exists j. split; [now right|assumption].
    + right. right. simpl in Hd. rewrite dict_set_fresh in Hd by assumption.
      rewrite map_app in Hd. simpl in Hd. rewrite <- app_assoc in Hd. exact Hd.
Qed.

Lemma discover_missing_built : forall fms, exists r, discover fms PkgMissing = Built r.
Proof. intros fms. unfold discover. rewrite finish_init_unfold. simpl. eauto. Qed.

(* What a successful construction without FMS means *)
Theorem no_fms_built : forall p r,
  discover false p = Built r ->
  p <> PkgInitFails /\ ~ import_fault p /\ ~ ctor_fault p /\ ~ duplicate_names p /\ ~ several_defaults p /\
  modes r = map entry_of (needed p).
Proof.
  intros [| |ms] r H.
  - repeat split; try discriminate.
    + intros [m [[] _]].
    + intros [i [[] _]].
    + intros Hd. apply Hd. constructor.
    + unfold several_defaults. simpl. lia.
    + unfold discover in H. apply finish_init_ctors in H. simpl in H. tauto.
  - discriminate.
  - rewrite discover_present in H.
    destruct (scan_items false (items (PkgPresent ms)) (mkScan [] [])) as [st [e|]] eqn:E; [discriminate|].
    apply scan_items_nofms_ok in E; [|constructor].
    destruct E as [E1 [E2 [E3 E4]]]. simpl in E3. rewrite insts_items in *.
    pose proof (finish_init_ctors _ _ _ H) as [_ Hm].
    repeat split.
    + discriminate.
    + now apply no_fail_items.
    + intros [i [Hi Hr]]. rewrite (E2 i Hi) in Hr. discriminate.
    + intros Hd. apply Hd. rewrite E3, map_fst_entry_of in E4. exact E4.
    + unfold several_defaults. rewrite finish_init_unfold in H.
      assert (Hl : length (default_keys (s_modes st)) = length (filter is_default (needed (PkgPresent ms))))
        by (rewrite default_keys_length, E3, filter_entry_of_length; reflexivity).
      destruct (default_keys (s_modes st)) as [|d0 [|d1 ds]]; simpl in Hl; try lia. simpl in H. discriminate H.
    + now rewrite Hm.
Qed.

Theorem no_fms_raised : forall p e c,
  discover false p = Raised e c ->
  p = PkgInitFails \/ import_fault p \/ ctor_fault p \/ duplicate_names p \/ several_defaults p.
Proof.
  intros [| |ms] e c H.
  - destruct (discover_missing_built false) as [r Hr]. congruence.
  - now left.
  - right. rewrite discover_present in H.
    destruct (scan_items false (items (PkgPresent ms)) (mkScan [] [])) as [st [e0|]] eqn:E.
    + apply scan_items_nofms_err in E. rewrite insts_items in E. simpl in E.
      destruct E as [[f Hf]|[[i [Hi Hr]]|Hd]].
      * left. now apply fail_in_items with (f := f).
      * right. left. now exists i.
      * right. right. now left.
    + right. right. right.
      apply scan_items_nofms_ok in E; [|constructor]. destruct E as [_ [_ [E3 _]]].
      simpl in E3. rewrite insts_items in E3.
      unfold several_defaults. rewrite finish_init_unfold in H.
      assert (Hl : length (default_keys (s_modes st)) = length (filter is_default (needed (PkgPresent ms))))
        by (rewrite default_keys_length, E3, filter_entry_of_length; reflexivity).
      destruct (default_keys (s_modes st)) as [|d0 [|d1 ds]]; try discriminate.
      simpl in Hl. lia.
Qed.

Theorem no_fms_raises_iff : forall p,
  (exists e c, discover false p = Raised e c) <->
  (package_fault p \/ import_fault p \/ ctor_fault p \/ duplicate_names p \/ several_defaults p).
Proof.
  unfold package_fault. intros p; split.
  - intros [e [c H]]. eapply no_fms_raised; eauto.
  - intros Hf. destruct (discover false p) as [r|e c] eqn:E; [|eauto].
    exfalso. apply no_fms_built in E. destruct E as [E0 [E1 [E2 [E3 [E4 _]]]]].
    destruct Hf as [H|[H|[H|[H|H]]]]; auto.
Qed.

(* ================================================================== *)
(* 6. With the FMS attached                                            *)

Lemma scan_items_fms_ok : forall its st, exists st', scan_items true its st = (st', None).
Proof.
  induction its as [|[f|i] its IH]; intros st; simpl; eauto.
  destruct (ctor_raises (icls i)); [apply IH|]. destruct (dict_mem _ _); apply IH.
Qed.

Lemma finish_init_fms_built : forall st, exists r, finish_init true st = Built r.
Proof.
  intros st. rewrite finish_init_unfold.
  destruct (default_keys (s_modes st)) as [|d0 [|d1 ds]]; eauto.
Qed.

Theorem fms_never_raises : forall p, exists r, discover true p = Built r.
Proof.
  intros [| |ms].
  - apply discover_missing_built.
  - apply (discover_missing_built true).
  - rewrite discover_present.
    destruct (scan_items_fms_ok (items (PkgPresent ms)) (mkScan [] [])) as [st' E]. rewrite E.
    apply finish_init_fms_built.
Qed.

Lemma scan_items_NoDup : forall fms its st st' e,
  scan_items fms its st = (st', e) -> NoDup (map fst (s_modes st)) -> NoDup (map fst (s_modes st')).
Proof.
  induction its as [|[f|i] its IH]; intros st st' e H Hn; simpl in H.
  - now inversion H; subst.
  - destruct fms; [eapply IH; eauto | now inversion H; subst].
  - destruct (ctor_raises (icls i)).
    + destruct fms; [eapply IH; eauto | now inversion H; subst].
    + destruct (dict_mem _ _).
      * destruct fms; [eapply IH; [exact H|]; simpl; now apply dict_set_NoDup | now inversion H; subst].
      * eapply IH; [exact H|]. simpl. now apply dict_set_NoDup.
Qed.

Definition key_ok (kv : string * inst) : Prop :=
  fst kv = name_of (snd kv) \/ fst kv = renamed (snd kv).

Lemma scan_items_fms_modes : forall its st st',
  scan_items true its st = (st', None) ->
  NoDup (map fst (s_modes st)) ->
  NoDup (map renamed (insts its)) ->
  (forall i j, In i (insts its) -> In j (insts its) -> name_of i <> renamed j) ->
  (forall k i, In k (map fst (s_modes st)) -> In i (insts its) -> k <> renamed i) ->
  exists kl, s_modes st' = s_modes st ++ kl /\ map snd kl = filter healthy (insts its) /\
             Forall key_ok kl.
Proof.
  induction its as [|[f|i] its IH]; intros st st' H Hn Hr Hc Hk; simpl in H.
  - inversion H; subst. exists []. simpl. rewrite app_nil_r. auto.
  - apply IH in H; auto.
  - simpl in Hr. inversion Hr as [|? ? Hr1 Hr2]; subst.
    assert (Hc' : forall a b, In a (insts its) -> In b (insts its) -> name_of a <> renamed b).
    { intros a b Ha Hb. apply Hc; now right. }
    simpl. unfold healthy at 1.
    destruct (ctor_raises (icls i)) eqn:Ec; simpl.
    { apply IH in H; auto. intros k j Hk1 Hj. apply Hk; [assumption|now right]. }
    assert (Hfresh : forall k, ~ In k (map fst (s_modes st)) ->
              (k = name_of i \/ k = renamed i) ->
              scan_items true its (mkScan (dict_set k i (s_modes st)) (s_ctors st ++ [call_of i])) = (st', None) ->
              exists kl, s_modes st' = s_modes st ++ kl /\ map snd kl = i :: filter healthy (insts its) /\
                         Forall key_ok kl).
    { intros k Hnk Hko H0. apply IH in H0; auto.
      - destruct H0 as [kl [H1 [H2 H3]]]. simpl in H1. rewrite dict_set_fresh in H1 by assumption.
        exists ((k, i) :: kl). split; [now rewrite H1, <- app_assoc|]. split; [simpl; now rewrite H2|].
        constructor; [exact Hko|assumption].
      - simpl. now apply dict_set_NoDup.
      - simpl. intros k' j Hk' Hj. apply dict_set_keys in Hk'. destruct Hk' as [Hk'|Hk'].
        + subst k'. destruct Hko as [Hko|Hko]; subst k.
          * apply Hc; [now left|now right].
          * intros Heq. apply Hr1. rewrite Heq. now apply in_map.
        + apply Hk; [assumption|now right]. }
    destruct (dict_mem (name_of i) _) eqn:Em; simpl in Em.
    + apply (Hfresh (renamed i)); [|now right|exact H].
      intros Hin. apply (Hk (renamed i) i); [assumption|now left|reflexivity].
    + apply dict_mem_false in Em. apply (Hfresh (name_of i)); [assumption|now left|exact H].
Qed.

(* every construction goes through finish_init on a scan state with distinct keys *)
Lemma discover_built_inv : forall fms p r,
  discover fms p = Built r ->
  exists st, finish_init fms st = Built r /\ NoDup (map fst (s_modes st)) /\
             scan_items fms (items p) (mkScan [] []) = (st, None).
Proof.
  intros fms [| |ms] r H.
  - exists (mkScan [] []). split; [exact H|]. split; [constructor|reflexivity].
  - unfold discover in H. destruct fms; [|discriminate].
    exists (mkScan [] []). split; [exact H|]. split; [constructor|reflexivity].
  - rewrite discover_present in H.
    destruct (scan_items fms (items (PkgPresent ms)) (mkScan [] [])) as [st [e|]] eqn:E; [discriminate|].
    exists st. split; [exact H|]. split; [|reflexivity].
    eapply scan_items_NoDup; [exact E|constructor].
Qed.

Lemma built_modes_NoDup : forall fms p r, discover fms p = Built r -> NoDup (map fst (modes r)).
Proof.
  intros fms p r H. apply discover_built_inv in H. destruct H as [st [H1 [H2 _]]].
  apply finish_init_ctors in H1. destruct H1 as [_ H1]. now rewrite H1.
Qed.

Theorem fms_modes : forall p r,
  discover true p = Built r -> no_key_clash p ->
  (forall i, In i (needed p) -> healthy i = true ->
     exists k, (k = name_of i \/ k = renamed i) /\ dict_get k (modes r) = Some i) /\
  (forall k i, dict_get k (modes r) = Some i ->
     In i (needed p) /\ healthy i = true /\ (k = name_of i \/ k = renamed i)).
Proof.
  intros p r H [Hc1 Hc2].
  pose proof (built_modes_NoDup _ _ _ H) as Hnd.
  apply discover_built_inv in H. destruct H as [st [H1 [H2 H3]]].
  apply finish_init_ctors in H1. destruct H1 as [_ H1].
  apply scan_items_fms_modes in H3.
  2: { simpl. constructor. }
  2: { rewrite insts_items. exact Hc1. }
  2: { rewrite insts_items. exact Hc2. }
  2: { simpl. intros k i []. }
  destruct H3 as [kl [E1 [E2 E3]]]. simpl in E1. rewrite insts_items in E2. rewrite H1, E1 in *.
  split.
  - intros i Hi Hh.
    assert (Hin : In i (map snd kl)) by (rewrite E2; apply filter_In; auto).
    apply in_map_iff in Hin. destruct Hin as [[k i'] [Hs Hin]]. simpl in Hs. subst i'.
    exists k. split.
    + rewrite Forall_forall in E3. apply (E3 _ Hin).
    + now apply dict_get_NoDup_In.
  - intros k i Hg. apply dict_get_In in Hg.
    assert (Hin : In i (map snd kl)) by (apply in_map_iff; now exists (k, i)).
    rewrite E2 in Hin. apply filter_In in Hin. destruct Hin as [Hi Hh].
    repeat split; auto. rewrite Forall_forall in E3. apply (E3 _ Hg).
Qed.

(* ================================================================== *)
(* 7. The chooser: options and preselection                            *)

Lemma fill_chooser_get : forall kvs ch acc k, NoDup (map fst kvs) ->
  dict_get k (options (fst (fill_chooser kvs ch acc))) =
  match dict_get k kvs with Some v => Some (Some v) | None => dict_get k (options ch) end.
Proof.
  induction kvs as [|[k0 v0] kvs IH]; intros ch acc k Hn; simpl; [reflexivity|].
  inversion Hn as [|? ? Hn1 Hn2]; subst.
  assert (Hk : (k0 =? k) = true -> dict_get k kvs = None).
  { intros E. apply String.eqb_eq in E. subst. now apply dict_get_None. }
  destruct (dflt (icls v0)); rewrite IH by assumption; simpl; rewrite dict_get_set;
    destruct (k0 =? k) eqn:E; try reflexivity; rewrite (Hk eq_refl); reflexivity.
Qed.

Lemma last_indep {A} : forall (l : list A) b d d', last (b :: l) d = last (b :: l) d'.
Proof. induction l as [|c l IH]; intros b d d'; [reflexivity|]. simpl in *. apply (IH c). Qed.

Lemma last_cons {A} : forall (l : list A) a d, last (a :: l) d = last l a.
Proof. intros [|b l] a d; [reflexivity|]. change (last (a :: b :: l) d) with (last (b :: l) d). apply last_indep. Qed.

Lemma fill_chooser_default : forall kvs ch acc,
  cdefault (fst (fill_chooser kvs ch acc)) = last (map fst (filter is_default_kv kvs)) (cdefault ch).
Proof.
  induction kvs as [|[k0 v0] kvs IH]; intros ch acc; simpl; [reflexivity|].
  unfold is_default_kv at 1, is_default. simpl. destruct (dflt (icls v0)); simpl.
  - rewrite IH. simpl. destruct (map fst (filter is_default_kv kvs)) as [|b l]; [reflexivity|]. apply last_indep.
  - now rewrite IH.
Qed.

Lemma filled_get : forall ms k, NoDup (map fst ms) ->
  dict_get k (options (filled ms)) =
  if "None" =? k then Some None else option_map Some (dict_get k ms).
Proof.
  intros ms k Hn. unfold filled, add_option. cbn [options]. rewrite dict_get_set.
  destruct ("None" =? k); [reflexivity|].
  rewrite fill_chooser_get.
  - rewrite (dict_get_perm ms (sort_items ms) k Hn (sort_items_perm ms)). cbn [options dict_get].
    destruct (dict_get k ms); reflexivity.
  - eapply Permutation_NoDup; [|exact Hn]. apply Permutation_map, sort_items_perm.
Qed.

Lemma built_chooser : forall fms p r, discover fms p = Built r ->
  (chooser_of r = filled (modes r) /\ default_keys (modes r) <> []) \/
  (chooser_of r = set_default_option "None" None (filled (modes r)) /\ default_keys (modes r) = []).
Proof.
  intros fms p r H. apply discover_built_inv in H. destruct H as [st [H _]].
  rewrite finish_init_unfold in H.
  destruct (default_keys (s_modes st)) as [|d0 [|d1 ds]] eqn:E.
  - inversion H; subst; simpl. right. split; [reflexivity|assumption].
  - inversion H; subst; simpl. left. split; [reflexivity|]. rewrite E. discriminate.
  - destruct fms; [|discriminate]. inversion H; subst; simpl. left. split; [reflexivity|]. rewrite E. discriminate.
Qed.

Theorem built_options : forall fms p r, discover fms p = Built r ->
  forall k, dict_get k (options (chooser_of r)) =
            if "None" =? k then Some None else option_map Some (dict_get k (modes r)).
Proof.
  intros fms p r H k. pose proof (built_modes_NoDup _ _ _ H) as Hn.
  destruct (built_chooser _ _ _ H) as [[Hc _]|[Hc _]]; rewrite Hc.
  - now apply filled_get.
  - unfold set_default_option. cbn [options]. rewrite dict_get_set.
    rewrite filled_get by assumption. destruct ("None" =? k); reflexivity.
Qed.

Lemma dict_get_not_None_In {V} : forall (d : list (string * V)) k,
  In k (map fst d) <-> dict_get k d <> None.
Proof.
  intros d k. split.
  - intros Hin Hg. apply dict_get_None in Hg. contradiction.
  - intros Hg. destruct (in_dec string_dec k (map fst d)) as [Hi|Hi]; [assumption|].
    apply dict_get_None in Hi. contradiction.
Qed.

Theorem built_option_names : forall fms p r, discover fms p = Built r ->
  forall k, In k (option_names r) <-> k = "None" \/ In k (map fst (modes r)).
Proof.
  intros fms p r H k. unfold option_names. rewrite dict_get_not_None_In.
  rewrite (built_options _ _ _ H). destruct ("None" =? k) eqn:E.
  - apply String.eqb_eq in E. subst. split; [now left|discriminate].
  - apply String.eqb_neq in E. rewrite dict_get_not_None_In.
    destruct (dict_get k (modes r)); simpl; split.
    + intros _. right. discriminate.
    + discriminate.
    + intros Hx. now contradiction Hx.
    + intros [Hx|Hx]; [now subst|now contradiction Hx].
Qed.

Lemma default_keys_In : forall ms k, In k (default_keys ms) ->
  exists i, In (k, i) ms /\ is_default i = true.
Proof.
  intros ms k Hin. unfold default_keys in Hin. apply in_map_iff in Hin.
  destruct Hin as [[k' i] [Hk Hin]]. simpl in Hk. subst k'. apply filter_In in Hin.
  destruct Hin as [Hin Hd]. exists i. split; [|exact Hd].
  eapply Permutation_in; [symmetry; apply sort_items_perm|exact Hin].
Qed.

Lemma last_In {A} : forall (l : list A) d, l <> [] -> In (last l d) l.
Proof.
  induction l as [|a l IH]; intros d H; [congruence|].
  destruct l as [|b l]; [now left|]. right. apply IH. discriminate.
Qed.

Theorem built_preselection : forall fms p r, discover fms p = Built r ->
  match filter is_default_kv (modes r) with
  | [] => preselection r = "None"
  | [(k, i)] => preselection r = k
  | _ => exists k i, In (k, i) (modes r) /\ is_default i = true /\ preselection r = k
  end.
Proof.
  intros fms p r H. unfold preselection.
  pose proof (default_keys_length (modes r)) as Hl.
  assert (Hgen : default_keys (modes r) <> [] -> chooser_of r = filled (modes r) ->
                 exists k i, In (k, i) (modes r) /\ is_default i = true /\ cdefault (chooser_of r) = k).
  { intros Hne Hc. rewrite Hc. unfold filled, add_option. simpl. rewrite fill_chooser_default. simpl.
    fold (default_keys (modes r)).
    pose proof (last_In (default_keys (modes r)) "" Hne) as Hin.
    apply default_keys_In in Hin. destruct Hin as [i [Hi Hd]]. eauto. }
  destruct (built_chooser _ _ _ H) as [[Hc Hne]|[Hc He]].
  - destruct (Hgen Hne Hc) as [k [i [Hi [Hd Hk]]]].
    destruct (filter is_default_kv (modes r)) as [|[k0 i0] [|kv l]] eqn:Ef.
    + simpl in Hl. destruct (default_keys (modes r)); [congruence|discriminate].
    + assert (Hin : In (k, i) (filter is_default_kv (modes r))) by (apply filter_In; auto).
      rewrite Ef in Hin. destruct Hin as [Hin|[]]. inversion Hin; subst. reflexivity.
    + eauto.
  - rewrite He in Hl. simpl in Hl.
    destruct (filter is_default_kv (modes r)); [|discriminate]. rewrite Hc. reflexivity.
Qed.

(* ================================================================== *)
(* 8. Selection                                                        *)

Theorem select_dashboard : forall r a c m,
  dict_get a (modes r) = Some m -> select r (Some a, c) = Some m.
Proof. intros r a c m H. unfold select. simpl. now rewrite H. Qed.

Theorem select_chooser : forall r d c,
  (forall a, d = Some a -> dict_get a (modes r) = None) ->
  select r (d, c) = chooser_selected (chooser_of r) c.
Proof.
  intros r [a|] c H; unfold select; simpl; [|reflexivity].
  now rewrite (H a eq_refl).
Qed.

Theorem chooser_selected_built : forall fms p r, discover fms p = Built r -> forall c,
  chooser_selected (chooser_of r) c =
  let name := match c with Some s => s | None => preselection r end in
  if (name =? "") || (name =? "None") then None else dict_get name (modes r).
Proof.
  intros fms p r H c. unfold chooser_selected, preselection.
  set (name := match c with Some s => s | None => cdefault (chooser_of r) end).
  cbv zeta. destruct (name =? ""); [reflexivity|]. cbn [orb].
  rewrite (built_options _ _ _ H). rewrite (String.eqb_sym "None" name).
  destruct (name =? "None"); [reflexivity|].
  destruct (dict_get name (modes r)); reflexivity.
Qed.

(* ================================================================== *)
(* 9. Lifecycle                                                        *)

Lemma nondecreasing_tail : forall x l, nondecreasing (x :: l) -> nondecreasing l.
Proof. intros x l H. simpl in H. tauto. Qed.

Lemma nondecreasing_app_r : forall a b, nondecreasing (a ++ b) -> nondecreasing b.
Proof. induction a as [|x a IH]; intros b H; [assumption|]. apply IH. eapply nondecreasing_tail, H. Qed.

Lemma nondecreasing_app_l : forall a b, nondecreasing (a ++ b) -> nondecreasing a.
Proof.
  induction a as [|x a IH]; intros b H; [exact I|].
  simpl in *. destruct H as [H1 H2]. split; [|now apply IH with b].
  destruct a; [exact I|exact H1].
Qed.

Lemma nondecreasing_cons2 : forall x y l,
  nondecreasing (x :: y :: l) <-> (x <= y)%Z /\ nondecreasing (y :: l).
Proof. intros. simpl. tauto. Qed.

Lemma nondecreasing_lower : forall l x, nondecreasing (x :: l) -> Forall (fun y => x <= y)%Z l.
Proof.
  induction l as [|y l IH]; intros x H; [constructor|].
  apply nondecreasing_cons2 in H. destruct H as [H1 H2].
  constructor; [assumption|]. apply IH in H2.
  eapply Forall_impl; [|exact H2]. intros z Hz. simpl in Hz. lia.
Qed.

Lemma nondecreasing_shift : forall l t0,
  nondecreasing l -> nondecreasing (map (fun now => now - t0)%Z l).
Proof.
  induction l as [|x l IH]; intros t0 H; [exact I|].
  simpl in *. destruct H as [H1 H2]. split; [|now apply IH].
  destruct l; simpl; [exact I|lia].
Qed.

Lemma enabled_prefix_is_prefix : forall wakes, exists rest, map wake_now wakes = enabled_prefix wakes ++ rest.
Proof.
  induction wakes as [|[[now [|]] dis] wakes [rest IH]]; simpl.
  - now exists [].
  - exists rest. unfold wake_now at 1. simpl. now rewrite IH.
  - now exists (now :: map wake_now wakes).
Qed.

Lemma live_prefix_is_prefix : forall wakes, exists rest, map wake_now wakes = live_prefix wakes ++ rest.
Proof.
  induction wakes as [|[[now [|]] [|]] wakes [rest IH]]; simpl.
  - now exists [].
  - now exists (map wake_now wakes).
  - exists rest. unfold wake_now at 1. simpl. now rewrite IH.
  - now exists (now :: map wake_now wakes).
  - now exists (now :: map wake_now wakes).
Qed.

Lemma live_prefix_undisturbed : forall wakes, undisturbed wakes -> live_prefix wakes = enabled_prefix wakes.
Proof.
  induction wakes as [|[[now en] dis] wakes IH]; intros H; [reflexivity|].
  inversion H as [|? ? H1 H2]; subst. unfold wake_disable in H1. simpl in H1. subst dis.
  simpl. destruct en; [|reflexivity]. now rewrite IH.
Qed.

Lemma disable_seen_undisturbed : forall wakes, undisturbed wakes -> disable_seen wakes = false.
Proof.
  induction wakes as [|[[now en] dis] wakes IH]; intros H; [reflexivity|].
  inversion H as [|? ? H1 H2]; subst. unfold wake_disable in H1. simpl in H1. subst dis.
  simpl. destruct en; [|reflexivity]. now apply IH.
Qed.

(* passes before a disable(): all enabled, none of them disturbed *)
Definition calm (w : wake) : Prop := wake_enabled w = true /\ wake_disable w = false.

Lemma live_prefix_disabled_at : forall pre now post, Forall calm pre ->
  live_prefix (pre ++ (now, true, true) :: post) = map wake_now pre ++ [now] /\
  disable_seen (pre ++ (now, true, true) :: post) = true.
Proof.
  induction pre as [|[[n en] dis] pre IH]; intros now post H; [split; reflexivity|].
  inversion H as [|? ? [H1 H2] H3]; subst. unfold wake_enabled, wake_disable in *. simpl in H1, H2. subst.
  destruct (IH now post H3) as [E1 E2]. simpl. rewrite E1, E2. split; reflexivity.
Qed.

(* the loop of run() while a mode is active: one on_iteration per live pass,
   and the on_disable at the pass during which disable() was called *)
Lemma run_loop_active : forall m tm ex t0 wakes,
  run_loop (mkL (Some m) tm ex) t0 wakes =
  (mkL (if disable_seen wakes then None else Some m) tm ex,
   map (OnIteration m) (map (fun now => now - t0)%Z (live_prefix wakes)) ++
   (if disable_seen wakes then [OnDisable m] else [])).
Proof.
  intros m tm ex t0 wakes. induction wakes as [|[[now [|]] [|]] wakes IH]; simpl; try reflexivity.
  - (* disable() during this pass: nothing more is delivered *)
    assert (Hidle : forall w, run_loop (mkL None tm ex) t0 w = (mkL None tm ex, [])).
    { induction w as [|[[n [|]] [|]] w IHw]; simpl; try reflexivity; now rewrite IHw. }
    unfold on_iteration, do_disable. simpl. rewrite Hidle. reflexivity.
  - unfold on_iteration. simpl. rewrite IH. reflexivity.
Qed.

Lemma run_loop_idle : forall tm ex t0 wakes,
  run_loop (mkL None tm ex) t0 wakes = (mkL None tm ex, []).
Proof.
  intros tm ex t0 wakes. induction wakes as [|[[n [|]] [|]] w IHw]; simpl; try reflexivity; now rewrite IHw.
Qed.

(* what one run() period delivers, exactly: on_enable, one on_iteration per
   live pass of the loop, one on_disable -- whether disable() was called during
   the loop or only by run() itself after it *)
Theorem run_period_exact : forall r st s t0 wakes,
  active st = None ->
  do_run r st s t0 wakes =
  (mkL None (timer st) (robot_exit st),
   match select r s with
   | None => []
   | Some m => OnEnable m ::
               map (OnIteration m)
                   (if robot_exit st then [] else map (fun now => now - t0)%Z (live_prefix wakes)) ++
               [OnDisable m]
   end).
Proof.
  intros r st s t0 wakes Ha. unfold do_run, on_autonomous_enable. cbn [robot_exit timer].
  destruct (select r s) as [m|] eqn:Es.
  - destruct (robot_exit st) eqn:Ex; [reflexivity|].
    rewrite run_loop_active. destruct (disable_seen wakes); unfold do_disable; simpl.
    + rewrite app_nil_r. reflexivity.
    + rewrite app_nil_r. reflexivity.
  - destruct (robot_exit st) eqn:Ex; [reflexivity|].
    rewrite run_loop_idle. reflexivity.
Qed.

(* ... when nobody disturbs the loop: one on_iteration per enabled pass *)
Theorem run_period_undisturbed : forall r st s t0 wakes,
  active st = None -> undisturbed wakes ->
  do_run r st s t0 wakes =
  (mkL None (timer st) (robot_exit st),
   match select r s with
   | None => []
   | Some m => OnEnable m ::
               map (OnIteration m)
                   (if robot_exit st then [] else map (fun now => now - t0)%Z (enabled_prefix wakes)) ++
               [OnDisable m]
   end).
Proof.
  intros r st s t0 wakes Ha Hu. rewrite run_period_exact by assumption.
  now rewrite live_prefix_undisturbed.
Qed.

(* ... when disable() is called during a pass of the loop: that pass is the last
   one that delivers anything, on_disable comes once, and neither the passes that
   follow ([post], whatever the driver station says in them) nor run()'s own
   disable() after the loop deliver anything more *)
Theorem run_period_disabled_mid : forall r st s m t0 pre now post,
  active st = None -> robot_exit st = false -> select r s = Some m -> Forall calm pre ->
  do_run r st s t0 (pre ++ (now, true, true) :: post) =
  (mkL None (timer st) false,
   OnEnable m ::
   map (OnIteration m) (map (fun n => n - t0)%Z (map wake_now pre ++ [now])) ++ [OnDisable m]).
Proof.
  intros r st s m t0 pre now post Ha Hx Hs Hc. rewrite run_period_exact by assumption.
  rewrite Hs, Hx. destruct (live_prefix_disabled_at pre now post Hc) as [E _]. now rewrite E.
Qed.

Lemma run_ops_periodics : forall r m t0 ex nows rest,
  run_ops r (mkL (Some m) (Some t0) ex) (map Periodic nows ++ rest) =
  let '(ev, fin) := run_ops r (mkL (Some m) (Some t0) ex) rest in
  (map (fun now => OnIteration m (now - t0)%Z) nows ++ ev, fin).
Proof.
  intros r m t0 ex nows rest. induction nows as [|now nows IH]; simpl.
  - destruct (run_ops r _ rest). reflexivity.
  - simpl in IH. rewrite IH. destruct (run_ops r _ rest). reflexivity.
Qed.

(* what one start / periodic* / disable period delivers, exactly *)
Theorem timed_period_exact : forall r st s now nows,
  active st = None ->
  run_ops r st (Start s now :: map Periodic nows ++ [Disable]) =
  (match select r s with
   | None => []
   | Some m => OnEnable m :: map (fun n => OnIteration m (n - now)%Z) nows ++ [OnDisable m]
   end,
   Some (mkL None (Some now) (robot_exit st))).
Proof.
  intros r st s now nows Ha. cbn [run_ops step]. unfold do_start, on_autonomous_enable. cbn [timer robot_exit].
  destruct (select r s) as [m|] eqn:Es.
  - rewrite run_ops_periodics. simpl. reflexivity.
  - induction nows as [|n nows IH]; simpl; [reflexivity|].
    simpl in IH. destruct (run_ops r _ (map Periodic nows ++ [Disable])) as [ev fin].
    inversion IH; subst. reflexivity.
Qed.

(* tail of an open period of mode m whose last elapsed time was >= lo *)
Inductive tail_ok (r : selector) (m : inst) : Z -> list sel -> list event -> Prop :=
| tail_open : forall lo, tail_ok r m lo [] []
| tail_iter : forall lo t ss tr, (lo <= t)%Z -> tail_ok r m t ss tr ->
    tail_ok r m lo ss (OnIteration m t :: tr)
| tail_close : forall lo ss tr, conforms r ss tr -> tail_ok r m lo ss (OnDisable m :: tr).

Lemma tail_ok_shape : forall r m lo ss tr, tail_ok r m lo ss tr ->
  exists ts, nondecreasing (lo :: ts) /\
    ((ss = [] /\ tr = map (OnIteration m) ts) \/
     (exists tr', tr = map (OnIteration m) ts ++ OnDisable m :: tr' /\ conforms r ss tr')).
Proof.
  induction 1 as [lo|lo t ss tr Hle Ht [ts [Hn Hs]]|lo ss tr Hc].
  - exists []. split; [simpl; tauto|]. left. auto.
  - exists (t :: ts). split; [apply nondecreasing_cons2; auto|].
    destruct Hs as [[Hs1 Hs2]|[tr' [Hs1 Hs2]]].
    + left. subst. auto.
    + right. exists tr'. subst. auto.
  - exists []. split; [simpl; tauto|]. right. exists tr. auto.
Qed.

Lemma tail_to_conforms : forall r m lo s ss tr,
  tail_ok r m lo ss tr -> (0 <= lo)%Z -> select r s = Some m ->
  conforms r (s :: ss) (OnEnable m :: tr).
Proof.
  intros r m lo s ss tr Ht Hlo Hs. apply tail_ok_shape in Ht.
  destruct Ht as [ts [Hn Hshape]].
  assert (Hpos : Forall (fun t => 0 <= t)%Z ts).
  { apply nondecreasing_lower in Hn. eapply Forall_impl; [|exact Hn]. intros z Hz. simpl in Hz. lia. }
  apply nondecreasing_tail in Hn.
  destruct Hshape as [[H1 H2]|[tr' [H1 H2]]]; subst.
  - now apply conf_open.
  - now apply conf_closed.
Qed.

Definition inv (ph : phase) (st : lstate) (lastnow : Z) : Prop :=
  match ph with
  | Fresh => active st = None
  | Idle => active st = None /\ timer st <> None
  | Open => exists t0, timer st = Some t0 /\ (t0 <= lastnow)%Z
  end.

Definition clock_ok (ph : phase) (lastnow : Z) (ops : list op) : Prop :=
  match ph with
  | Open => nondecreasing (lastnow :: readings ops)
  | _ => nondecreasing (readings ops)
  end.

Definition goal (r : selector) (st : lstate) (lastnow : Z) (ss : list sel) (ev : list event) : Prop :=
  match active st with
  | None => conforms r ss ev
  | Some m => exists t0, timer st = Some t0 /\ tail_ok r m (lastnow - t0) ss ev
  end.

Lemma lifecycle_gen : forall r ops ph st lastnow,
  wf ph ops = true -> inv ph st lastnow -> clock_ok ph lastnow ops ->
  exists ev fin, run_ops r st ops = (ev, Some fin) /\ goal r st lastnow (selections ops) ev.
Proof.
  intros r. induction ops as [|o ops IH]; intros ph st lastnow Hwf Hinv Hclk.
  - exists [], st. split; [reflexivity|]. unfold goal. simpl.
    destruct (active st) as [m|] eqn:Ea; [|constructor].
    destruct ph; simpl in Hinv; try (destruct Hinv; congruence); try congruence.
    destruct Hinv as [t0 [Ht _]]. exists t0. split; [assumption|constructor].
  - destruct o as [s now|now| |s t0 wakes|].
    + (* Start *)
      assert (Ha : active st = None /\ nondecreasing (now :: readings ops)).
      { destruct ph; simpl in *; try discriminate; tauto. }
      destruct Ha as [Ha Hn].
      assert (Hwf' : wf Open ops = true) by (destruct ph; simpl in Hwf; congruence).
      specialize (IH Open (mkL (select r s) (Some now) (robot_exit st)) now Hwf').
      destruct IH as [ev [fin [Hr Hg]]].
      { simpl. exists now. split; [reflexivity|lia]. }
      { exact Hn. }
      cbn [run_ops step]. unfold do_start, on_autonomous_enable. cbn [timer robot_exit].
      rewrite Hr. unfold goal in *. rewrite Ha. cbn [active timer selections] in *.
      destruct (select r s) as [m|] eqn:Es.
      * exists (OnEnable m :: ev), fin. split; [reflexivity|].
        destruct Hg as [t0 [Ht Hg]]. inversion Ht; subst t0. rewrite Z.sub_diag in Hg.
        eapply tail_to_conforms; eauto. lia.
      * exists ev, fin. split; [reflexivity|]. now apply conf_none.
    + (* Periodic *)
      destruct ph; [discriminate| |].
      * (* Idle *)
        destruct Hinv as [Ha Ht]. destruct (timer st) as [t0|] eqn:Et; [|congruence].
        specialize (IH Idle st lastnow Hwf). destruct IH as [ev [fin [Hr Hg]]].
        { split; [assumption|congruence]. }
        { simpl in *. tauto. }
        cbn [run_ops step]. unfold do_periodic, on_iteration. rewrite Et, Ha, Hr.
        exists ev, fin. split; [reflexivity|]. unfold goal in *. rewrite Ha in *. exact Hg.
      * (* Open *)
        destruct Hinv as [t0 [Ht Hle]]. simpl in Hclk.
        assert (Hln : (lastnow <= now)%Z) by tauto.
        specialize (IH Open st now Hwf). destruct IH as [ev [fin [Hr Hg]]].
        { exists t0. split; [assumption|lia]. }
        { simpl. tauto. }
        cbn [run_ops step]. unfold do_periodic, on_iteration. rewrite Ht, Hr.
        unfold goal in *. cbn [selections]. destruct (active st) as [m|] eqn:Ea.
        -- exists (OnIteration m (now - t0)%Z :: ev), fin. split; [reflexivity|].
           destruct Hg as [t0' [Ht' Hg]]. rewrite Ht in Ht'. inversion Ht'; subst t0'.
           exists t0. split; [assumption|]. apply tail_iter; [lia|exact Hg].
        -- exists ev, fin. split; [reflexivity|exact Hg].
    + (* Disable *)
      set (ph' := match ph with Open => Idle | x => x end).
      assert (Hwf' : wf ph' ops = true) by exact Hwf.
      specialize (IH ph' (mkL None (timer st) (robot_exit st)) lastnow Hwf').
      destruct IH as [ev [fin [Hr Hg]]].
      { destruct ph; simpl in *; auto.
        - destruct Hinv. split; auto.
        - destruct Hinv as [t0 [Ht _]]. split; [reflexivity|congruence]. }
      { destruct ph; simpl in *; tauto. }
      cbn [run_ops step]. unfold do_disable. rewrite Hr.
      unfold goal in *. cbn [active selections] in *.
      destruct (active st) as [m|] eqn:Ea.
      * exists (OnDisable m :: ev), fin. split; [reflexivity|].
        destruct ph; simpl in Hinv; try (destruct Hinv; congruence); try congruence.
        destruct Hinv as [t0 [Ht _]]. exists t0. split; [assumption|]. now apply tail_close.
      * exists ev, fin. split; [reflexivity|exact Hg].
    + (* RunPeriod *)
      assert (Ha : active st = None).
      { destruct ph; simpl in *; try discriminate; tauto. }
      assert (Hwf' : wf ph ops = true) by (destruct ph; simpl in Hwf; congruence).
      assert (Hn : nondecreasing (t0 :: map wake_now wakes ++ readings ops)).
      { destruct ph; simpl in *; try discriminate; tauto. }
      specialize (IH ph (mkL None (timer st) (robot_exit st)) lastnow Hwf').
      destruct IH as [ev [fin [Hr Hg]]].
      { destruct ph; simpl in *; try discriminate; tauto. }
      { assert (Hn' : nondecreasing (readings ops)).
        { apply nondecreasing_tail in Hn. now apply nondecreasing_app_r in Hn. }
        destruct ph; simpl in *; try discriminate; tauto. }
      cbn [run_ops step]. rewrite run_period_exact by assumption. rewrite Hr.
      unfold goal in *. rewrite Ha. cbn [active selections] in *.
      destruct (select r s) as [m|] eqn:Es.
      * eexists _, fin. split; [reflexivity|].
        cbn [app]. rewrite <- app_assoc. cbn [app].
        apply conf_closed; auto.
        -- destruct (robot_exit st); [exact I|].
           apply nondecreasing_shift.
           destruct (live_prefix_is_prefix wakes) as [rest Hp].
           apply nondecreasing_tail in Hn. rewrite Hp, <- app_assoc in Hn.
           now apply nondecreasing_app_l in Hn.
        -- destruct (robot_exit st); [constructor|].
           destruct (live_prefix_is_prefix wakes) as [rest Hp].
           rewrite Hp, <- app_assoc in Hn. change (t0 :: live_prefix wakes ++ rest ++ readings ops)
             with ((t0 :: live_prefix wakes) ++ rest ++ readings ops) in Hn.
           apply nondecreasing_app_l in Hn. apply nondecreasing_lower in Hn.
           apply Forall_forall. intros t Ht. apply in_map_iff in Ht. destruct Ht as [n [Hn1 Hn2]].
           rewrite Forall_forall in Hn. specialize (Hn n Hn2). simpl in Hn. lia.
      * exists ev, fin. split; [reflexivity|]. now apply conf_none.
    + (* EndCompetition *)
      specialize (IH ph (mkL (active st) (timer st) true) lastnow Hwf).
      destruct IH as [ev [fin [Hr Hg]]].
      { destruct ph; simpl in *; auto. }
      { destruct ph; simpl in *; auto. }
      cbn [run_ops step]. rewrite Hr. exists ev, fin. split; [reflexivity|exact Hg].
Qed.

Theorem lifecycle : forall r ops,
  well_formed ops = true -> clock_monotone ops ->
  conforms r (selections ops) (trace r ops) /\ snd (run_ops r init_lstate ops) <> None.
Proof.
  intros r ops Hwf Hclk.
  destruct (lifecycle_gen r ops Fresh init_lstate 0%Z Hwf) as [ev [fin [Hr Hg]]].
  - reflexivity.
  - exact Hclk.
  - unfold trace. rewrite Hr. simpl. split; [exact Hg|discriminate].
Qed.

(* consequences of the language *)
Lemma conforms_modes : forall r ss tr, conforms r ss tr ->
  forall e, In e tr -> exists s, In s ss /\ select r s = Some (mode_of e).
Proof.
  induction 1 as [|s ss tr Hs Hc IH|s ss m ts tr Hs Hn Hp Hc IH|s m ts Hs Hn Hp]; intros e He.
  - contradiction.
  - destruct (IH e He) as [s' [H1 H2]]. exists s'. split; [now right|assumption].
  - destruct He as [He|He]; [subst; exists s; split; [now left|assumption]|].
    apply in_app_iff in He. destruct He as [He|[He|He]].
    + apply in_map_iff in He. destruct He as [t [Ht _]]. subst. exists s. split; [now left|assumption].
    + subst. exists s. split; [now left|assumption].
    + destruct (IH e He) as [s' [H1 H2]]. exists s'. split; [now right|assumption].
  - destruct He as [He|He]; [subst; exists s; split; [now left|assumption]|].
    apply in_map_iff in He. destruct He as [t [Ht _]]. subst. exists s. split; [now left|assumption].
Qed.

Definition is_enable (e : event) : Prop := match e with OnEnable _ => True | _ => False end.

(* whatever comes directly after an on_disable is the next period's on_enable *)
Fixpoint quiet_after_disable (tr : list event) : Prop :=
  match tr with
  | [] => True
  | e :: rest =>
    match e, rest with
    | OnDisable _, e' :: _ => is_enable e'
    | _, _ => True
    end /\ quiet_after_disable rest
  end.

Lemma conforms_head : forall r ss e tr, conforms r ss (e :: tr) -> is_enable e.
Proof.
  intros r ss e tr H. remember (e :: tr) as l eqn:El. revert e tr El.
  induction H; intros e0 tr0 El; try discriminate; eauto; inversion El; exact I.
Qed.

Lemma quiet_iters : forall m ts rest,
  quiet_after_disable rest -> (forall e tr, rest = e :: tr -> True) ->
  quiet_after_disable (map (OnIteration m) ts ++ rest).
Proof.
  induction ts as [|t ts IH]; intros rest Hq Hx; simpl; [assumption|].
  split; [destruct (map (OnIteration m) ts ++ rest); exact I|]. now apply IH.
Qed.

Lemma conforms_quiet : forall r ss tr, conforms r ss tr -> quiet_after_disable tr.
Proof.
  induction 1 as [|s ss tr Hs Hc IH|s ss m ts tr Hs Hn Hp Hc IH|s m ts Hs Hn Hp].
  - exact I.
  - exact IH.
  - simpl. split; [destruct (map (OnIteration m) ts ++ OnDisable m :: tr); exact I|].
    apply quiet_iters; [|auto]. simpl. split; [|exact IH].
    destruct tr as [|e tr]; [exact I|]. eapply conforms_head; eauto.
  - simpl. split; [destruct (map (OnIteration m) ts); exact I|].
    rewrite <- (app_nil_r (map (OnIteration m) ts)). apply quiet_iters; [exact I|auto].
Qed.

(* ================================================================== *)
(* 10. Statements in the vocabulary of the property                    *)

Lemma NoDup_map_In_inj {A B} (f : A -> B) : forall l x y,
  NoDup (map f l) -> In x l -> In y l -> f x = f y -> x = y.
Proof.
  induction l as [|a l IH]; intros x y Hn Hx Hy Hf; [contradiction|].
  simpl in Hn. inversion Hn as [|? ? Hn1 Hn2]; subst.
  destruct Hx as [Hx|Hx], Hy as [Hy|Hy]; subst; auto.
  - exfalso. apply Hn1. rewrite Hf. now apply in_map.
  - exfalso. apply Hn1. rewrite <- Hf. now apply in_map.
Qed.

Lemma in_needed : forall p i,
  In i (needed p) <->
  exists m c, In m (loaded_modules p) /\ In c (classes m) /\ is_needed c = true /\ i = mkInst (file m) c.
Proof.
  intros p i. unfold needed. rewrite in_flat_map. split.
  - intros [m [Hm Hi]]. unfold needed_of in Hi. apply in_map_iff in Hi. destruct Hi as [c [Hc Hi]].
    apply filter_In in Hi. exists m, c. intuition.
  - intros [m [c [Hm [Hc [Hn Hi]]]]]. exists m. split; [assumption|]. unfold needed_of.
    apply in_map_iff. exists c. split; [auto|]. apply filter_In. auto.
Qed.

(* "instantiates, once each, exactly the classes ... that define MODE_NAME
   and are not marked DISABLED" *)
Theorem instantiated_exactly : forall fms p r,
  discover fms p = Built r -> layout_ok p ->
  NoDup (ctor_calls r) /\
  (forall m c, In m (loaded_modules p) -> In c (classes m) ->
     (In (file m, cname c) (ctor_calls r) <-> is_needed c = true)) /\
  (forall x, In x (ctor_calls r) ->
     exists m c, In m (loaded_modules p) /\ In c (classes m) /\ x = (file m, cname c)).
Proof.
  intros fms p r H Hl. rewrite (built_ctor_calls _ _ _ H).
  split; [now apply needed_calls_NoDup|]. split.
  - intros m c Hm Hc. split.
    + intros Hin. apply in_map_iff in Hin. destruct Hin as [i [Hi Hin]].
      apply in_needed in Hin. destruct Hin as [m' [c' [Hm' [Hc' [Hn Hi']]]]]. subst i.
      unfold call_of in Hi. simpl in Hi. inversion Hi as [[Hf Hcn]].
      destruct Hl as [Hl1 Hl2].
      assert (Hs : forall x, In x (loaded_modules p) -> In x (scanned_modules p)).
      { intros x Hx. unfold loaded_modules in Hx. apply filter_In in Hx. tauto. }
      assert (m' = m) by (eapply NoDup_map_In_inj; [exact Hl1| | |]; auto).
      subst m'. assert (c' = c) by (eapply NoDup_map_In_inj; [apply (Hl2 m); auto| | |]; auto).
      now subst.
    + intros Hn. apply in_map_iff. exists (mkInst (file m) c). split; [reflexivity|].
      apply in_needed. exists m, c. auto.
  - intros x Hx. apply in_map_iff in Hx. destruct Hx as [i [Hi Hin]].
    apply in_needed in Hin. destruct Hin as [m [c [Hm [Hc [_ Hi']]]]]. subst. exists m, c. auto.
Qed.

Lemma filter_default_entries : forall l,
  filter is_default_kv (map entry_of l) = map entry_of (filter is_default l).
Proof.
  induction l as [|i l IH]; simpl; [reflexivity|].
  unfold is_default_kv at 1. simpl. destruct (is_default i); simpl; congruence.
Qed.

(* without FMS: keyed by MODE_NAME, and the flagged mode is preselected *)
Theorem no_fms_offer : forall p r,
  discover false p = Built r ->
  modes r = map entry_of (needed p) /\
  match filter is_default (needed p) with
  | [] => preselection r = "None"
  | [i] => preselection r = name_of i
  | _ => False
  end.
Proof.
  intros p r H. pose proof (no_fms_built _ _ H) as [_ [_ [_ [_ [Hs Hm]]]]].
  split; [assumption|].
  pose proof (built_preselection _ _ _ H) as Hp. rewrite Hm, filter_default_entries in Hp.
  unfold several_defaults in Hs.
  destruct (filter is_default (needed p)) as [|i [|j l]]; simpl in *; auto. lia.
Qed.

Theorem fms_tolerates : forall p,
  exists r, discover true p = Built r /\
    (no_key_clash p ->
     forall i, In i (needed p) -> healthy i = true ->
       exists k, (k = name_of i \/ k = renamed i) /\
                 dict_get k (modes r) = Some i /\
                 In k (option_names r) /\
                 (choosable k -> chooser_selected (chooser_of r) (Some k) = Some i)).
Proof.
  intros p. destruct (fms_never_raises p) as [r Hr]. exists r. split; [assumption|].
  intros Hc i Hi Hh. destruct (fms_modes _ _ Hr Hc) as [H1 _].
  destruct (H1 i Hi Hh) as [k [Hk Hg]]. exists k. repeat split; auto.
  - apply (built_option_names _ _ _ Hr). right. apply dict_get_not_None_In. congruence.
  - intros [Hn He]. rewrite (chooser_selected_built _ _ _ Hr). cbv zeta.
    apply String.eqb_neq in Hn. apply String.eqb_neq in He. rewrite Hn, He. exact Hg.
Qed.

(* nothing but the selected modes ever gets a callback *)
Theorem only_selected_modes : forall r ops,
  well_formed ops = true -> clock_monotone ops ->
  forall e, In e (trace r ops) ->
    exists s, In s (selections ops) /\ select r s = Some (mode_of e).
Proof.
  intros r ops Hw Hc e He. destruct (lifecycle r ops Hw Hc) as [H _].
  eapply conforms_modes; eauto.
Qed.

Theorem nothing_after_disable : forall r ops,
  well_formed ops = true -> clock_monotone ops -> quiet_after_disable (trace r ops).
Proof.
  intros r ops Hw Hc. destruct (lifecycle r ops Hw Hc) as [H _]. eapply conforms_quiet; eauto.
Qed.

(* ================================================================== *)
(* 11. Where the code differs from the wording of the property         *)

(* (a) [repaired in /repo, 87f7d89] a failing import of the package itself is
   tolerated with the FMS attached (nothing but "None" is offered) and raised
   without it *)
Theorem package_failure_policy :
  discover false PkgInitFails = Raised ErrPackage [] /\
  exists r, discover true PkgInitFails = Built r /\
    modes r = [] /\ ctor_calls r = [] /\ option_names r = ["None"] /\ preselection r = "None".
Proof. split; [reflexivity|]. eexists. split; [vm_compute; reflexivity|]. vm_compute. auto. Qed.

(* (b) a MODE_NAME that equals an artificial duplicate key: with the FMS the
   healthy mode A0 is overwritten by the renamed duplicate B and is not offered *)
Definition clash_pkg : package :=
  PkgPresent [mkMod "m" "/p/m.py" false
    [mkCls "A" (Some "x") false false false;
     mkCls "A0" (Some "B_/p/m.py") false false false;
     mkCls "B" (Some "x") false false false]].

Theorem fms_key_clash_loses_a_mode :
  exists r, discover true clash_pkg = Built r /\
    In (mkInst "/p/m.py" (mkCls "A0" (Some "B_/p/m.py") false false false)) (needed clash_pkg) /\
    forall k, dict_get k (modes r) <> Some (mkInst "/p/m.py" (mkCls "A0" (Some "B_/p/m.py") false false false)).
Proof.
  eexists. split; [vm_compute; reflexivity|]. split; [vm_compute; tauto|].
  intros k. cbn [modes]. unfold dict_get.
  destruct ("x" =? k); [discriminate|]. destruct ("B_/p/m.py" =? k); discriminate.
Qed.

(* (c) a mode whose MODE_NAME is "None" is hidden by the chooser's own entry,
   even when it is the DEFAULT *)
Definition none_pkg : package :=
  PkgPresent [mkMod "m" "/p/m.py" false [mkCls "A" (Some "None") false true false]].

Theorem mode_called_None_not_choosable :
  exists r, discover false none_pkg = Built r /\
    preselection r = "None" /\ chooser_selected (chooser_of r) None = None /\
    chooser_selected (chooser_of r) (Some "None") = None.
Proof. eexists. split; [vm_compute; reflexivity|]. vm_compute. auto. Qed.

Definition ev_kind (e : event) : string * string :=
  match e with
  | OnEnable m => ("enable", cname (icls m))
  | OnIteration m _ => ("iteration", cname (icls m))
  | OnDisable m => ("disable", cname (icls m))
  end.

(* (d) start() twice without disable(): the first mode never gets on_disable *)
Definition two_pkg : package :=
  PkgPresent [mkMod "m" "/p/m.py" false
    [mkCls "A" (Some "a") false true false; mkCls "B" (Some "b") false false false]].

Theorem ill_formed_start_start :
  exists r, discover false two_pkg = Built r /\
    well_formed [Start (None, None) 0; Start (Some "b", None) 5; Disable] = false /\
    map ev_kind (trace r [Start (None, None) 0; Start (Some "b", None) 5; Disable]) =
      [("enable", "A"); ("enable", "B"); ("disable", "B")].
Proof. eexists. split; [vm_compute; reflexivity|]. split; reflexivity. Qed.

(* ================================================================== *)
(* 12. The import of the package itself                                *)

Lemma length_append : forall a b, String.length (a ++ b)%string = String.length a + String.length b.
Proof. induction a as [|c a IH]; intros b; simpl; [reflexivity|]. now rewrite IH. Qed.

Lemma append_inj_l : forall a b c : string, (a ++ b = a ++ c)%string -> b = c.
Proof. induction a as [|x a IH]; intros b c H; simpl in H; [assumption|]. inversion H. now apply IH. Qed.

Lemma append_assoc_s : forall a b c : string, ((a ++ b) ++ c = a ++ (b ++ c))%string.
Proof. induction a as [|x a IH]; intros b c; simpl; [reflexivity|]. now rewrite IH. Qed.

Lemma append_nil_r_s : forall a : string, (a ++ "")%string = a.
Proof. induction a as [|x a IH]; simpl; [reflexivity|]. now rewrite IH. Qed.

Lemma prefix_app : forall a b, prefix a (a ++ b)%string = true.
Proof.
  induction a as [|x a IH]; intros b; simpl; [now destruct b|].
  destruct (ascii_dec x x) as [_|N]; [apply IH|now contradiction N].
Qed.

Lemma prefix_app_inv : forall a b, prefix a b = true -> exists c, b = (a ++ c)%string.
Proof.
  induction a as [|x a IH]; intros b H.
  - exists b. reflexivity.
  - destruct b as [|y b]; simpl in H; [discriminate|].
    destruct (ascii_dec x y) as [E|N]; [|discriminate]. subst y.
    destruct (IH b H) as [c Hc]. exists c. simpl. now rewrite Hc.
Qed.

Lemma snoc_inj : forall (a b : string) x y,
  (a ++ String x "" = b ++ String y "")%string -> a = b /\ x = y.
Proof.
  induction a as [|c a IH]; intros b x y H; destruct b as [|d b]; simpl in H.
  - inversion H. auto.
  - inversion H as [[H1 H2]]. apply (f_equal String.length) in H2. rewrite length_append in H2. simpl in H2. lia.
  - inversion H as [[H1 H2]]. apply (f_equal String.length) in H2. rewrite length_append in H2. simpl in H2. lia.
  - inversion H as [[H1 H2]]. destruct (IH b x y H2) as [E1 E2]. subst. auto.
Qed.

Lemma snoc_decomp : forall c : string, c <> ""%string -> exists c' x, c = (c' ++ String x "")%string.
Proof.
  induction c as [|y c IH]; intros H; [congruence|].
  destruct c as [|z c].
  - exists ""%string, y. reflexivity.
  - destruct IH as [c' [x Hc]]; [discriminate|]. exists (String y c'), x. simpl. now rewrite Hc.
Qed.

(* (pkgname + ".").startswith(n + ".")  <->  n is the package or a package it is nested in *)
Lemma dotted_prefix_iff : forall n pkgname,
  prefix (n ++ ".")%string (pkgname ++ ".")%string = true <-> dotted_prefix n pkgname.
Proof.
  intros n pkgname. unfold dotted_prefix. split.
  - intros H. apply prefix_app_inv in H. destruct H as [c Hc].
    destruct c as [|y c].
    + left. rewrite append_nil_r_s in Hc. apply snoc_inj in Hc. symmetry. tauto.
    + right. destruct (snoc_decomp (String y c)) as [c' [x Hx]]; [discriminate|].
      rewrite Hx in Hc. rewrite <- append_assoc_s in Hc. apply snoc_inj in Hc. destruct Hc as [Hc _].
      exists c'. rewrite Hc. rewrite append_assoc_s. reflexivity.
  - intros [H|[rest H]]; subst pkgname.
    + rewrite <- (append_nil_r_s (n ++ ".")) at 2. apply prefix_app.
    + replace ((n ++ "." ++ rest) ++ ".")%string with ((n ++ ".") ++ (rest ++ "."))%string.
      * apply prefix_app.
      * rewrite !append_assoc_s. reflexivity.
Qed.

Lemma names_the_package_iff : forall pkgname mnf ename,
  names_the_package pkgname mnf ename = true <->
  no_such_package pkgname (ImportRaisesImportError mnf ename).
Proof.
  intros pkgname mnf ename. unfold names_the_package, no_such_package. split.
  - intros H. apply andb_true_iff in H. destruct H as [Hm H]. subst mnf.
    destruct ename as [n|]; [|discriminate]. exists n. split; [reflexivity|]. now apply dotted_prefix_iff.
  - intros [n [H Hd]]. inversion H; subst. simpl. now apply dotted_prefix_iff.
Qed.

Lemma names_the_package_false : forall pkgname mnf ename,
  ~ no_such_package pkgname (ImportRaisesImportError mnf ename) ->
  names_the_package pkgname mnf ename = false.
Proof.
  intros pkgname mnf ename H. destruct (names_the_package pkgname mnf ename) eqn:E; [|reflexivity].
  apply names_the_package_iff in E. contradiction.
Qed.

Lemma missing_offers_nothing : forall fms, exists r, discover fms PkgMissing = Built r /\ offers_nothing r.
Proof. intros fms. eexists. split; [vm_compute; reflexivity|]. vm_compute. auto. Qed.

(* the ImportError branch: "no such package" (a ModuleNotFoundError naming the
   package or a package it is nested in) is a warning only, FMS or not; every
   other ImportError is raised without FMS *)
Theorem import_error_policy : forall pkgname mnf ename,
  (~ no_such_package pkgname (ImportRaisesImportError mnf ename) ->
     init false pkgname (ImportRaisesImportError mnf ename) = Raised ErrPackage []) /\
  (no_such_package pkgname (ImportRaisesImportError mnf ename) ->
     forall fms, exists r, init fms pkgname (ImportRaisesImportError mnf ename) = Built r /\ offers_nothing r).
Proof.
  intros pkgname mnf ename. unfold init, import_outcome. split.
  - intros H. now rewrite names_the_package_false.
  - intros H fms. apply names_the_package_iff in H. rewrite H. apply missing_offers_nothing.
Qed.

Theorem import_other_exception_policy : forall pkgname,
  init false pkgname ImportRaisesOther = Raised ErrPackage [].
Proof. reflexivity. Qed.

Theorem init_fms_never_raises : forall pkgname i, exists r, init true pkgname i = Built r.
Proof. intros. apply fms_never_raises. Qed.

(* an ImportError that is not a ModuleNotFoundError comes from the package's own
   code ("from . import helper", "from os import nothing", raise ImportError):
   raised without FMS whatever name it carries -- the package's own name included *)
Theorem plain_import_error_raises : forall pkgname ename,
  init false pkgname (ImportRaisesImportError false ename) = Raised ErrPackage [].
Proof.
  intros pkgname ename. apply import_error_policy. intros [n [H _]]. discriminate.
Qed.

(* a ModuleNotFoundError without a name: raised *)
Theorem nameless_module_not_found_raises : forall pkgname,
  init false pkgname (ImportRaisesImportError true None) = Raised ErrPackage [].
Proof.
  intros pkgname. apply import_error_policy. intros [n [H _]]. discriminate.
Qed.

(* a package missing at ANY level of the dotted name -- the first component, one
   in the middle, the package itself -- is a missing package: tolerated, FMS or
   not, nothing but "None" offered *)
Theorem missing_package_at_any_level_tolerated : forall fms pkgname n,
  dotted_prefix n pkgname ->
  exists r, init fms pkgname (ImportRaisesImportError true (Some n)) = Built r /\ offers_nothing r.
Proof.
  intros fms pkgname n H. apply import_error_policy. exists n. auto.
Qed.

(* a missing module that is not the package or a package it is nested in: a
   failing import, raised without FMS *)
Theorem missing_other_module_raises : forall pkgname n,
  ~ dotted_prefix n pkgname ->
  init false pkgname (ImportRaisesImportError true (Some n)) = Raised ErrPackage [].
Proof.
  intros pkgname n H. apply import_error_policy. intros [n' [E Hd]]. inversion E; subst. contradiction.
Qed.

(* ... in particular one that merely lives under the same top-level name *)
Theorem missing_module_in_namespace_raises : forall pkgname n,
  top_component n = top_component pkgname -> ~ dotted_prefix n pkgname ->
  init false pkgname (ImportRaisesImportError true (Some n)) = Raised ErrPackage [].
Proof. intros pkgname n _ H. now apply missing_other_module_raises. Qed.

(* the package's __init__ needs one of its own sub-modules that does not exist
   ("from .helper import X", "import pkg.helper") *)
Theorem missing_submodule_raises : forall pkgname sub,
  init false pkgname (ImportRaisesImportError true (Some (pkgname ++ "." ++ sub)%string)) = Raised ErrPackage [].
Proof.
  intros pkgname sub. apply missing_other_module_raises. intros [H|[rest H]];
    apply (f_equal String.length) in H; rewrite !length_append in H; simpl in H;
    rewrite ?length_append in H; simpl in H; lia.
Qed.

(* ... or a module of its parent package that does not exist ("import robot.helpers"
   in robot/autonomous/__init__.py): raised unless it is a package the autonomous
   package is nested in *)
Theorem missing_sibling_raises : forall top rest sub,
  ~ dotted_prefix sub rest ->
  init false (top ++ "." ++ rest)%string (ImportRaisesImportError true (Some (top ++ "." ++ sub)%string))
  = Raised ErrPackage [].
Proof.
  intros top rest sub Hs. apply missing_other_module_raises. intros [H|[r H]]; apply Hs.
  - apply append_inj_l in H. inversion H. now left.
  - right. exists r. rewrite append_assoc_s in H. apply append_inj_l in H. simpl in H. inversion H. reflexivity.
Qed.

Lemma package_fault_import_outcome : forall pkgname i,
  package_fault (import_outcome pkgname i) <-> package_import_fault pkgname i.
Proof.
  intros pkgname i. unfold package_fault, package_import_fault, import_outcome. destruct i as [mnf ename| |ms|path].
  - destruct (names_the_package pkgname mnf ename) eqn:E.
    + apply names_the_package_iff in E. split; [discriminate|]. intros [_ H]. contradiction.
    + split; [|reflexivity]. intros _. split; [right; eauto|].
      intros H. apply names_the_package_iff in H. congruence.
  - split; [|reflexivity]. intros _. split; [now left|]. intros [n [H _]]. discriminate.
  - split; [discriminate|]. intros [[H|[m [e H]]] _]; discriminate.
  - split; [discriminate|]. intros [[H|[m [e H]]] _]; discriminate.
Qed.

Theorem init_no_fms_raises_iff : forall pkgname i,
  let p := import_outcome pkgname i in
  (exists e c, init false pkgname i = Raised e c) <->
  (package_import_fault pkgname i \/ import_fault p \/ ctor_fault p \/ duplicate_names p \/ several_defaults p).
Proof.
  intros pkgname i p. unfold init. fold p. rewrite no_fms_raises_iff.
  unfold p. rewrite package_fault_import_outcome. reflexivity.
Qed.

(* ================================================================== *)
(* 13. Periods that are not followed by disable()                      *)

(* start() enables the mode that is selected NOW, whatever mode an earlier
   period left behind in self.active_mode *)
Theorem start_selects_afresh : forall r st s now,
  do_start r st s now =
  (mkL (select r s) (Some now) (robot_exit st),
   match select r s with Some m => [OnEnable m] | None => [] end).
Proof. reflexivity. Qed.

(* ... and so does run(): run_period_exact without its hypothesis *)
Theorem run_period_exact_any : forall r st s t0 wakes,
  do_run r st s t0 wakes =
  (mkL None (timer st) (robot_exit st),
   match select r s with
   | None => []
   | Some m => OnEnable m ::
               map (OnIteration m)
                   (if robot_exit st then [] else map (fun now => now - t0)%Z (live_prefix wakes)) ++
               [OnDisable m]
   end).
Proof.
  intros r st s t0 wakes. unfold do_run, on_autonomous_enable. cbn [robot_exit timer].
  destruct (select r s) as [m|] eqn:Es.
  - destruct (robot_exit st) eqn:Ex; [reflexivity|].
    rewrite run_loop_active. destruct (disable_seen wakes); unfold do_disable; simpl.
    + rewrite app_nil_r. reflexivity.
    + rewrite app_nil_r. reflexivity.
  - destruct (robot_exit st) eqn:Ex; [reflexivity|].
    rewrite run_loop_idle. reflexivity.
Qed.

Lemma run_ops_periodics_any : forall r a t0 ex nows rest,
  run_ops r (mkL a (Some t0) ex) (map Periodic nows ++ rest) =
  let '(ev, fin) := run_ops r (mkL a (Some t0) ex) rest in
  (match a with Some m => map (fun now => OnIteration m (now - t0)%Z) nows | None => [] end ++ ev, fin).
Proof.
  intros r a t0 ex nows rest. induction nows as [|now nows IH]; simpl.
  - destruct (run_ops r _ rest). destruct a; reflexivity.
  - simpl in IH. rewrite IH. destruct (run_ops r _ rest). destruct a; reflexivity.
Qed.

(* what start . periodic^n delivers (no disable()) *)
Definition open_period (r : selector) (s : sel) (now : Z) (nows : list Z) : list event :=
  match select r s with
  | None => []
  | Some m => OnEnable m :: map (fun n => OnIteration m (n - now)%Z) nows
  end.

(* two TimedRobot periods, the first one NOT followed by disable(): the second
   one goes to the mode selected when it begins (to nobody if that is "None"),
   from ANY state -- the mode of the first period hears nothing more *)
Theorem period_after_open_period : forall r st s1 now1 nows1 s2 now2 nows2,
  run_ops r st (Start s1 now1 :: map Periodic nows1 ++ Start s2 now2 :: map Periodic nows2) =
  (open_period r s1 now1 nows1 ++ open_period r s2 now2 nows2,
   Some (mkL (select r s2) (Some now2) (robot_exit st))).
Proof.
  intros r st s1 now1 nows1 s2 now2 nows2.
  cbn [run_ops step]. rewrite start_selects_afresh. rewrite run_ops_periodics_any.
  cbn [run_ops step]. rewrite start_selects_afresh. cbn [robot_exit].
  rewrite <- (app_nil_r (map Periodic nows2)). rewrite run_ops_periodics_any. cbn [run_ops].
  unfold open_period. destruct (select r s1), (select r s2); simpl; rewrite ?app_nil_r; reflexivity.
Qed.

(* tail of a period of mode m whose last elapsed time was >= lo; c: the period
   is ended by a disable() *)
Inductive tail_m (r : selector) (m : inst) : Z -> bool -> list (sel * bool) -> list event -> Prop :=
| tm_stop : forall lo ps tr, conforms_marked r ps tr -> tail_m r m lo false ps tr
| tm_iter : forall lo t c ps tr, (lo <= t)%Z -> tail_m r m t c ps tr ->
    tail_m r m lo c ps (OnIteration m t :: tr)
| tm_close : forall lo ps tr, conforms_marked r ps tr -> tail_m r m lo true ps (OnDisable m :: tr).

Lemma tail_m_shape : forall r m lo c ps tr, tail_m r m lo c ps tr ->
  exists ts tr', nondecreasing (lo :: ts) /\ conforms_marked r ps tr' /\
    tr = map (OnIteration m) ts ++ (if c then OnDisable m :: tr' else tr').
Proof.
  induction 1 as [lo ps tr Hc|lo t c ps tr Hle Ht [ts [tr' [Hn [Hc Hs]]]]|lo ps tr Hc].
  - exists [], tr. split; [simpl; tauto|]. auto.
  - exists (t :: ts), tr'. split; [apply nondecreasing_cons2; auto|]. split; [assumption|]. subst. reflexivity.
  - exists [], tr. split; [simpl; tauto|]. auto.
Qed.

Lemma tail_m_to_conforms : forall r m lo c s ps tr,
  tail_m r m lo c ps tr -> (0 <= lo)%Z -> select r s = Some m ->
  conforms_marked r ((s, c) :: ps) (OnEnable m :: tr).
Proof.
  intros r m lo c s ps tr Ht Hlo Hs. apply tail_m_shape in Ht.
  destruct Ht as [ts [tr' [Hn [Hc Hshape]]]].
  assert (Hpos : Forall (fun t => 0 <= t)%Z ts).
  { apply nondecreasing_lower in Hn. eapply Forall_impl; [|exact Hn]. intros z Hz. simpl in Hz. lia. }
  apply nondecreasing_tail in Hn. subst tr.
  destruct c; [now apply cm_closed|now apply cm_left_open].
Qed.

Definition inv_m (started : bool) (st : lstate) (lastnow : Z) : Prop :=
  (started = true -> timer st <> None) /\
  (forall m, active st = Some m -> exists t0, timer st = Some t0 /\ (t0 <= lastnow)%Z).

Definition clock_m (st : lstate) (lastnow : Z) (ops : list op) : Prop :=
  match active st with
  | Some _ => nondecreasing (lastnow :: readings ops)
  | None => nondecreasing (readings ops)
  end.

Definition goal_m (r : selector) (st : lstate) (lastnow : Z) (ops : list op) (ev : list event) : Prop :=
  match active st with
  | None => conforms_marked r (periods ops) ev
  | Some m => exists t0, timer st = Some t0 /\
                tail_m r m (lastnow - t0) (closed_before_next ops) (periods ops) ev
  end.

Lemma clock_m_readings : forall st lastnow ops, clock_m st lastnow ops -> nondecreasing (readings ops).
Proof.
  intros st lastnow ops H. unfold clock_m in H. destruct (active st); [|assumption].
  eapply nondecreasing_tail; eauto.
Qed.

Lemma lifecycle_marked_gen : forall r ops started st lastnow,
  timer_ready started ops = true -> inv_m started st lastnow -> clock_m st lastnow ops ->
  exists ev fin, run_ops r st ops = (ev, Some fin) /\ goal_m r st lastnow ops ev.
Proof.
  intros r. induction ops as [|o ops IH]; intros started st lastnow Hrd Hinv Hclk.
  - exists [], st. split; [reflexivity|]. unfold goal_m. simpl.
    destruct (active st) as [m|] eqn:Ea; [|constructor].
    destruct Hinv as [_ Hi]. destruct (Hi m Ea) as [t0 [Ht _]].
    exists t0. split; [assumption|]. apply tm_stop. constructor.
  - pose proof (clock_m_readings _ _ _ Hclk) as Hrs.
    destruct o as [s now|now| |s t0 wakes|].
    + (* Start: whatever was active is forgotten *)
      simpl in Hrd. cbn [readings] in Hrs.
      specialize (IH true (mkL (select r s) (Some now) (robot_exit st)) now Hrd).
      destruct IH as [ev [fin [Hr Hg]]].
      { split; [discriminate|]. simpl. intros m _. exists now. split; [reflexivity|lia]. }
      { unfold clock_m. simpl. destruct (select r s); [exact Hrs|eapply nondecreasing_tail; exact Hrs]. }
      cbn [run_ops step]. rewrite start_selects_afresh. rewrite Hr.
      assert (HC : conforms_marked r ((s, closed_before_next ops) :: periods ops)
                     (match select r s with Some m => [OnEnable m] | None => [] end ++ ev)).
      { unfold goal_m in Hg. cbn [active timer] in Hg. destruct (select r s) as [m|] eqn:Es.
        - destruct Hg as [t0 [Ht Hg]]. inversion Ht; subst t0. rewrite Z.sub_diag in Hg.
          simpl. eapply tail_m_to_conforms; eauto. lia.
        - simpl. now apply cm_none. }
      eexists _, fin. split; [reflexivity|].
      unfold goal_m. cbn [periods closed_before_next]. destruct (active st) as [m0|] eqn:Ea; [|exact HC].
      destruct Hinv as [_ Hi]. destruct (Hi m0 Ea) as [t0 [Ht _]].
      exists t0. split; [assumption|]. now apply tm_stop.
    + (* Periodic *)
      simpl in Hrd. apply andb_true_iff in Hrd. destruct Hrd as [Hs Hrd]. subst started.
      destruct Hinv as [Hi1 Hi2]. specialize (Hi1 eq_refl).
      destruct (timer st) as [t0|] eqn:Et; [|congruence].
      cbn [readings] in Hrs.
      assert (Hle : forall m, active st = Some m -> (lastnow <= now)%Z).
      { intros m Hm. unfold clock_m in Hclk. rewrite Hm in Hclk. simpl in Hclk. tauto. }
      specialize (IH true st now Hrd). destruct IH as [ev [fin [Hr Hg]]].
      { split; [congruence|]. intros m Hm. destruct (Hi2 m Hm) as [t1 [Ht1 Hl1]].
        exists t1. split; [congruence|]. specialize (Hle m Hm). lia. }
      { unfold clock_m. destruct (active st); [exact Hrs|eapply nondecreasing_tail; exact Hrs]. }
      cbn [run_ops step]. unfold do_periodic, on_iteration. rewrite Et, Hr.
      unfold goal_m in *. cbn [periods closed_before_next]. destruct (active st) as [m|] eqn:Ea.
      * exists (OnIteration m (now - t0)%Z :: ev), fin. split; [reflexivity|].
        destruct Hg as [t0' [Ht' Hg]]. assert (t0' = t0) by congruence. subst t0'.
        exists t0. split; [first [reflexivity|exact Et]|]. apply tm_iter; [|exact Hg].
        assert (lastnow <= now)%Z by (eapply Hle; first [reflexivity|eassumption]). lia.
      * exists ev, fin. split; [reflexivity|exact Hg].
    + (* Disable *)
      simpl in Hrd. cbn [readings] in Hrs.
      specialize (IH started (mkL None (timer st) (robot_exit st)) lastnow Hrd).
      destruct IH as [ev [fin [Hr Hg]]].
      { destruct Hinv as [Hi1 _]. split; [exact Hi1|]. simpl. discriminate. }
      { exact Hrs. }
      cbn [run_ops step]. unfold do_disable. rewrite Hr.
      unfold goal_m in *. cbn [active periods closed_before_next] in *.
      destruct (active st) as [m|] eqn:Ea.
      * exists (OnDisable m :: ev), fin. split; [reflexivity|].
        destruct Hinv as [_ Hi]. destruct (Hi m Ea) as [t0 [Ht _]].
        exists t0. split; [assumption|]. now apply tm_close.
      * exists ev, fin. split; [reflexivity|exact Hg].
    + (* RunPeriod: whatever was active is forgotten; run() ends with disable() *)
      simpl in Hrd. cbn [readings] in Hrs.
      assert (Hn' : nondecreasing (readings ops)).
      { apply nondecreasing_tail in Hrs. now apply nondecreasing_app_r in Hrs. }
      specialize (IH started (mkL None (timer st) (robot_exit st)) lastnow Hrd).
      destruct IH as [ev [fin [Hr Hg]]].
      { destruct Hinv as [Hi1 _]. split; [exact Hi1|]. simpl. discriminate. }
      { exact Hn'. }
      cbn [run_ops step]. rewrite run_period_exact_any. rewrite Hr.
      unfold goal_m in Hg. cbn [active] in Hg.
      assert (HC : conforms_marked r ((s, true) :: periods ops)
                (match select r s with
                 | None => []
                 | Some m => OnEnable m ::
                     map (OnIteration m)
                       (if robot_exit st then [] else map (fun now => now - t0)%Z (live_prefix wakes)) ++
                     [OnDisable m]
                 end ++ ev)).
      { destruct (select r s) as [m|] eqn:Es; [|now apply cm_none].
        cbn [app]. rewrite <- app_assoc. cbn [app].
        apply cm_closed; auto.
        - destruct (robot_exit st); [exact I|].
          apply nondecreasing_shift.
          destruct (live_prefix_is_prefix wakes) as [rest Hp].
          apply nondecreasing_tail in Hrs. rewrite Hp, <- app_assoc in Hrs.
          now apply nondecreasing_app_l in Hrs.
        - destruct (robot_exit st); [constructor|].
          destruct (live_prefix_is_prefix wakes) as [rest Hp].
          rewrite Hp, <- app_assoc in Hrs. change (t0 :: live_prefix wakes ++ rest ++ readings ops)
            with ((t0 :: live_prefix wakes) ++ rest ++ readings ops) in Hrs.
          apply nondecreasing_app_l in Hrs. apply nondecreasing_lower in Hrs.
          apply Forall_forall. intros t Ht. apply in_map_iff in Ht. destruct Ht as [n [Hn1 Hn2]].
          rewrite Forall_forall in Hrs. specialize (Hrs n Hn2). simpl in Hrs. lia. }
      eexists _, fin. split; [reflexivity|].
      unfold goal_m. cbn [periods closed_before_next]. destruct (active st) as [m0|] eqn:Ea; [|exact HC].
      destruct Hinv as [_ Hi]. destruct (Hi m0 Ea) as [t1 [Ht _]].
      exists t1. split; [assumption|]. now apply tm_stop.
    + (* EndCompetition *)
      simpl in Hrd. cbn [readings] in Hrs.
      specialize (IH started (mkL (active st) (timer st) true) lastnow Hrd).
      destruct IH as [ev [fin [Hr Hg]]].
      { exact Hinv. }
      { exact Hclk. }
      cbn [run_ops step]. rewrite Hr. exists ev, fin. split; [reflexivity|exact Hg].
Qed.

(* every call sequence in which periodic() does not come before the first
   start(): periods may follow one another without disable() in between, start()
   and run() may be mixed at will *)
Theorem lifecycle_marked : forall r ops,
  timer_ready false ops = true -> clock_monotone ops ->
  conforms_marked r (periods ops) (trace r ops) /\ snd (run_ops r init_lstate ops) <> None.
Proof.
  intros r ops Hrd Hclk.
  destruct (lifecycle_marked_gen r ops false init_lstate 0%Z Hrd) as [ev [fin [Hr Hg]]].
  - split; [discriminate|]. simpl. discriminate.
  - exact Hclk.
  - unfold trace. rewrite Hr. simpl. split; [exact Hg|discriminate].
Qed.

Lemma periods_selections : forall ops, map fst (periods ops) = selections ops.
Proof.
  induction ops as [|[s now|now| |s t0 wakes|] ops IH]; simpl; congruence.
Qed.

Lemma conforms_marked_modes : forall r ps tr, conforms_marked r ps tr ->
  forall e, In e tr -> exists s, In s (map fst ps) /\ select r s = Some (mode_of e).
Proof.
  induction 1 as [|s c ps tr Hs Hc IH|s ps m ts tr Hs Hn Hp Hc IH|s ps m ts tr Hs Hn Hp Hc IH]; intros e He.
  - contradiction.
  - destruct (IH e He) as [s' [H1 H2]]. exists s'. split; [now right|assumption].
  - destruct He as [He|He]; [subst; exists s; split; [now left|assumption]|].
    apply in_app_iff in He. destruct He as [He|[He|He]].
    + apply in_map_iff in He. destruct He as [t [Ht _]]. subst. exists s. split; [now left|assumption].
    + subst. exists s. split; [now left|assumption].
    + destruct (IH e He) as [s' [H1 H2]]. exists s'. split; [now right|assumption].
  - destruct He as [He|He]; [subst; exists s; split; [now left|assumption]|].
    apply in_app_iff in He. destruct He as [He|He].
    + apply in_map_iff in He. destruct He as [t [Ht _]]. subst. exists s. split; [now left|assumption].
    + destruct (IH e He) as [s' [H1 H2]]. exists s'. split; [now right|assumption].
Qed.

(* no other mode receives any callback -- also when periods are left open *)
Theorem only_selected_modes_marked : forall r ops,
  timer_ready false ops = true -> clock_monotone ops ->
  forall e, In e (trace r ops) ->
    exists s, In s (selections ops) /\ select r s = Some (mode_of e).
Proof.
  intros r ops Hw Hc e He. destruct (lifecycle_marked r ops Hw Hc) as [H _].
  rewrite <- periods_selections. eapply conforms_marked_modes; eauto.
Qed.

(* ================================================================== *)
(* 14. Failing constructors, whatever makes the call raise             *)

Lemma dict_set_In {V} : forall (d : list (string * V)) k v k' v',
  In (k', v') (dict_set k v d) -> (k', v') = (k, v) \/ In (k', v') d.
Proof.
  induction d as [|[k0 v0] d IH]; intros k v k' v' H; simpl in H.
  - destruct H as [H|[]]. left. now symmetry.
  - destruct (k0 =? k).
    + destruct H as [H|H]; [left; now symmetry|right; now right].
    + destruct H as [H|H]; [right; now left|]. apply IH in H. destruct H; [now left|right; now right].
Qed.

(* only instances that were really constructed get into self.modes *)
Lemma scan_items_modes_constructed : forall fms its st st' e,
  scan_items fms its st = (st', e) ->
  (forall k i, In (k, i) (s_modes st) -> ctor_raises (icls i) = false) ->
  (forall k i, In (k, i) (s_modes st') -> ctor_raises (icls i) = false).
Proof.
  induction its as [|[f|i] its IH]; intros st st' e H Hc; simpl in H.
  - now inversion H; subst.
  - destruct fms; [eapply IH; eauto | now inversion H; subst].
  - destruct (ctor_raises (icls i)) eqn:Ec.
    + destruct fms; [eapply IH; [exact H|]; exact Hc | now inversion H; subst].
    + assert (Hset : forall key k j, In (k, j) (dict_set key i (s_modes st)) -> ctor_raises (icls j) = false).
      { intros key k j Hin. apply dict_set_In in Hin. destruct Hin as [Hin|Hin]; [now inversion Hin; subst|eauto]. }
      destruct (dict_mem _ _).
      * destruct fms; [eapply IH; [exact H|]; simpl; apply Hset | now inversion H; subst].
      * eapply IH; [exact H|]. simpl. apply Hset.
Qed.

Theorem built_modes_constructed : forall fms p r,
  discover fms p = Built r ->
  forall k i, In (k, i) (modes r) -> ctor_raises (icls i) = false.
Proof.
  intros fms p r H. apply discover_built_inv in H. destruct H as [st [H1 [_ H3]]].
  apply finish_init_ctors in H1. destruct H1 as [_ H1]. rewrite H1.
  eapply scan_items_modes_constructed; [exact H3|]. simpl. intros k i [].
Qed.

(* A class with MODE_NAME, not DISABLED, of an importable module, whose call
   raises -- [ctor_raises] says nothing about WHY it raises (__init__, __new__,
   the metaclass, an abstract class, missing arguments):
   without FMS start-up raises; with FMS the call is made all the same (that is
   how the failure is found), the class is not offered, and every healthy mode
   still is. *)
Theorem failing_constructor_policy : forall p i,
  In i (needed p) -> ctor_raises (icls i) = true ->
  (exists e c, discover false p = Raised e c) /\
  (exists r, discover true p = Built r /\
     In (call_of i) (ctor_calls r) /\
     (forall k j, In (k, j) (modes r) -> ctor_raises (icls j) = false) /\
     (no_key_clash p ->
      forall j, In j (needed p) -> healthy j = true ->
        exists k, (k = name_of j \/ k = renamed j) /\
                  dict_get k (modes r) = Some j /\
                  In k (option_names r) /\
                  (choosable k -> chooser_selected (chooser_of r) (Some k) = Some j))).
Proof.
  intros p i Hi Hc. split.
  - apply no_fms_raises_iff. right. right. left. exists i. auto.
  - destruct (fms_tolerates p) as [r [Hr Ht]]. exists r. split; [exact Hr|]. split.
    + rewrite (built_ctor_calls _ _ _ Hr). now apply in_map.
    + split; [exact (built_modes_constructed _ _ _ Hr)|exact Ht].
Qed.

(* every way of failing is a failing constructor *)
Lemma fails_iff : forall b, fails b = true <-> b <> Constructs.
Proof. intros []; simpl; split; congruence. Qed.

(* ================================================================== *)
(* 15. Implicit (namespace) packages: __path__ is treated as a set     *)

Lemma existsb_eqb_In : forall d seen, existsb (String.eqb d) seen = true <-> In d seen.
Proof.
  intros d seen. rewrite existsb_exists. split.
  - intros [x [Hx He]]. apply String.eqb_eq in He. now subst.
  - intros H. exists d. split; [assumption|apply String.eqb_refl].
Qed.

Lemma existsb_eqb_not_In : forall d seen, existsb (String.eqb d) seen = false <-> ~ In d seen.
Proof.
  intros d seen. rewrite <- existsb_eqb_In. destruct (existsb _ _); split; congruence.
Qed.

Lemma dedup_dirs_sound : forall path seen po,
  In po (dedup_dirs seen path) -> In po path /\ ~ In (pdir po) seen.
Proof.
  induction path as [|a path IH]; intros seen po H; simpl in H; [contradiction|].
  destruct (existsb _ _) eqn:E.
  - apply IH in H. destruct H. split; [now right|assumption].
  - destruct H as [H|H].
    + subst. split; [now left|]. now apply existsb_eqb_not_In.
    + apply IH in H. destruct H as [H1 H2]. split; [now right|]. intros Hin. apply H2. now right.
Qed.

Lemma dedup_dirs_NoDup : forall path seen, NoDup (map pdir (dedup_dirs seen path)).
Proof.
  induction path as [|a path IH]; intros seen; simpl; [constructor|].
  destruct (existsb _ _); [apply IH|]. simpl. constructor; [|apply IH].
  intros Hin. apply in_map_iff in Hin. destruct Hin as [po [He Hin]].
  apply dedup_dirs_sound in Hin. destruct Hin as [_ Hn]. apply Hn. left. now symmetry.
Qed.

Lemma dedup_dirs_complete : forall path seen po,
  In po path -> ~ In (pdir po) seen -> In (pdir po) (map pdir (dedup_dirs seen path)).
Proof.
  induction path as [|a path IH]; intros seen po H Hn; [contradiction|]. simpl.
  destruct (existsb _ _) eqn:E.
  - destruct H as [H|H]; [subst; apply existsb_eqb_In in E; contradiction|now apply IH].
  - simpl. destruct H as [H|H]; [subst; now left|].
    destruct (string_dec (pdir a) (pdir po)) as [Heq|Hne]; [now left|].
    right. apply IH; [assumption|]. intros [Hin|Hin]; contradiction.
Qed.

(* list(set(__path__)): every directory of __path__, once *)
Theorem path_dirs_set : forall path,
  NoDup (map pdir (path_dirs path)) /\
  (forall po, In po (path_dirs path) -> In po path) /\
  (forall d, In d (map pdir path) <-> In d (map pdir (path_dirs path))).
Proof.
  intros path. unfold path_dirs. split; [apply dedup_dirs_NoDup|]. split.
  - intros po H. now apply dedup_dirs_sound in H.
  - intros d. split; intros H; apply in_map_iff in H; destruct H as [po [He H]]; subst.
    + apply dedup_dirs_complete; [assumption|intros []].
    + apply dedup_dirs_sound in H. apply in_map. tauto.
Qed.

Lemma flat_files_NoDup : forall L : list portion,
  NoDup (map pdir L) ->
  (forall a, In a L -> NoDup (map file (pfiles a))) ->
  (forall a b m n, In a L -> In b L -> In m (pfiles a) -> In n (pfiles b) ->
     file m = file n -> pdir a = pdir b) ->
  NoDup (map file (flat_map pfiles L)).
Proof.
  induction L as [|a L IH]; intros Hd Hf Hx; simpl; [constructor|].
  simpl in Hd. inversion Hd as [|? ? Hn Hd']; subst.
  rewrite map_app. apply NoDup_app_intro.
  - apply Hf. now left.
  - apply IH; [assumption| |].
    + intros b Hb. apply Hf. now right.
    + intros b c m n Hb Hc. apply Hx; now right.
  - intros x Hx1 Hx2. apply Hn.
    apply in_map_iff in Hx1. destruct Hx1 as [m [Hm1 Hm2]].
    apply in_map_iff in Hx2. destruct Hx2 as [n [Hn1 Hn2]].
    apply in_flat_map in Hn2. destruct Hn2 as [b [Hb Hn2]].
    rewrite (Hx a b m n); [now apply in_map|now left|now right|assumption|assumption|congruence].
Qed.

(* the files globbed for an implicit package: the files of its directories,
   each ONCE, whatever __path__ repeats *)
Lemma path_files_once : forall path, path_ok path ->
  NoDup (map file (path_files path)) /\
  (forall m, In m (path_files path) <-> in_path path m).
Proof.
  intros path [Hsame [Hdisj Hnd]].
  destruct (path_dirs_set path) as [H1 [H2 H3]]. unfold path_files. split.
  - apply flat_files_NoDup; [assumption| |].
    + intros a Ha. apply Hnd. now apply H2.
    + intros a b m n Ha Hb. apply Hdisj; now apply H2.
  - intros m. rewrite in_flat_map. unfold in_path. split.
    + intros [po [Hpo Hm]]. exists po. split; [now apply H2|assumption].
    + intros [po [Hpo Hm]].
      assert (Hd : In (pdir po) (map pdir (path_dirs path))) by (apply H3; now apply in_map).
      apply in_map_iff in Hd. destruct Hd as [po' [He Hpo']]. exists po'. split; [assumption|].
      rewrite (Hsame po' po); [assumption|now apply H2|assumption|assumption].
Qed.

(* ---- one file per module name (fix f71dd92) ---- *)

Lemma unique_names_sound : forall l seen m,
  In m (unique_names seen l) -> In m l /\ ~ In (mname m) seen.
Proof.
  induction l as [|a l IH]; intros seen m H; simpl in H; [contradiction|].
  destruct (existsb _ _) eqn:E.
  - apply IH in H. destruct H. split; [now right|assumption].
  - destruct H as [H|H].
    + subst. split; [now left|]. now apply existsb_eqb_not_In.
    + apply IH in H. destruct H as [H1 H2]. split; [now right|]. intros Hin. apply H2. now right.
Qed.

Lemma unique_names_NoDup : forall l seen, NoDup (map mname (unique_names seen l)).
Proof.
  induction l as [|a l IH]; intros seen; simpl; [constructor|].
  destruct (existsb _ _); [apply IH|]. simpl. constructor; [|apply IH].
  intros Hin. apply in_map_iff in Hin. destruct Hin as [m [He Hin]].
  apply unique_names_sound in Hin. destruct Hin as [_ Hn]. apply Hn. left. now symmetry.
Qed.

Lemma unique_names_complete : forall l seen m,
  In m l -> ~ In (mname m) seen -> In (mname m) (map mname (unique_names seen l)).
Proof.
  induction l as [|a l IH]; intros seen m H Hn; [contradiction|]. simpl.
  destruct (existsb _ _) eqn:E.
  - destruct H as [H|H]; [subst; apply existsb_eqb_In in E; contradiction|now apply IH].
  - simpl. destruct H as [H|H]; [subst; now left|].
    destruct (string_dec (mname a) (mname m)) as [Heq|Hne]; [now left|].
    right. apply IH; [assumption|]. intros [Hin|Hin]; contradiction.
Qed.

Lemma unique_names_files_NoDup : forall l seen,
  NoDup (map file l) -> NoDup (map file (unique_names seen l)).
Proof.
  induction l as [|a l IH]; intros seen H; simpl; [constructor|].
  inversion H as [|? ? Hn Hd]; subst. destruct (existsb _ _); [now apply IH|].
  simpl. constructor; [|now apply IH]. intros Hin. apply Hn.
  apply in_map_iff in Hin. destruct Hin as [m [He Hin]]. apply unique_names_sound in Hin.
  apply in_map_iff. exists m. tauto.
Qed.

(* a file of a name that was seen earlier changes nothing *)
Lemma unique_names_skip : forall l seen m' r,
  (In (mname m') seen \/ exists m, In m l /\ mname m = mname m') ->
  unique_names seen (l ++ m' :: r) = unique_names seen (l ++ r).
Proof.
  induction l as [|a l IH]; intros seen m' r H; simpl.
  - destruct H as [H|[m [[] _]]]. apply existsb_eqb_In in H. now rewrite H.
  - destruct (existsb (String.eqb (mname a)) seen) eqn:E.
    + apply IH. destruct H as [H|[m [[Hm|Hm] He]]].
      * now left.
      * subst a. left. rewrite <- He. now apply existsb_eqb_In.
      * right. now exists m.
    + f_equal. apply IH. destruct H as [H|[m [[Hm|Hm] He]]].
      * left. now right.
      * subst a. left. left. exact He.
      * right. now exists m.
Qed.

(* a module found in the directories of __path__ is identified by its file *)
Lemma in_path_file_inj : forall path, path_ok path ->
  forall m n, in_path path m -> in_path path n -> file m = file n -> m = n.
Proof.
  intros path [Hsame [Hdisj Hnd]] m n [a [Ha Hm]] [b [Hb Hn]] Hf.
  assert (Hd : pdir a = pdir b) by (eapply Hdisj; eauto).
  rewrite <- (Hsame a b Ha Hb Hd) in Hn.
  eapply NoDup_map_In_inj; [apply (Hnd a Ha)| | |]; eauto.
Qed.

(* The files scanned for an implicit package: every file at most once, ONE
   file per module name, only files of its directories, every module name found
   there is represented; when no name occurs twice these are all the files *)
Theorem path_modules_once : forall path, path_ok path ->
  NoDup (map file (path_modules path)) /\
  NoDup (map mname (path_modules path)) /\
  (forall m, In m (path_modules path) -> in_path path m) /\
  (forall m, in_path path m -> exists m', In m' (path_modules path) /\ mname m' = mname m) /\
  (names_distinct path -> forall m, in_path path m -> In m (path_modules path)).
Proof.
  intros path Hok. destruct (path_files_once path Hok) as [Hnd Hin]. unfold path_modules.
  assert (Hrep : forall m, in_path path m ->
            exists m', In m' (unique_names [] (path_files path)) /\ mname m' = mname m).
  { intros m Hm. apply Hin in Hm.
    assert (H : In (mname m) (map mname (unique_names [] (path_files path))))
      by (apply unique_names_complete; [assumption|intros []]).
    apply in_map_iff in H. destruct H as [m' [He H]]. now exists m'. }
  split; [now apply unique_names_files_NoDup|]. split; [apply unique_names_NoDup|]. split.
  - intros m H. apply unique_names_sound in H. apply Hin. tauto.
  - split; [exact Hrep|].
    intros Hdist m Hm. destruct (Hrep m Hm) as [m' [Hm' He]].
    assert (m' = m); [|now subst].
    apply Hdist; [|assumption|assumption]. apply unique_names_sound in Hm'. apply Hin. tauto.
Qed.

Lemma dedup_dirs_skip : forall a seen po b,
  In (pdir po) seen -> dedup_dirs seen (a ++ po :: b) = dedup_dirs seen (a ++ b).
Proof.
  induction a as [|x a IH]; intros seen po b H; simpl.
  - apply existsb_eqb_In in H. now rewrite H.
  - destruct (existsb _ _); [now apply IH|]. f_equal. apply IH. now right.
Qed.

(* an entry of __path__ that names a directory listed earlier changes nothing *)
Theorem repeated_portion_ignored : forall pre po mid po' post,
  pdir po' = pdir po ->
  path_modules (pre ++ po :: mid ++ po' :: post) = path_modules (pre ++ po :: mid ++ post).
Proof.
  intros pre po mid po' post He. unfold path_modules, path_files, path_dirs. do 2 f_equal.
  generalize (@nil string) as seen.
  induction pre as [|x pre IH]; intros seen; simpl.
  - destruct (existsb _ _) eqn:E.
    + apply dedup_dirs_skip. rewrite He. now apply existsb_eqb_In.
    + f_equal. apply dedup_dirs_skip. left. now symmetry.
  - destruct (existsb _ _); [apply IH|]. f_equal. apply IH.
Qed.

Theorem namespace_repeated_directory_ignored : forall fms pkgname pre po mid po' post,
  pdir po' = pdir po ->
  init fms pkgname (ImportedNamespace (pre ++ po :: mid ++ po' :: post)) =
  init fms pkgname (ImportedNamespace (pre ++ po :: mid ++ post)).
Proof.
  intros. unfold init, import_outcome. now rewrite repeated_portion_ignored.
Qed.

Lemma NoDup_map_filter {A B} (f : A -> B) (g : A -> bool) : forall l,
  NoDup (map f l) -> NoDup (map f (filter g l)).
Proof.
  induction l as [|x l IH]; simpl; intros H; [constructor|].
  inversion H as [|? ? Hn Hd]; subst. destruct (g x); simpl; [|now apply IH].
  constructor; [|now apply IH]. intros Hin. apply Hn.
  apply in_map_iff in Hin. destruct Hin as [y [Hy Hin]]. apply filter_In in Hin.
  apply in_map_iff. exists y. tauto.
Qed.

(* "once each": for an implicit package too -- several directories, the same
   directory several times, files of the same name in several directories --
   every class with MODE_NAME and not DISABLED of a scanned file is called exactly
   once, nothing else is *)
Theorem namespace_instantiated_once : forall fms pkgname path r,
  init fms pkgname (ImportedNamespace path) = Built r ->
  path_ok path ->
  (forall m, in_path path m -> NoDup (map cname (classes m))) ->
  NoDup (ctor_calls r) /\
  (forall m c, In m (path_modules path) -> mname m <> "__init__" -> import_fails m = false -> In c (classes m) ->
     (In (file m, cname c) (ctor_calls r) <-> is_needed c = true)) /\
  (forall x, In x (ctor_calls r) ->
     exists m c, In m (path_modules path) /\ In c (classes m) /\ is_needed c = true /\ x = (file m, cname c)).
Proof.
  intros fms pkgname path r H Hok Hcls. unfold init, import_outcome in H.
  destruct (path_modules_once path Hok) as [Hnd [_ [Hin _]]].
  assert (Hl : layout_ok (PkgPresent (path_modules path))).
  { split; simpl.
    - now apply NoDup_map_filter.
    - intros m Hm. apply filter_In in Hm. apply Hcls, Hin. tauto. }
  assert (Hload : forall m, In m (loaded_modules (PkgPresent (path_modules path))) <->
                            In m (path_modules path) /\ mname m <> "__init__" /\ import_fails m = false).
  { intros m. unfold loaded_modules. simpl. rewrite !filter_In, !negb_true_iff, String.eqb_neq. tauto. }
  destruct (instantiated_exactly _ _ _ H Hl) as [I1 [I2 I3]]. split; [exact I1|]. split.
  - intros m c Hm Hn Hf Hc. apply I2; [|assumption]. apply Hload. auto.
  - intros x Hx. destruct (I3 x Hx) as [m [c [Hm [Hc He]]]]. exists m, c.
    apply Hload in Hm as Hm'. destruct Hm' as [Hp _]. repeat split; auto.
    apply (I2 m c Hm Hc). now rewrite <- He.
Qed.

(* D15.  Files of the same name in several directories of __path__: of all the
   files that bear a module name exactly ONE is used, and every class with
   MODE_NAME and not DISABLED of that module is called through it -- once
   ([NoDup (ctor_calls r)]) -- and through no other file of that name. *)
Theorem namespace_one_file_per_name : forall fms pkgname path r,
  init fms pkgname (ImportedNamespace path) = Built r ->
  path_ok path -> name_determines_module path ->
  (forall m, in_path path m -> NoDup (map cname (classes m))) ->
  forall m, in_path path m -> mname m <> "__init__" -> import_fails m = false ->
  exists m', In m' (path_modules path) /\ mname m' = mname m /\
    forall c, In c (classes m) -> is_needed c = true ->
      In (file m', cname c) (ctor_calls r) /\
      (forall n, in_path path n -> mname n = mname m -> In (file n, cname c) (ctor_calls r) -> n = m').
Proof.
  intros fms pkgname path r H Hok Hname Hcls m Hm Hni Hif.
  destruct (path_modules_once path Hok) as [_ [Hndn [Hin [Hrep _]]]].
  destruct (namespace_instantiated_once _ _ _ _ H Hok Hcls) as [_ [I2 I3]].
  destruct (Hrep m Hm) as [m' [Hm' He]]. exists m'. split; [assumption|]. split; [assumption|].
  destruct (Hname m' m (Hin _ Hm') Hm He) as [Hc Hf].
  intros c Hcm Hneed. split.
  - apply (I2 m' c); [assumption|congruence|congruence|rewrite Hc; assumption|assumption].
  - intros n Hn Hen Hcall. destruct (I3 _ Hcall) as [m2 [c2 [Hm2 [_ [_ Hx]]]]].
    assert (Hfile : file n = file m2) by congruence.
    assert (n = m2) by (apply (in_path_file_inj path Hok); [assumption|now apply Hin|exact Hfile]).
    subst m2. eapply NoDup_map_In_inj; [exact Hndn| | |]; auto. congruence.
Qed.

(* ... and a file whose name an earlier directory already has changes NOTHING *)
Theorem namespace_shadowed_file_ignored : forall fms pkgname a d pre m' post,
  pdir a <> d -> (exists m, In m (pfiles a) /\ mname m = mname m') ->
  init fms pkgname (ImportedNamespace [a; mkPortion d (pre ++ m' :: post)]) =
  init fms pkgname (ImportedNamespace [a; mkPortion d (pre ++ post)]).
Proof.
  intros fms pkgname a d pre m' post Hd [m [Hm He]]. unfold init, import_outcome. do 2 f_equal.
  unfold path_modules, path_files, path_dirs. simpl.
  apply String.eqb_neq in Hd. rewrite String.eqb_sym in Hd. rewrite Hd. simpl. rewrite !app_nil_r.
  rewrite !app_assoc. apply unique_names_skip. right. exists m. split; [|assumption].
  apply in_or_app. now left.
Qed.
