(* robotpy_ext/autonomous/selector.py: the per-period lifecycle methods of AutonomousModeSelector
   (_on_autonomous_enable, _on_iteration, disable, start, periodic, endCompetition), translated from the pinned source by
   harness/c14_translate.py (`python -m harness.c14_translate --ref /repo`) by symbolic execution: one Gallina function per
   method, from the state before the call to `Some (state after, callbacks delivered)`, None = the call raises
   AttributeError.  What every Python form is read as is stated in the translator's docstring.  Every C14 check
   translates the CURRENT source again (work/C14/Gen_lifecycle.v) and proves the result equal to these by reflexivity;
   Selector/SrcLifecycleProofs.v proves them equal to the functions of Selector/Model.v.  No proofs here. *)
From Coq Require Import String List ZArith Bool.
Import ListNotations.
Open Scope string_scope.
Open Scope list_scope.
From RV Require Import Selector.Model.

(* BEGIN translator output *)
(* selector.py: AutonomousModeSelector._on_autonomous_enable *)
Definition ref_on_autonomous_enable (r : selector) (s : sel) (now : Z) (st : lstate) : option (lstate * list event) :=
  (match (fst s) with Some a1 => (if dict_mem a1 (modes r) then (match (dict_get a1 (modes r)) with Some m2 => Some (mkL (Some m2) (timer st) (robot_exit st), [OnEnable m2]) | None => Some (mkL None (timer st) (robot_exit st), []) end) else (match (chooser_selected (chooser_of r) (snd s)) with Some m3 => Some (mkL (Some m3) (timer st) (robot_exit st), [OnEnable m3]) | None => Some (mkL None (timer st) (robot_exit st), []) end)) | None => (match (chooser_selected (chooser_of r) (snd s)) with Some m4 => Some (mkL (Some m4) (timer st) (robot_exit st), [OnEnable m4]) | None => Some (mkL None (timer st) (robot_exit st), []) end) end).
(* selector.py: AutonomousModeSelector._on_iteration *)
Definition ref_on_iteration (r : selector) (s : sel) (now : Z) (st : lstate) (time_elapsed : Z) : option (lstate * list event) :=
  (match (active st) with Some m1 => Some (mkL (Some m1) (timer st) (robot_exit st), [OnIteration m1 time_elapsed]) | None => Some (mkL None (timer st) (robot_exit st), []) end).
(* selector.py: AutonomousModeSelector.disable *)
Definition ref_disable (r : selector) (s : sel) (now : Z) (st : lstate) : option (lstate * list event) :=
  (match (active st) with Some m1 => Some (mkL None (timer st) (robot_exit st), [OnDisable m1]) | None => Some (mkL None (timer st) (robot_exit st), []) end).
(* selector.py: AutonomousModeSelector.start *)
Definition ref_start (r : selector) (s : sel) (now : Z) (st : lstate) : option (lstate * list event) :=
  (match (fst s) with Some a1 => (if dict_mem a1 (modes r) then (match (dict_get a1 (modes r)) with Some m2 => Some (mkL (Some m2) (Some now) (robot_exit st), [OnEnable m2]) | None => Some (mkL None (Some now) (robot_exit st), []) end) else (match (chooser_selected (chooser_of r) (snd s)) with Some m3 => Some (mkL (Some m3) (Some now) (robot_exit st), [OnEnable m3]) | None => Some (mkL None (Some now) (robot_exit st), []) end)) | None => (match (chooser_selected (chooser_of r) (snd s)) with Some m4 => Some (mkL (Some m4) (Some now) (robot_exit st), [OnEnable m4]) | None => Some (mkL None (Some now) (robot_exit st), []) end) end).
(* selector.py: AutonomousModeSelector.periodic *)
Definition ref_periodic (r : selector) (s : sel) (now : Z) (st : lstate) : option (lstate * list event) :=
  (match (timer st) with Some t1 => (match (active st) with Some m2 => Some (mkL (Some m2) (Some t1) (robot_exit st), [OnIteration m2 (now - t1)%Z]) | None => Some (mkL None (Some t1) (robot_exit st), []) end) | None => None end).
(* selector.py: AutonomousModeSelector.endCompetition *)
Definition ref_endCompetition (r : selector) (s : sel) (now : Z) (st : lstate) : option (lstate * list event) :=
  Some (mkL (active st) (timer st) true, []).
(* END translator output *)
