(* Selector/Corr.v -- comparison of the model with canonical observations of
   the implementation (used by the generated work/C14/cases_*.v).
   Definitions only. *)
From Coq Require Import String List ZArith Bool Arith.
From RV Require Import Selector.Model Selector.Spec.
Import ListNotations.
Open Scope string_scope.
Open Scope list_scope.

Record obs := mkObs {
  o_err     : nat;   (* exception out of AutonomousModeSelector(...): 0 none | 1 from importing the
                        package | 2 the module's | 3 the constructor's | 4 RuntimeError | 9 one the harness
                        cannot attribute (start-up raised, which is all the property asks for when it must) *)
  o_ctors   : list ctor_call;                      (* constructor-call log *)
  o_modes   : list (string * (string * string));   (* sorted(selector.modes): key, (file, class) *)
  o_options : list string;                         (* NetworkTables .../options, sorted *)
  o_default : string;                              (* NetworkTables .../default *)
  o_events  : list (nat * (string * string) * Z);  (* callback log: 0 on_enable | 1 on_iteration | 2
                                                      on_disable, (file, class), t in microseconds *)
  o_attrerr : bool;                                (* a periodic() call raised AttributeError *)
  o_failing : list ctor_call                       (* the classes of the layout whose call fails (by whatever
                                                      mechanism) -- from the layout.  Whether, and how, the ATTEMPT
                                                      to call such a class shows in the constructor log is not
                                                      compared: it may fail inside the interpreter before any code
                                                      of the class runs (a plain abc class with an abstract method
                                                      left, an __init__ that wants arguments), and the property
                                                      only fixes the policy, not how the selector finds out *)
}.

Definition err_code (e : error) : nat :=
  match e with
  | ErrPackage => 1
  | ErrImport _ => 2
  | ErrCtor _ _ => 3
  | ErrDuplicate _ _ => 4
  | ErrDefaults _ => 4
  end.

Definition call_eqb (a b : ctor_call) : bool :=
  (fst a =? fst b) && (snd a =? snd b).

Fixpoint list_eqb {A} (eqb : A -> A -> bool) (a b : list A) : bool :=
  match a, b with
  | [], [] => true
  | x :: a', y :: b' => eqb x y && list_eqb eqb a' b'
  | _, _ => false
  end.

(* the constructor calls that returned an instance *)
Definition successful_calls (o : obs) (l : list ctor_call) : list ctor_call :=
  filter (fun c => negb (existsb (call_eqb c) (o_failing o))) l.

(* ... and the attempts on classes that cannot be constructed: at most one each *)
Definition failed_calls (o : obs) (l : list ctor_call) : list ctor_call :=
  filter (fun c => existsb (call_eqb c) (o_failing o)) l.

Fixpoint calls_distinct (l : list ctor_call) : bool :=
  match l with
  | [] => true
  | c :: r => negb (existsb (call_eqb c) r) && calls_distinct r
  end.

Definition id_of (i : inst) : string * string := (ifile i, cname (icls i)).

Definition ev_code (e : event) : nat * (string * string) * Z :=
  match e with
  | OnEnable m => (0, id_of m, 0%Z)
  | OnIteration m t => (1, id_of m, t)
  | OnDisable m => (2, id_of m, 0%Z)
  end.

Definition ev_eqb (a b : nat * (string * string) * Z) : bool :=
  let '(ka, ia, ta) := a in
  let '(kb, ib, tb) := b in
  Nat.eqb ka kb && call_eqb ia ib && Z.eqb ta tb.

Definition mode_entry_eqb (a b : string * (string * string)) : bool :=
  (fst a =? fst b) && call_eqb (snd a) (snd b).

Definition sort_strings (l : list string) : list string :=
  map fst (sort_items (map (fun s => (s, tt)) l)).

(* how many different kinds of start-up fault the layout contains; with more
   than one the property does not say which exception wins *)
Definition fault_kinds (p : package) : nat :=
  (if import_faultb p then 1 else 0) + (if ctor_faultb p then 1 else 0) +
  (if duplicate_namesb p || several_defaultsb p then 1 else 0).

(* 0 = agreement; otherwise the first clause that differs.  The layout is given
   as what import_module(pkgname) did (observed by the harness before the
   selector is constructed): the test on e.name is the model's *)
Definition check_case (fms : bool) (pkgname : string) (imp : pkg_import) (ops : list op) (o : obs) : nat :=
  let p := import_outcome pkgname imp in
  match init fms pkgname imp with
  | Raised e _ =>
    if Nat.leb 2 (fault_kinds p)
    then (if Nat.eqb (o_err o) 0 then 1 else 0)
    else (if Nat.eqb (o_err o) (err_code e) || Nat.eqb (o_err o) 9 then 0 else 1)
  | Built r =>
    if negb (Nat.eqb (o_err o) 0) then 1
    else if negb (list_eqb call_eqb (successful_calls o (ctor_calls r)) (successful_calls o (o_ctors o))
                 && calls_distinct (failed_calls o (o_ctors o))) then 2
    else if negb (list_eqb mode_entry_eqb
                   (map (fun kv => (fst kv, id_of (snd kv))) (sort_items (modes r))) (o_modes o)) then 3
    else if negb (list_eqb String.eqb (sort_strings (option_names r)) (o_options o)) then 4
    else if negb (preselection r =? o_default o) then 5
    else
      let '(ev, fin) := run_ops r init_lstate ops in
      if negb (list_eqb ev_eqb (map ev_code ev) (o_events o)) then 6
      else if negb (Bool.eqb (match fin with None => true | Some _ => false end) (o_attrerr o)) then 7
      else 0
  end.

(* The import is given as a list of alternatives.  For an implicit package the
   directories of its __path__ are scanned in the iteration order of a Python
   set, which is not specified: the harness lists the __path__ (repetitions
   included) once for every order of its distinct directories, and the
   observation has to agree with the model for one of them.  Each alternative
   carries its own copy of the observation: when a module name has a file in
   several directories, the classes of that ONE module are identified by the
   file the selector meets first under this order (the model's [file]); a class
   of a shadowed file that got constructed all the same keeps an identity the
   model never produces.  Every other import outcome has one alternative.  The
   clause reported is that of the first. *)
Definition check_case_any (fms : bool) (pkgname : string) (alts : list (pkg_import * obs)) (ops : list op) : nat :=
  if existsb (fun a => Nat.eqb (check_case fms pkgname (fst a) ops (snd a)) 0) alts then 0
  else match alts with
       | [] => 9
       | a :: _ => check_case fms pkgname (fst a) ops (snd a)
       end.

Definition case := (bool * string * list (pkg_import * obs) * list op)%type.

Fixpoint bad_from (i : nat) (l : list case) : list nat :=
  match l with
  | [] => []
  | (fms, n, alts, ops) :: r =>
    if Nat.eqb (check_case_any fms n alts ops) 0 then bad_from (S i) r else i :: bad_from (S i) r
  end.

(* indices of disagreeing cases, and for those the differing clause *)
Definition bad_indices (l : list case) : list nat := bad_from 0 l.
Definition bad_clauses (l : list case) : list nat :=
  filter (fun c => negb (Nat.eqb c 0)) (map (fun '(fms, n, alts, ops) => check_case_any fms n alts ops) l).
