(* Selector/SrcLifecycleProofs.v -- the reference translation of the lifecycle
   methods of selector.py (Selector/SrcLifecycle.v) IS the model
   (Selector/Model.v), for every selector, selection, clock reading and state. *)
From Coq Require Import String List ZArith Bool.
Import ListNotations.
Open Scope string_scope.
Open Scope list_scope.
From RV Require Import Selector.Model Selector.SrcLifecycle.

Lemma lstate_eta : forall st, mkL (active st) (timer st) (robot_exit st) = st.
Proof. intros []. reflexivity. Qed.

(* _on_autonomous_enable: `auto_mode is not None and auto_mode in self.modes` then
   `self.modes[auto_mode]`, else the chooser -- the model's [select] *)
Lemma ref_on_autonomous_enable_spec : forall r s now st,
  ref_on_autonomous_enable r s now st = Some (on_autonomous_enable r st s).
Proof.
  intros r [d c] now st. unfold ref_on_autonomous_enable, on_autonomous_enable, select, dict_mem. simpl.
  destruct d as [a|].
  - destruct (dict_get a (modes r)) as [m|]; [reflexivity|].
    destruct (chooser_selected (chooser_of r) c); reflexivity.
  - destruct (chooser_selected (chooser_of r) c); reflexivity.
Qed.

Lemma ref_on_iteration_spec : forall r s now st t,
  ref_on_iteration r s now st t = Some (st, on_iteration st t).
Proof.
  intros r s now [a tm ex] t. unfold ref_on_iteration, on_iteration. simpl. destruct a; reflexivity.
Qed.

Lemma ref_disable_spec : forall r s now st, ref_disable r s now st = step r st Disable.
Proof.
  intros r s now [a tm ex]. unfold ref_disable, step, do_disable. simpl. destruct a; reflexivity.
Qed.

Lemma ref_start_spec : forall r s now st, ref_start r s now st = step r st (Start s now).
Proof.
  intros r [d c] now st. unfold ref_start, step, do_start, on_autonomous_enable, select, dict_mem. simpl.
  destruct d as [a|].
  - destruct (dict_get a (modes r)) as [m|]; [reflexivity|].
    destruct (chooser_selected (chooser_of r) c); reflexivity.
  - destruct (chooser_selected (chooser_of r) c); reflexivity.
Qed.

Lemma ref_periodic_spec : forall r s now st, ref_periodic r s now st = step r st (Periodic now).
Proof.
  intros r s now [a tm ex]. unfold ref_periodic, step, do_periodic, on_iteration. simpl.
  destruct tm as [t0|]; [|reflexivity]. destruct a; reflexivity.
Qed.

Lemma ref_endCompetition_spec : forall r s now st, ref_endCompetition r s now st = step r st EndCompetition.
Proof. reflexivity. Qed.

Theorem ref_lifecycle_is_model : forall r s now st t,
  ref_on_autonomous_enable r s now st = Some (on_autonomous_enable r st s) /\
  ref_on_iteration r s now st t = Some (st, on_iteration st t) /\
  ref_disable r s now st = step r st Disable /\
  ref_start r s now st = step r st (Start s now) /\
  ref_periodic r s now st = step r st (Periodic now) /\
  ref_endCompetition r s now st = step r st EndCompetition.
Proof.
  intros. split; [apply ref_on_autonomous_enable_spec|]. split; [apply ref_on_iteration_spec|].
  split; [apply ref_disable_spec|]. split; [apply ref_start_spec|]. split; [apply ref_periodic_spec|].
  apply ref_endCompetition_spec.
Qed.

(* Hence run_ops -- every call sequence of start/periodic/disable/endCompetition
   -- steps through the translated methods. *)
Definition ref_step (r : selector) (st : lstate) (o : op) : option (lstate * list event) :=
  match o with
  | Start s now => ref_start r s now st
  | Periodic now => ref_periodic r (None, None) now st
  | Disable => ref_disable r (None, None) 0%Z st
  | EndCompetition => ref_endCompetition r (None, None) 0%Z st
  | RunPeriod s t0 wakes => Some (do_run r st s t0 wakes)   (* run(): not translated, the model's *)
  end.

Theorem ref_step_is_step : forall r st o, ref_step r st o = step r st o.
Proof.
  intros r st [s now|now| |s t0 wakes|]; simpl.
  - apply ref_start_spec.
  - apply ref_periodic_spec.
  - apply ref_disable_spec.
  - reflexivity.
  - apply ref_endCompetition_spec.
Qed.

Print Assumptions ref_lifecycle_is_model.
Print Assumptions ref_step_is_step.
