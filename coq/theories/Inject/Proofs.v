(* Proofs about the injection model (Inject/Model.v), for every robot
   definition: any number of components and autonomous modes, any hints. *)
From Coq Require Import List String Ascii Bool Arith Permutation.
From RV Require Import Inject.Model.
Import ListNotations.
Open Scope string_scope.
Open Scope list_scope.

Arguments prefixed : simpl never.

(* ====================================================================== *)
(* Specification vocabulary (declarative; used by Properties/C08.v)        *)
(* ====================================================================== *)

(* the object a request for [n] of the target called [cname] resolves to:
   the entry under the same name, else the one under "<cname>_<n>" *)
Definition pick (inj : imap) (cname n : name) : value :=
  match get inj n with
  | Some o => Some o
  | None => get inj (prefixed cname n)
  end.

(* public, non-method, non-descriptor robot attributes *)
Definition robot_injectables (r : robot) : imap := collect_injectables (r_dir r).

(* the dict after  injectables[m] = component  for each of [cs], in order *)
Definition add_comps (inj : imap) (cs : list (name * compdef)) : imap :=
  fold_left (fun inj cd => (fst cd, Some (comp_obj (snd cd))) :: inj) cs inj.
Definition injectables_with (r : robot) (cs : list (name * compdef)) : imap :=
  add_comps (robot_injectables r) cs.
(* robot attributes and ALL components *)
Definition all_injectables (r : robot) : imap := injectables_with r (components r).

(* the hints of a target that ask for injection: public and not set yet *)
Definition requested (has : name -> bool) (hints : list (name * hint)) : list (name * hint) :=
  filter (fun nh => negb (is_private (fst nh)) && negb (has (fst nh))) hints.

(* everything that receives attribute injection: components, then modes *)
Definition targets (r : robot) : list target :=
  map (fun cd => comp_target (fst cd) (snd cd)) (components r) ++ map mode_target (r_modes r).

Definition typed_hints (l : list (name * hint)) : Prop :=
  forall n h, In (n, h) l -> hint_type h <> None.

(* every annotation that is looked at anywhere in the robot definition is a
   class or an alias of a class *)
Definition all_types (r : robot) : Prop :=
  (forall m, In (m, RNonType) (r_hints r) -> is_private m = true \/ robot_has r m = true) /\
  (forall m d, In (m, RClass d) (r_hints r) ->
     typed_hints (k_init_hints (c_class d)) /\ typed_hints (k_hints (c_class d))) /\
  (forall md, In md (r_modes r) -> typed_hints (m_hints md)).

Lemma typed_hints_by_computation l :
  forallb (fun nh => match hint_type (snd nh) with Some _ => true | None => false end) l = true ->
  typed_hints l.
Proof.
  intros H n h HI. rewrite forallb_forall in H. specialize (H _ HI). simpl in H.
  destruct (hint_type h); [discriminate|discriminate H].
Qed.

(* ====================================================================== *)
(* Generic list facts                                                      *)
(* ====================================================================== *)

Lemma assoc_In {A} n (l : list (name * A)) v : assoc n l = Some v -> In (n, v) l.
Proof.
  induction l as [|[k w] l IH]; simpl; [discriminate|].
  destruct (String.eqb k n) eqn:E.
  - intros H; inversion H; subst. apply String.eqb_eq in E. subst. now left.
  - intros H. right. now apply IH.
Qed.

Lemma assoc_None {A} n (l : list (name * A)) : assoc n l = None <-> ~ In n (map fst l).
Proof.
  induction l as [|[k w] l IH]; simpl.
  - split; [intros _ []|reflexivity].
  - destruct (String.eqb k n) eqn:E.
    + apply String.eqb_eq in E. split; [discriminate|]. intros H. exfalso. apply H. now left.
    + apply String.eqb_neq in E. rewrite IH. split.
      * intros H [H1|H1]; [now apply E|now apply H].
      * intros H H1. apply H. now right.
Qed.

Lemma In_assoc_some {A} n (l : list (name * A)) : In n (map fst l) -> exists v, assoc n l = Some v.
Proof.
  intros H. destruct (assoc n l) eqn:E; [eauto|]. apply assoc_None in E. contradiction.
Qed.

Lemma assoc_NoDup_In {A} n (v : A) l : NoDup (map fst l) -> In (n, v) l -> assoc n l = Some v.
Proof.
  induction l as [|[k w] l IH]; simpl; [intros _ []|].
  intros ND [H|H].
  - inversion H; subst. now rewrite String.eqb_refl.
  - inversion ND as [|? ? Hn ND']; subst.
    destruct (String.eqb k n) eqn:E.
    + apply String.eqb_eq in E. subst. exfalso. apply Hn.
      change n with (fst (n, v)). now apply in_map.
    + now apply IH.
Qed.

Lemma assoc_perm {A} n (l l' : list (name * A)) :
  Permutation l l' -> NoDup (map fst l) -> assoc n l = assoc n l'.
Proof.
  induction 1 as [|[k v] l l' HP IH|[k1 v1] [k2 v2] l|l l' l'' HP1 IH1 HP2 IH2]; intros ND.
  - reflexivity.
  - simpl. inversion ND; subst. now rewrite IH.
  - simpl. simpl in ND. inversion ND as [|? ? Hn ND']; subst.
    destruct (String.eqb k1 n) eqn:E1, (String.eqb k2 n) eqn:E2; try reflexivity.
    apply String.eqb_eq in E1, E2. subst. exfalso. apply Hn. now left.
  - rewrite IH1 by assumption. apply IH2.
    eapply Permutation_NoDup; [|exact ND]. now apply Permutation_map.
Qed.

Lemma Forall2_compose {A B C} (P : A -> B -> Prop) (Q : B -> C -> Prop) l1 l2 l3 :
  Forall2 P l1 l2 -> Forall2 Q l2 l3 ->
  Forall2 (fun a c => exists b, P a b /\ Q b c) l1 l3.
Proof.
  intros H. revert l3. induction H; intros l3 HQ; inversion HQ; subst; constructor; eauto.
Qed.

Lemma Forall2_impl {A B} (P Q : A -> B -> Prop) l1 l2 :
  (forall a b, P a b -> Q a b) -> Forall2 P l1 l2 -> Forall2 Q l1 l2.
Proof. intros H F. induction F; constructor; auto. Qed.

Lemma Forall2_In_l {A B} (P : A -> B -> Prop) l1 l2 a :
  Forall2 P l1 l2 -> In a l1 -> exists b, In b l2 /\ P a b.
Proof.
  induction 1; intros HI; [destruct HI|].
  destruct HI as [->|HI]; [eexists; split; [now left|eassumption]|].
  destruct (IHForall2 HI) as (b & ? & ?). exists b. split; [now right|assumption].
Qed.

Lemma Forall2_In_r {A B} (P : A -> B -> Prop) l1 l2 b :
  Forall2 P l1 l2 -> In b l2 -> exists a, In a l1 /\ P a b.
Proof.
  induction 1; intros HI; [destruct HI|].
  destruct HI as [->|HI]; [eexists; split; [now left|eassumption]|].
  destruct (IHForall2 HI) as (a & ? & ?). exists a. split; [now right|assumption].
Qed.

Lemma Forall2_map_eq {A B C} (f : A -> C) (g : B -> C) l1 l2 :
  Forall2 (fun a b => f a = g b) l1 l2 -> map f l1 = map g l2.
Proof. induction 1; simpl; congruence. Qed.

Lemma Forall2_is_map {A B} (f : A -> B) l1 l2 :
  Forall2 (fun a b => b = f a) l1 l2 -> l2 = map f l1.
Proof. induction 1; simpl; congruence. Qed.

Lemma NoDup_map_inj {A B} (f : A -> B) l a b :
  NoDup (map f l) -> In a l -> In b l -> f a = f b -> a = b.
Proof.
  induction l as [|x l IH]; simpl; [intros _ []|].
  intros ND Ha Hb E. inversion ND as [|? ? Hn ND']; subst.
  destruct Ha as [->|Ha], Hb as [->|Hb]; auto.
  - exfalso. apply Hn. rewrite E. now apply in_map.
  - exfalso. apply Hn. rewrite <- E. now apply in_map.
Qed.

Lemma tref_eqb_eq a b : tref_eqb a b = true -> a = b.
Proof.
  destruct a, b; simpl; try discriminate; intros H; apply String.eqb_eq in H; now subst.
Qed.

Lemma tref_eqb_refl a : tref_eqb a a = true.
Proof. destruct a; simpl; apply String.eqb_refl. Qed.

Lemma mem_In n l : mem n l = true <-> In n l.
Proof.
  unfold mem. rewrite existsb_exists. split.
  - intros (x & Hx & E). apply String.eqb_eq in E. now subst.
  - intros H. exists n. split; [assumption|apply String.eqb_refl].
Qed.

(* ====================================================================== *)
(* inject.py                                                               *)
(* ====================================================================== *)

Lemma get_requests_attr_ok has hints rq :
  get_requests hints (Some has) = Ok rq ->
  Forall2 (fun nh nT => fst nh = fst nT /\ hint_type (snd nh) = Some (snd nT))
          (requested has hints) rq.
Proof.
  revert rq. induction hints as [|[n h] hints IH]; simpl; intros rq H.
  - inversion H. constructor.
  - unfold requested in *. simpl.
    destruct (is_private n); simpl; [now apply IH|].
    destruct (has n); simpl; [now apply IH|].
    destruct (hint_type h) as [T|] eqn:ET; [|discriminate].
    destruct (get_requests hints (Some has)) as [rq'|e]; [|discriminate].
    inversion H; subst. constructor; [now split|now apply IH].
Qed.

Lemma get_requests_attr_err has hints e :
  get_requests hints (Some has) = Err e ->
  e = EType /\ exists n h, In (n, h) (requested has hints) /\ hint_type h = None.
Proof.
  induction hints as [|[n h] hints IH]; simpl; intros H; [discriminate|].
  unfold requested in *. simpl.
  destruct (is_private n); simpl; [now apply IH|].
  destruct (has n); simpl; [now apply IH|].
  destruct (hint_type h) as [T|] eqn:ET.
  - destruct (get_requests hints (Some has)) as [rq'|e']; [discriminate|].
    inversion H; subst. destruct (IH eq_refl) as (? & n' & h' & ? & ?).
    split; [assumption|]. exists n', h'. split; [now right|assumption].
  - inversion H; subst. split; [reflexivity|]. exists n, h. split; [now left|assumption].
Qed.

Lemma get_requests_ctor_ok hints rq :
  get_requests hints None = Ok rq ->
  Forall2 (fun nh nT => fst nh = fst nT /\ is_private (fst nh) = false
                        /\ hint_type (snd nh) = Some (snd nT)) hints rq.
Proof.
  revert rq. induction hints as [|[n h] hints IH]; simpl; intros rq H.
  - inversion H. constructor.
  - destruct (is_private n) eqn:EP; [discriminate|].
    destruct (hint_type h) as [T|] eqn:ET; [|discriminate].
    destruct (get_requests hints None) as [rq'|e]; [|discriminate].
    inversion H; subst. constructor; [now repeat split|now apply IH].
Qed.

Lemma get_requests_ctor_err hints e :
  get_requests hints None = Err e ->
  exists n h, In (n, h) hints /\
    ((is_private n = true /\ e = EInject) \/ (hint_type h = None /\ e = EType)).
Proof.
  induction hints as [|[n h] hints IH]; simpl; intros H; [discriminate|].
  destruct (is_private n) eqn:EP.
  - inversion H; subst. exists n, h. split; [now left|]. left. now split.
  - destruct (hint_type h) as [T|] eqn:ET.
    + destruct (get_requests hints None) as [rq'|e']; [discriminate|].
      inversion H; subst. destruct (IH eq_refl) as (n' & h' & ? & ?).
      exists n', h'. split; [now right|assumption].
    + inversion H; subst. exists n, h. split; [now left|]. right. now split.
Qed.

Section WithSubclass.
Variable subclass : cls -> cls -> bool.

(* [o] is what the request (n : T) of target [c] gets, and it passes isinstance *)
Definition fills (inj : imap) (c : name) (n : name) (T : cls) (o : obj) : Prop :=
  pick inj c n = Some o /\ subclass (ocls o) T = true.

(* no object under either name, or one that is not an instance of T *)
Definition unfillable (inj : imap) (c : name) (n : name) (T : cls) : Prop :=
  forall o, pick inj c n = Some o -> subclass (ocls o) T = false.

(* the annotation is not a class (TypeError), or the request is unfillable *)
Definition request_fails (inj : imap) (c : name) (n : name) (h : hint) : Prop :=
  match hint_type h with
  | None => True
  | Some T => unfillable inj c n T
  end.

Lemma fills_not_fails inj c n h T o :
  hint_type h = Some T -> fills inj c n T o -> request_fails inj c n h -> False.
Proof.
  intros ET [Hp Hs] Hf. unfold request_fails in Hf. rewrite ET in Hf.
  specialize (Hf o Hp). congruence.
Qed.

Lemma find_injections_ok rq inj c upd :
  find_injections subclass rq inj c = Ok upd ->
  Forall2 (fun nT no => fst nT = fst no /\ fills inj c (fst nT) (snd nT) (snd no)) rq upd.
Proof.
  revert upd. induction rq as [|[n T] rq IH]; simpl; intros upd H.
  - inversion H. constructor.
  - change (match get inj n with Some o => Some o | None => get inj (prefixed c n) end)
      with (pick inj c n) in H.
    destruct (pick inj c n) as [o|] eqn:EP; [|discriminate].
    destruct (subclass (ocls o) T) eqn:ES; [|discriminate].
    destruct (find_injections subclass rq inj c) as [upd'|e]; [|discriminate].
    inversion H; subst. constructor; [|now apply IH].
    simpl. split; [reflexivity|]. split; assumption.
Qed.

Lemma find_injections_err rq inj c e :
  find_injections subclass rq inj c = Err e ->
  e = EInject /\ exists n T, In (n, T) rq /\ unfillable inj c n T.
Proof.
  induction rq as [|[n T] rq IH]; simpl; intros H; [discriminate|].
  change (match get inj n with Some o => Some o | None => get inj (prefixed c n) end)
    with (pick inj c n) in H.
  destruct (pick inj c n) as [o|] eqn:EP.
  - destruct (subclass (ocls o) T) eqn:ES.
    + destruct (find_injections subclass rq inj c) as [upd'|e']; [discriminate|].
      inversion H; subst. destruct (IH eq_refl) as (? & n' & T' & ? & ?).
      split; [assumption|]. exists n', T'. split; [now right|assumption].
    + inversion H; subst. split; [reflexivity|]. exists n, T. split; [now left|].
      intros o' Ho'. rewrite EP in Ho'. inversion Ho'; subst. assumption.
  - inversion H; subst. split; [reflexivity|]. exists n, T. split; [now left|].
    intros o' Ho'. rewrite EP in Ho'. discriminate.
Qed.

Lemma find_injections_ext rq inj inj' c :
  (forall k, get inj k = get inj' k) ->
  find_injections subclass rq inj c = find_injections subclass rq inj' c.
Proof.
  intros E. induction rq as [|[n T] rq IH]; simpl; [reflexivity|].
  rewrite !E, IH. reflexivity.
Qed.

(* ---- _setup_vars ---- *)
Definition injected_ok (inj : imap) (c : name) (nh : name * hint) (no : name * obj) : Prop :=
  fst nh = fst no /\ exists T, hint_type (snd nh) = Some T /\ fills inj c (fst nh) T (snd no).

Lemma setup_vars_ok tg inj upd :
  setup_vars subclass tg inj = Ok upd ->
  Forall2 (injected_ok inj (tname (t_ref tg))) (requested (t_has tg) (t_hints tg)) upd.
Proof.
  unfold setup_vars. destruct (get_requests (t_hints tg) (Some (t_has tg))) as [rq|e] eqn:ER;
    [|discriminate].
  intros HF. apply get_requests_attr_ok in ER. apply find_injections_ok in HF.
  eapply Forall2_impl; [|exact (Forall2_compose _ _ _ _ _ ER HF)].
  intros [n h] [n' o] ([n'' T] & (E1 & E2) & (E3 & E4)). simpl in *. subst.
  split; [reflexivity|]. exists T. split; assumption.
Qed.

Lemma setup_vars_err tg inj e :
  setup_vars subclass tg inj = Err e ->
  exists n h, In (n, h) (requested (t_has tg) (t_hints tg)) /\
    request_fails inj (tname (t_ref tg)) n h /\
    (e = EInject \/ (e = EType /\ hint_type h = None)).
Proof.
  unfold setup_vars. destruct (get_requests (t_hints tg) (Some (t_has tg))) as [rq|e'] eqn:ER.
  - intros HF. apply get_requests_attr_ok in ER. apply find_injections_err in HF.
    destruct HF as (-> & n & T & HI & HU).
    destruct (Forall2_In_r _ _ _ _ ER HI) as ([n' h] & HI' & E1 & E2). simpl in *. subst.
    exists n, h. split; [assumption|]. split; [|now left].
    unfold request_fails. rewrite E2. assumption.
  - intros H. inversion H; subst. apply get_requests_attr_err in ER.
    destruct ER as (-> & n & h & HI & EN). exists n, h. split; [assumption|].
    split; [unfold request_fails; now rewrite EN|]. right. now split.
Qed.

Lemma setup_vars_ext tg inj inj' :
  (forall k, get inj k = get inj' k) ->
  setup_vars subclass tg inj = setup_vars subclass tg inj'.
Proof.
  intros E. unfold setup_vars. destruct (get_requests _ _); [|reflexivity].
  now apply find_injections_ext.
Qed.

(* ---- _create_component ---- *)
Definition ctor_arg_ok (inj : imap) (c : name) (ph : name * hint) (po : name * obj) : Prop :=
  fst ph = fst po /\ is_private (fst ph) = false /\
  exists T, hint_type (snd ph) = Some T /\ fills inj c (fst ph) T (snd po).

Lemma create_component_ok m d inj kw :
  create_component subclass m d inj = Ok kw ->
  Forall2 (ctor_arg_ok inj m) (k_init_hints (c_class d)) kw.
Proof.
  unfold create_component.
  destruct (get_requests (k_init_hints (c_class d)) None) as [rq|e] eqn:ER; [|discriminate].
  intros HF. apply get_requests_ctor_ok in ER. apply find_injections_ok in HF.
  eapply Forall2_impl; [|exact (Forall2_compose _ _ _ _ _ ER HF)].
  intros [n h] [n' o] ([n'' T] & (E1 & E2 & E3) & (E4 & E5)). simpl in *. subst.
  split; [reflexivity|]. split; [assumption|]. exists T. split; assumption.
Qed.

Lemma create_component_err m d inj e :
  create_component subclass m d inj = Err e ->
  exists p h, In (p, h) (k_init_hints (c_class d)) /\
    (is_private p = true \/ request_fails inj m p h) /\
    (e = EInject \/ (e = EType /\ hint_type h = None)).
Proof.
  unfold create_component.
  destruct (get_requests (k_init_hints (c_class d)) None) as [rq|e'] eqn:ER.
  - intros HF. apply get_requests_ctor_ok in ER. apply find_injections_err in HF.
    destruct HF as (-> & n & T & HI & HU).
    destruct (Forall2_In_r _ _ _ _ ER HI) as ([n' h] & HI' & E1 & E2 & E3). simpl in *. subst.
    exists n, h. split; [assumption|]. split; [|now left].
    right. unfold request_fails. rewrite E3. assumption.
  - intros H. inversion H; subst. apply get_requests_ctor_err in ER.
    destruct ER as (n & h & HI & [[EP ->]|[EN ->]]); exists n, h; (split; [assumption|]).
    + split; [now left|now left].
    + split; [right; unfold request_fails; now rewrite EN|]. right. now split.
Qed.

Lemma create_component_nil m d inj :
  k_init_hints (c_class d) = [] -> create_component subclass m d inj = Ok [].
Proof. intros E. unfold create_component. rewrite E. reflexivity. Qed.

(* ====================================================================== *)
(* first loop: construction                                               *)
(* ====================================================================== *)

Definition comps_of (r : robot) (hints : list (name * rhint)) : list (name * compdef) :=
  flat_map (fun mh =>
    if is_private (fst mh) || robot_has r (fst mh) then []
    else match snd mh with RClass d => [(fst mh, d)] | RNonType => [] end) hints.

Lemma components_comps_of r : components r = comps_of r (r_hints r).
Proof. reflexivity. Qed.

(* the created components, one by one, each constructed from the map as it
   was at that moment *)
Fixpoint ctor_chain (inj : imap) (cds : list (name * compdef)) (cs : list created) : Prop :=
  match cds, cs with
  | [], [] => True
  | (c, d) :: cds', cr :: cs' =>
    cr_name cr = c /\ cr_def cr = d /\
    create_component subclass c d inj = Ok (cr_kwargs cr) /\
    ctor_chain ((c, Some (comp_obj d)) :: inj) cds' cs'
  | _, _ => False
  end.

Lemma construct_ok r hints inj cs inj' :
  construct subclass r hints inj = Ok (cs, inj') ->
  ctor_chain inj (comps_of r hints) cs /\ inj' = add_comps inj (comps_of r hints).
Proof.
  revert inj cs inj'. induction hints as [|[m h] hints IH]; simpl; intros inj cs inj' H.
  - inversion H; subst. split; [exact I|reflexivity].
  - unfold comps_of in *. simpl.
    destruct (is_private m); simpl; [now apply IH|].
    destruct (robot_has r m); simpl; [now apply IH|].
    destruct h as [d|]; [|discriminate].
    destruct (create_component subclass m d inj) as [kw|e] eqn:EC; [|discriminate].
    destruct (construct subclass r hints ((m, Some (comp_obj d)) :: inj)) as [[cs0 inj0]|e] eqn:ER;
      [|discriminate].
    inversion H; subst. destruct (IH _ _ _ ER) as [HC HI].
    split; [|exact HI]. simpl. repeat split; assumption.
Qed.

Lemma construct_ok_no_nontype r hints inj cs inj' :
  construct subclass r hints inj = Ok (cs, inj') ->
  forall m, In (m, RNonType) hints -> is_private m = true \/ robot_has r m = true.
Proof.
  revert inj cs inj'. induction hints as [|[m h] hints IH]; simpl; intros inj cs inj' H m0 HI;
    [destruct HI|].
  destruct (is_private m) eqn:EP.
  - destruct HI as [HI|HI]; [inversion HI; subst; now left|eauto].
  - destruct (robot_has r m) eqn:EH.
    + destruct HI as [HI|HI]; [inversion HI; subst; now right|eauto].
    + destruct h as [d|]; [|discriminate].
      destruct (create_component subclass m d inj) as [kw|e]; [|discriminate].
      destruct (construct subclass r hints ((m, Some (comp_obj d)) :: inj)) as [[cs0 inj0]|e] eqn:ER;
        [|discriminate].
      destruct HI as [HI|HI]; [discriminate|eauto].
Qed.

Lemma construct_err r hints inj e :
  construct subclass r hints inj = Err e ->
  (e = EType /\ exists m, In (m, RNonType) hints /\ is_private m = false /\ robot_has r m = false)
  \/ (exists before c d after, comps_of r hints = before ++ (c, d) :: after /\
        create_component subclass c d (add_comps inj before) = Err e).
Proof.
  revert inj. induction hints as [|[m h] hints IH]; simpl; intros inj H; [discriminate|].
  unfold comps_of in *. simpl.
  destruct (is_private m) eqn:EP; simpl.
  { destruct (IH _ H) as [(-> & m' & ? & ? & ?)|?]; [left|right; assumption].
    split; [reflexivity|]. exists m'. split; [now right|now split]. }
  destruct (robot_has r m) eqn:EH; simpl.
  { destruct (IH _ H) as [(-> & m' & ? & ? & ?)|?]; [left|right; assumption].
    split; [reflexivity|]. exists m'. split; [now right|now split]. }
  destruct h as [d|].
  - destruct (create_component subclass m d inj) as [kw|e'] eqn:EC.
    + destruct (construct subclass r hints ((m, Some (comp_obj d)) :: inj)) as [[cs0 inj0]|e'] eqn:ER;
        [discriminate|].
      inversion H; subst.
      destruct (IH _ ER) as [(-> & m' & ? & ? & ?)|(before & c & d' & after & E1 & E2)].
      * left. split; [reflexivity|]. exists m'. split; [now right|now split].
      * right. exists ((m, d) :: before), c, d', after. split; [simpl; now rewrite E1|exact E2].
    + inversion H; subst. right. eexists [], m, d, _. split; [reflexivity|exact EC].
  - inversion H; subst. left. split; [reflexivity|]. exists m. split; [now left|now split].
Qed.

Lemma ctor_chain_names inj cds cs :
  ctor_chain inj cds cs -> map (fun c => (cr_name c, cr_def c)) cs = cds.
Proof.
  revert inj cs. induction cds as [|[c d] cds IH]; intros inj [|cr cs]; simpl; try tauto.
  intros (E1 & E2 & _ & H). apply IH in H. now rewrite E1, E2, H.
Qed.

Lemma ctor_chain_split inj before c d after cs :
  ctor_chain inj (before ++ (c, d) :: after) cs ->
  exists kw, nth_error cs (List.length before) = Some {| cr_name := c; cr_def := d; cr_kwargs := kw |}
    /\ create_component subclass c d (add_comps inj before) = Ok kw.
Proof.
  revert inj cs. induction before as [|[c0 d0] before IH]; intros inj [|cr cs]; simpl; try tauto.
  - intros (E1 & E2 & E3 & _). exists (cr_kwargs cr). split; [|assumption].
    destruct cr; simpl in *; subst; reflexivity.
  - intros (_ & _ & _ & H). apply IH in H. exact H.
Qed.

(* ====================================================================== *)
(* second loop: attribute injection                                       *)
(* ====================================================================== *)

Lemma inject_all_ok tgs inj ups :
  inject_all subclass tgs inj = Ok ups ->
  Forall2 (fun tg u => fst u = t_ref tg /\ setup_vars subclass tg inj = Ok (snd u)) tgs ups.
Proof.
  revert ups. induction tgs as [|tg tgs IH]; simpl; intros ups H.
  - inversion H. constructor.
  - destruct (setup_vars subclass tg inj) as [upd|e] eqn:ES; [|discriminate].
    destruct (inject_all subclass tgs inj) as [ups'|e]; [|discriminate].
    inversion H; subst. constructor; [now split|now apply IH].
Qed.

Lemma inject_all_err tgs inj e :
  inject_all subclass tgs inj = Err e ->
  exists tg, In tg tgs /\ setup_vars subclass tg inj = Err e.
Proof.
  induction tgs as [|tg tgs IH]; simpl; intros H; [discriminate|].
  destruct (setup_vars subclass tg inj) as [upd|e'] eqn:ES.
  - destruct (inject_all subclass tgs inj) as [ups'|e']; [discriminate|].
    inversion H; subst. destruct (IH eq_refl) as (tg' & ? & ?). exists tg'. split; [now right|assumption].
  - inversion H; subst. exists tg. split; [now left|assumption].
Qed.

Lemma inject_all_complete tgs inj :
  (forall tg, In tg tgs -> exists u, setup_vars subclass tg inj = Ok u) ->
  exists ups, inject_all subclass tgs inj = Ok ups.
Proof.
  induction tgs as [|tg tgs IH]; simpl; intros H; [eauto|].
  destruct (H tg (or_introl eq_refl)) as [u ->].
  destruct IH as [ups ->]; [intros; apply H; now right|]. eauto.
Qed.

(* ====================================================================== *)
(* startup                                                                 *)
(* ====================================================================== *)

Lemma targets_of_created r cs :
  map (fun c => (cr_name c, cr_def c)) cs = components r ->
  map (fun c => comp_target (cr_name c) (cr_def c)) cs ++ map mode_target (r_modes r) = targets r.
Proof.
  intros E. unfold targets. rewrite <- E, map_map. reflexivity.
Qed.

Lemma startup_ok r s :
  startup subclass r = Ok s ->
  map (fun c => (cr_name c, cr_def c)) (st_comps s) = components r /\
  ctor_chain (robot_injectables r) (components r) (st_comps s) /\
  Forall2 (fun tg u => fst u = t_ref tg /\ setup_vars subclass tg (all_injectables r) = Ok (snd u))
          (targets r) (st_updates s).
Proof.
  unfold startup.
  destruct (construct subclass r (r_hints r) (collect_injectables (r_dir r))) as [[cs inj]|e] eqn:EC;
    [|discriminate].
  destruct (inject_all subclass _ inj) as [ups|e] eqn:EI; [|discriminate].
  intros H. inversion H; subst. simpl.
  apply construct_ok in EC. destruct EC as [HC ->].
  pose proof (ctor_chain_names _ _ _ HC) as HN.
  split; [exact HN|]. split; [exact HC|].
  apply inject_all_ok in EI. rewrite (targets_of_created r cs HN) in EI. exact EI.
Qed.

(* ---- the trace ---- *)
Lemma before_first_setup_app_nosetup a b :
  (forall e, In e a -> match e with EvSetup _ => False | _ => True end) ->
  before_first_setup (a ++ b) = a ++ before_first_setup b.
Proof.
  induction a as [|e a IH]; simpl; intros H; [reflexivity|].
  pose proof (H e (or_introl eq_refl)) as He. destruct e; try contradiction;
    (rewrite IH; [reflexivity|intros; apply H; now right]).
Qed.

Lemma before_first_setup_setups {A} (f : A -> tref) l rest :
  before_first_setup (map (fun x => EvSetup (f x)) l ++ rest) =
  match l with [] => before_first_setup rest | _ => [] end.
Proof. destruct l; reflexivity. Qed.

Lemma before_first_setup_trace r s :
  before_first_setup (trace_of r s) =
  map (fun c => EvCtor (cr_name c) (cr_kwargs c)) (st_comps s)
  ++ map (fun u => EvInject (fst u) (snd u)) (st_updates s).
Proof.
  unfold trace_of.
  rewrite before_first_setup_app_nosetup.
  2:{ intros e HI. apply in_map_iff in HI. destruct HI as (? & <- & _). exact I. }
  f_equal.
  rewrite before_first_setup_app_nosetup.
  2:{ intros e HI. apply in_map_iff in HI. destruct HI as (? & <- & _). exact I. }
  rewrite <- (app_nil_r (map _ (st_updates s))) at 2. f_equal.
  rewrite before_first_setup_setups.
  destruct (filter _ (st_comps s)); [|reflexivity].
  rewrite <- (app_nil_r (map _ (filter m_setup (r_modes r)))).
  rewrite before_first_setup_setups. destruct (filter m_setup (r_modes r)); reflexivity.
Qed.

(* every injection event of a successful startup precedes the first setup() *)
Lemma inject_before_setup r s t upd :
  In (EvInject t upd) (trace_of r s) -> In (EvInject t upd) (before_first_setup (trace_of r s)).
Proof.
  rewrite before_first_setup_trace. unfold trace_of. rewrite !in_app_iff.
  intros [H|[H|[H|H]]]; auto;
    apply in_map_iff in H; destruct H as (? & H & _); discriminate.
Qed.

Lemma ctor_before_setup r s c kw :
  In (EvCtor c kw) (trace_of r s) -> In (EvCtor c kw) (before_first_setup (trace_of r s)).
Proof.
  rewrite before_first_setup_trace. unfold trace_of. rewrite !in_app_iff.
  intros [H|[H|[H|H]]]; auto;
    apply in_map_iff in H; destruct H as (? & H & _); discriminate.
Qed.

(* all the EvInject events of a trace write what [pick] says *)
Definition sound_events (inj : imap) (evs : list event) : Prop :=
  forall t upd n o, In (EvInject t upd) evs -> In (n, o) upd -> pick inj (tname t) n = Some o.

Lemma injected_sound inj evs t n :
  sound_events inj evs ->
  (exists upd, In (EvInject t upd) evs /\ In n (map fst upd)) ->
  exists o, injected evs t n = Some o /\ pick inj (tname t) n = Some o.
Proof.
  induction evs as [|e evs IH]; intros HS (upd & HI & Hn); [destruct HI|].
  assert (HS' : sound_events inj evs) by (intros t' u' n' o' H1 H2; eapply HS; [right; exact H1|exact H2]).
  destruct e as [c kw|t' upd'|t']; simpl.
  - apply IH; [exact HS'|]. destruct HI as [HI|HI]; [discriminate|eauto].
  - destruct (tref_eqb t' t) eqn:ET.
    + apply tref_eqb_eq in ET. subst t'.
      destruct (assoc n upd') as [o|] eqn:EA.
      * exists o. split; [reflexivity|]. apply assoc_In in EA. eapply HS; [left; reflexivity|exact EA].
      * apply IH; [exact HS'|]. destruct HI as [HI|HI]; [|eauto].
        inversion HI; subst. apply assoc_None in EA. contradiction.
    + apply IH; [exact HS'|]. destruct HI as [HI|HI]; [|eauto].
      inversion HI; subst. rewrite tref_eqb_refl in ET. discriminate.
  - apply IH; [exact HS'|]. destruct HI as [HI|HI]; [discriminate|eauto].
Qed.

Lemma injected_none evs t n :
  (forall upd, In (EvInject t upd) evs -> ~ In n (map fst upd)) -> injected evs t n = None.
Proof.
  induction evs as [|e evs IH]; intros H; [reflexivity|].
  destruct e as [c kw|t' upd'|t']; simpl; try (apply IH; intros; apply H; now right).
  destruct (tref_eqb t' t) eqn:ET.
  - apply tref_eqb_eq in ET. subst t'.
    destruct (assoc n upd') as [o|] eqn:EA.
    + exfalso. apply (H upd' (or_introl eq_refl)). apply assoc_In in EA.
      change n with (fst (n, o)). now apply in_map.
    + apply IH. intros; apply H; now right.
  - apply IH. intros; apply H; now right.
Qed.

Lemma update_events_sound r s :
  startup subclass r = Ok s ->
  forall t upd, In (t, upd) (st_updates s) ->
  exists tg, In tg (targets r) /\ t_ref tg = t /\
    Forall2 (injected_ok (all_injectables r) (tname t)) (requested (t_has tg) (t_hints tg)) upd.
Proof.
  intros HS t upd HI. destruct (startup_ok _ _ HS) as (_ & _ & HF).
  destruct (Forall2_In_r _ _ _ _ HF HI) as (tg & Htg & E1 & E2). simpl in *. subst t.
  exists tg. split; [assumption|]. split; [reflexivity|]. now apply setup_vars_ok.
Qed.

Lemma trace_inject_events r s t upd :
  In (EvInject t upd) (trace_of r s) <-> In (t, upd) (st_updates s).
Proof.
  unfold trace_of. rewrite !in_app_iff. split.
  - intros [H|[H|[H|H]]]; apply in_map_iff in H; destruct H as (x & H & HI); try discriminate.
    inversion H; subst. now destruct x.
  - intros H. right. left. apply in_map_iff. exists (t, upd). split; [reflexivity|assumption].
Qed.

Lemma trace_sound r s :
  startup subclass r = Ok s -> sound_events (all_injectables r) (trace_of r s).
Proof.
  intros HS t upd n o HI Hn. apply trace_inject_events in HI.
  destruct (update_events_sound _ _ HS _ _ HI) as (tg & _ & _ & HF).
  destruct (Forall2_In_r _ _ _ _ HF Hn) as ([n' h] & _ & E & T & _ & Hp & _).
  simpl in *. subst. exact Hp.
Qed.

Lemma sound_events_incl inj evs evs' :
  (forall e, In e evs' -> In e evs) -> sound_events inj evs -> sound_events inj evs'.
Proof. intros HI HS t upd n o H1 H2. eapply HS; eauto. Qed.

Lemma before_first_setup_incl tr e : In e (before_first_setup tr) -> In e tr.
Proof.
  induction tr as [|x tr IH]; simpl; [tauto|].
  destruct x; simpl; try tauto; intros [H|H]; auto.
Qed.

(* ---- C08_attr_exact, generic over targets ---- *)
Theorem attr_exact r s :
  startup subclass r = Ok s ->
  forall tg n h, In tg (targets r) -> In (n, h) (t_hints tg) ->
    is_private n = false -> t_has tg n = false ->
    exists T o, hint_type h = Some T /\
      pick (all_injectables r) (tname (t_ref tg)) n = Some o /\
      subclass (ocls o) T = true /\
      attr_at r (before_first_setup (trace_of r s)) (t_ref tg) n = Is (Some o) /\
      attr_at r (trace_of r s) (t_ref tg) n = Is (Some o).
Proof.
  intros HS tg n h Htg Hh HP HH.
  destruct (startup_ok _ _ HS) as (_ & _ & HF).
  destruct (Forall2_In_l _ _ _ _ HF Htg) as ([t upd] & HU & E1 & E2). simpl in *. subst t.
  apply setup_vars_ok in E2.
  assert (HR : In (n, h) (requested (t_has tg) (t_hints tg))).
  { unfold requested. apply filter_In. split; [assumption|]. simpl. now rewrite HP, HH. }
  destruct (Forall2_In_l _ _ _ _ E2 HR) as ([n' o] & Hno & E & T & ET & Hp & Hs).
  simpl in *. subst n'. exists T, o. split; [assumption|]. split; [assumption|]. split; [assumption|].
  assert (Hev : In (EvInject (t_ref tg) upd) (trace_of r s)) by now apply trace_inject_events.
  assert (Hn : In n (map fst upd)) by (change n with (fst (n, o)); now apply in_map).
  pose proof (trace_sound _ _ HS) as Hsound.
  split.
  - destruct (injected_sound (all_injectables r) (before_first_setup (trace_of r s)) (t_ref tg) n)
      as (o' & Ei & Ep).
    + eapply sound_events_incl; [|exact Hsound]. apply before_first_setup_incl.
    + exists upd. split; [now apply inject_before_setup|assumption].
    + unfold attr_at. rewrite Ei. congruence.
  - destruct (injected_sound (all_injectables r) (trace_of r s) (t_ref tg) n) as (o' & Ei & Ep).
    + exact Hsound.
    + exists upd. split; assumption.
    + unfold attr_at. rewrite Ei. congruence.
Qed.

(* ---- C08_untouched ---- *)
Theorem updates_exact r s :
  startup subclass r = Ok s ->
  Forall2 (fun tg u => fst u = t_ref tg /\
             map fst (snd u) = map fst (requested (t_has tg) (t_hints tg)))
          (targets r) (st_updates s).
Proof.
  intros HS. destruct (startup_ok _ _ HS) as (_ & _ & HF).
  eapply Forall2_impl; [|exact HF]. intros tg [t upd] [E1 E2]. simpl in *.
  split; [assumption|]. apply setup_vars_ok in E2. symmetry.
  apply Forall2_map_eq. eapply Forall2_impl; [|exact E2]. intros ? ? [E _]. exact E.
Qed.

Lemma requested_In has hints n h :
  In (n, h) (requested has hints) <-> In (n, h) hints /\ is_private n = false /\ has n = false.
Proof.
  unfold requested. rewrite filter_In. simpl.
  rewrite andb_true_iff, !negb_true_iff. tauto.
Qed.

Theorem update_names r s t upd n o :
  startup subclass r = Ok s ->
  In (EvInject t upd) (trace_of r s) -> In (n, o) upd ->
  is_private n = false /\
  exists tg, In tg (targets r) /\ t_ref tg = t /\ t_has tg n = false /\ In n (map fst (t_hints tg)).
Proof.
  intros HS HI Hn. apply trace_inject_events in HI.
  destruct (update_events_sound _ _ HS _ _ HI) as (tg & Htg & Et & HF).
  destruct (Forall2_In_r _ _ _ _ HF Hn) as ([n' h] & HR & E & _). simpl in E. subst n'.
  apply requested_In in HR. destruct HR as (Hh & HP & HH).
  split; [assumption|]. exists tg. repeat split; try assumption.
  change n with (fst (n, h)). now apply in_map.
Qed.

Theorem private_untouched r s t n :
  startup subclass r = Ok s -> is_private n = true ->
  attr_at r (trace_of r s) t n = initial_attr r (trace_of r s) t n.
Proof.
  intros HS HP. unfold attr_at. rewrite injected_none; [reflexivity|].
  intros upd HI Hn. apply in_map_iff in Hn. destruct Hn as ([n' o] & E & Hn). simpl in E. subst n'.
  destruct (update_names _ _ _ _ _ _ HS HI Hn) as [HP' _]. congruence.
Qed.

Theorem preset_untouched r s tg n :
  startup subclass r = Ok s -> NoDup (map t_ref (targets r)) ->
  In tg (targets r) -> t_has tg n = true ->
  attr_at r (trace_of r s) (t_ref tg) n = initial_attr r (trace_of r s) (t_ref tg) n.
Proof.
  intros HS ND Htg HH. unfold attr_at. rewrite injected_none; [reflexivity|].
  intros upd HI Hn. apply in_map_iff in Hn. destruct Hn as ([n' o] & E & Hn). simpl in E. subst n'.
  destruct (update_names _ _ _ _ _ _ HS HI Hn) as (_ & tg' & Htg' & Et & HH' & _).
  assert (tg' = tg) by (eapply NoDup_map_inj; eauto). subst. congruence.
Qed.

(* ---- C08_ctor ---- *)
Theorem ctor_exact r s :
  startup subclass r = Ok s ->
  map (fun c => (cr_name c, cr_def c)) (st_comps s) = components r /\
  forall before c d after, components r = before ++ (c, d) :: after ->
    exists kw,
      nth_error (st_comps s) (List.length before) = Some {| cr_name := c; cr_def := d; cr_kwargs := kw |} /\
      Forall2 (ctor_arg_ok (injectables_with r before) c) (k_init_hints (c_class d)) kw.
Proof.
  intros HS. destruct (startup_ok _ _ HS) as (HN & HC & _). split; [exact HN|].
  intros before c d after E. rewrite E in HC.
  destruct (ctor_chain_split _ _ _ _ _ _ HC) as (kw & H1 & H2).
  exists kw. split; [exact H1|]. now apply create_component_ok.
Qed.

Lemma get_add_comps_sources inj cs k o :
  get (add_comps inj cs) k = Some o ->
  get inj k = Some o \/ exists d, In (k, d) cs /\ o = comp_obj d.
Proof.
  revert inj. induction cs as [|[c d] cs IH]; simpl; intros inj H; [now left|].
  apply IH in H. destruct H as [H|(d' & HI & E)].
  - simpl in H. destruct (String.eqb c k) eqn:EK.
    + apply String.eqb_eq in EK. subst. inversion H; subst. right. exists d. split; [now left|reflexivity].
    + now left.
  - right. exists d'. split; [now right|assumption].
Qed.

Theorem ctor_sources r before c n o :
  pick (injectables_with r before) c n = Some o ->
  exists k, (k = n \/ k = prefixed c n) /\
    (get (robot_injectables r) k = Some o \/ exists d, In (k, d) before /\ o = comp_obj d).
Proof.
  unfold pick, injectables_with. intros H.
  destruct (get (add_comps (robot_injectables r) before) n) as [o'|] eqn:E.
  - inversion H; subst. exists n. split; [now left|]. now apply get_add_comps_sources.
  - exists (prefixed c n). split; [now right|]. now apply get_add_comps_sources.
Qed.

(* ---- C08_fail_iff ---- *)
Definition robot_fault (r : robot) : Prop :=
  exists m, In (m, RNonType) (r_hints r) /\ is_private m = false /\ robot_has r m = false.

Definition ctor_fault (r : robot) : Prop :=
  exists before c d after p h,
    components r = before ++ (c, d) :: after /\ In (p, h) (k_init_hints (c_class d)) /\
    (is_private p = true \/ request_fails (injectables_with r before) c p h).

Definition attr_fault (r : robot) : Prop :=
  exists tg n h, In tg (targets r) /\ In (n, h) (t_hints tg) /\
    is_private n = false /\ t_has tg n = false /\
    request_fails (all_injectables r) (tname (t_ref tg)) n h.

Lemma startup_err r e :
  startup subclass r = Err e ->
  (e = EType /\ robot_fault r) \/
  (exists before c d after p h,
     components r = before ++ (c, d) :: after /\ In (p, h) (k_init_hints (c_class d)) /\
     (is_private p = true \/ request_fails (injectables_with r before) c p h) /\
     (e = EInject \/ (e = EType /\ hint_type h = None))) \/
  (exists tg n h, In tg (targets r) /\ In (n, h) (requested (t_has tg) (t_hints tg)) /\
     request_fails (all_injectables r) (tname (t_ref tg)) n h /\
     (e = EInject \/ (e = EType /\ hint_type h = None))).
Proof.
  unfold startup.
  destruct (construct subclass r (r_hints r) (collect_injectables (r_dir r))) as [[cs inj]|e'] eqn:EC.
  - destruct (inject_all subclass _ inj) as [ups|e'] eqn:EI; [discriminate|].
    intros H. inversion H; subst. right. right.
    apply construct_ok in EC. destruct EC as [HC ->].
    pose proof (ctor_chain_names _ _ _ HC) as HN.
    rewrite (targets_of_created r cs HN) in EI.
    apply inject_all_err in EI. destruct EI as (tg & Htg & HE).
    apply setup_vars_err in HE. destruct HE as (n & h & ? & ? & ?).
    exists tg, n, h. repeat split; assumption.
  - intros H. inversion H; subst. apply construct_err in EC.
    destruct EC as [(-> & m & ? & ? & ?)|(before & c & d & after & E1 & E2)].
    + left. split; [reflexivity|]. exists m. now repeat split.
    + right. left. apply create_component_err in E2. destruct E2 as (p & h & ? & ? & ?).
      exists before, c, d, after, p, h. repeat split; assumption.
Qed.

Theorem fail_iff r :
  (exists e, startup subclass r = Err e) <-> robot_fault r \/ ctor_fault r \/ attr_fault r.
Proof.
  split.
  - intros [e H]. apply startup_err in H.
    destruct H as [[_ H]|[(before & c & d & after & p & h & ? & ? & ? & _)|(tg & n & h & ? & HR & ? & _)]].
    + now left.
    + right. left. exists before, c, d, after, p, h. now repeat split.
    + right. right. apply requested_In in HR. destruct HR as (? & ? & ?).
      exists tg, n, h. now repeat split.
  - intros HF. destruct (startup subclass r) as [s|e] eqn:HS; [exfalso|eauto].
    destruct HF as [(m & HI & HP & HH)|[(before & c & d & after & p & h & E & HI & HF)|(tg & n & h & Htg & HI & HP & HH & HF)]].
    + unfold startup in HS.
      destruct (construct subclass r (r_hints r) (collect_injectables (r_dir r))) as [[cs inj]|e'] eqn:EC;
        [|discriminate].
      destruct (construct_ok_no_nontype _ _ _ _ _ EC m HI); congruence.
    + destruct (ctor_exact _ _ HS) as [_ HC]. destruct (HC _ _ _ _ E) as (kw & _ & HA).
      destruct (Forall2_In_l _ _ _ _ HA HI) as ([p' o] & _ & _ & HP & T & ET & Hfill). simpl in *.
      destruct HF as [HF|HF]; [congruence|]. eapply fills_not_fails; eassumption.
    + destruct (attr_exact _ _ HS tg n h Htg HI HP HH) as (T & o & ET & Hp & Hs & _).
      eapply fills_not_fails; [exact ET|split; eassumption|exact HF].
Qed.

Lemma components_In r m d : In (m, d) (components r) -> In (m, RClass d) (r_hints r).
Proof.
  unfold components. rewrite in_flat_map. intros ([m' h] & HI & H). simpl in H.
  destruct (is_private m' || robot_has r m'); [destruct H|].
  destruct h; [|destruct H]. destruct H as [H|[]]. inversion H; subst. exact HI.
Qed.

Lemma targets_typed r tg : all_types r -> In tg (targets r) -> typed_hints (t_hints tg).
Proof.
  intros (_ & HC & HM) HI. unfold targets in HI. apply in_app_iff in HI.
  destruct HI as [HI|HI]; apply in_map_iff in HI.
  - destruct HI as ([m d] & <- & HI). simpl. apply components_In in HI. now apply HC in HI.
  - destruct HI as (md & <- & HI). simpl. now apply HM.
Qed.

Theorem error_class r e : all_types r -> startup subclass r = Err e -> e = EInject.
Proof.
  intros HT H. pose proof HT as (HN & HC & HM). apply startup_err in H.
  destruct H as [[_ (m & HI & HP & HH)]|[(before & c & d & after & p & h & E & HI & _ & [->|[_ EN]])|(tg & n & h & Htg & HR & _ & [->|[_ EN]])]];
    try reflexivity; exfalso.
  - destruct (HN m HI); congruence.
  - assert (In (c, d) (components r)) by (rewrite E; apply in_or_app; right; now left).
    apply components_In in H. destruct (HC _ _ H) as [H1 _]. now apply (H1 p h).
  - apply requested_In in HR. destruct HR as (HR & _).
    now apply (targets_typed r tg HT Htg n h).
Qed.

Theorem fail_inject_iff r : all_types r ->
  (startup subclass r = Err EInject <-> ctor_fault r \/ attr_fault r).
Proof.
  intros HT. split.
  - intros H. destruct (proj1 (fail_iff r) (ex_intro _ _ H)) as [(m & HI & HP & HH)|HF]; [|exact HF].
    exfalso. destruct HT as (HN & _). destruct (HN m HI); congruence.
  - intros HF. destruct (proj2 (fail_iff r) (or_intror HF)) as [e He].
    rewrite He. f_equal. now apply error_class with (r := r).
Qed.

(* ---- C08_order_independent ---- *)
Lemma get_add_comps inj cs k :
  NoDup (map fst cs) ->
  get (add_comps inj cs) k =
  match assoc k cs with Some d => Some (comp_obj d) | None => get inj k end.
Proof.
  revert inj. induction cs as [|[c d] cs IH]; simpl; intros inj ND; [reflexivity|].
  inversion ND as [|? ? Hn ND']; subst. rewrite IH by assumption. simpl.
  destruct (String.eqb c k) eqn:EK.
  - apply String.eqb_eq in EK. subst.
    destruct (assoc k cs) as [d0|] eqn:EA; [|reflexivity].
    apply assoc_In in EA. exfalso. apply Hn. change k with (fst (k, d0)). now apply in_map.
  - reflexivity.
Qed.

Lemma comps_of_names_incl r hints m :
  In m (map fst (comps_of r hints)) -> In m (map fst hints).
Proof.
  intros H. apply in_map_iff in H. destruct H as ([m' d] & E & H). simpl in E. subst m'.
  unfold comps_of in H. apply in_flat_map in H. destruct H as ([m' h] & HI & H). simpl in H.
  destruct (is_private m' || robot_has r m'); [destruct H|].
  destruct h; [|destruct H]. destruct H as [H|[]]. inversion H; subst.
  change m with (fst (m, RClass d)). now apply in_map.
Qed.

Lemma comps_of_NoDup r hints : NoDup (map fst hints) -> NoDup (map fst (comps_of r hints)).
Proof.
  induction hints as [|[m h] hints IH]; simpl; intros ND; [constructor|].
  inversion ND as [|? ? Hn ND']; subst. unfold comps_of in *. simpl.
  destruct (is_private m || robot_has r m); simpl; [now apply IH|].
  destruct h; simpl; [|now apply IH].
  constructor; [|now apply IH]. intros H. apply Hn. now apply comps_of_names_incl with (r := r).
Qed.

Definition same_but_order (r r' : robot) : Prop :=
  r_dir r = r_dir r' /\ r_modes r = r_modes r' /\ Permutation (r_hints r) (r_hints r').

Lemma components_perm r r' : same_but_order r r' -> Permutation (components r) (components r').
Proof.
  intros (ED & _ & HP). unfold components.
  rewrite (flat_map_ext _ (fun mh => if is_private (fst mh) || robot_has r' (fst mh) then []
             else match snd mh with RClass d => [(fst mh, d)] | RNonType => [] end)).
  - now apply Permutation_flat_map.
  - intros mh. unfold robot_has. now rewrite ED.
Qed.

Lemma all_injectables_perm r r' :
  same_but_order r r' -> NoDup (map fst (r_hints r)) ->
  forall k, get (all_injectables r) k = get (all_injectables r') k.
Proof.
  intros HSO ND k. pose proof (components_perm _ _ HSO) as HP.
  assert (ND1 : NoDup (map fst (components r))) by now apply comps_of_NoDup.
  assert (ND2 : NoDup (map fst (components r'))).
  { eapply Permutation_NoDup; [|exact ND1]. now apply Permutation_map. }
  unfold all_injectables, injectables_with. rewrite !get_add_comps by assumption.
  rewrite (assoc_perm k _ _ HP ND1). unfold robot_injectables.
  destruct HSO as (-> & _). reflexivity.
Qed.

Lemma targets_perm r r' : same_but_order r r' -> Permutation (targets r) (targets r').
Proof.
  intros HSO. unfold targets. destruct HSO as (ED & EM & HP) eqn:E. rewrite EM.
  apply Permutation_app_tail. apply Permutation_map. apply components_perm. exact (conj ED (conj EM HP)).
Qed.

Definition update_of (inj : imap) (tg : target) : tref * list (name * obj) :=
  (t_ref tg, match setup_vars subclass tg inj with Ok u => u | Err _ => [] end).

Lemma updates_are_map r s :
  startup subclass r = Ok s -> st_updates s = map (update_of (all_injectables r)) (targets r).
Proof.
  intros HS. destruct (startup_ok _ _ HS) as (_ & _ & HF).
  apply Forall2_is_map. eapply Forall2_impl; [|exact HF].
  intros tg [t u] [E1 E2]. simpl in *. unfold update_of. rewrite E2, E1. reflexivity.
Qed.

Theorem order_independent r r' s s' :
  same_but_order r r' -> NoDup (map fst (r_hints r)) ->
  startup subclass r = Ok s -> startup subclass r' = Ok s' ->
  Permutation (st_updates s) (st_updates s').
Proof.
  intros HSO ND HS HS'. rewrite (updates_are_map _ _ HS), (updates_are_map _ _ HS').
  rewrite (map_ext (update_of (all_injectables r')) (update_of (all_injectables r))).
  - apply Permutation_map. now apply targets_perm.
  - intros tg. unfold update_of. f_equal.
    rewrite (setup_vars_ext tg (all_injectables r') (all_injectables r)); [reflexivity|].
    intros k. symmetry. now apply all_injectables_perm.
Qed.

Theorem order_independent_attr r r' s s' :
  same_but_order r r' -> NoDup (map fst (r_hints r)) ->
  startup subclass r = Ok s -> startup subclass r' = Ok s' ->
  forall tg n h, In tg (targets r) -> In (n, h) (t_hints tg) ->
    is_private n = false -> t_has tg n = false ->
    In tg (targets r') /\
    attr_at r (trace_of r s) (t_ref tg) n = attr_at r' (trace_of r' s') (t_ref tg) n.
Proof.
  intros HSO ND HS HS' tg n h Htg Hh HP HH.
  assert (Htg' : In tg (targets r')) by (eapply Permutation_in; [apply targets_perm; eassumption|assumption]).
  split; [assumption|].
  destruct (attr_exact _ _ HS tg n h Htg Hh HP HH) as (T & o & _ & Hp & _ & _ & ->).
  destruct (attr_exact _ _ HS' tg n h Htg' Hh HP HH) as (T' & o' & _ & Hp' & _ & _ & ->).
  unfold pick in *. rewrite <- !(all_injectables_perm _ _ HSO ND) in Hp'. congruence.
Qed.

(* without constructor parameters, success itself does not depend on the order *)
Lemma construct_noctor r hints inj :
  (forall m, In (m, RNonType) hints -> is_private m = true \/ robot_has r m = true) ->
  (forall c d, In (c, d) (comps_of r hints) -> k_init_hints (c_class d) = []) ->
  exists cs, construct subclass r hints inj = Ok (cs, add_comps inj (comps_of r hints)).
Proof.
  revert inj. induction hints as [|[m h] hints IH]; simpl; intros inj HN HC; [eauto|].
  unfold comps_of in *. simpl in *.
  destruct (is_private m) eqn:EP; simpl in *.
  { apply IH; [intros; apply HN; now right|exact HC]. }
  destruct (robot_has r m) eqn:EH; simpl in *.
  { apply IH; [intros; apply HN; now right|exact HC]. }
  destruct h as [d|].
  - simpl in HC. rewrite create_component_nil by (apply (HC m d); now left).
    destruct (IH ((m, Some (comp_obj d)) :: inj)) as [cs ->];
      [intros; apply HN; now right|intros; eapply HC; right; eassumption|].
    eauto.
  - destruct (HN m (or_introl eq_refl)); congruence.
Qed.

Theorem order_independent_success r r' s :
  same_but_order r r' -> NoDup (map fst (r_hints r)) ->
  (forall c d, In (c, d) (components r) -> k_init_hints (c_class d) = []) ->
  startup subclass r = Ok s -> exists s', startup subclass r' = Ok s'.
Proof.
  intros HSO ND HC HS.
  pose proof (all_injectables_perm _ _ HSO ND) as Hget.
  pose proof (targets_perm _ _ HSO) as HTP.
  pose proof (components_perm _ _ HSO) as HCP.
  destruct (startup_ok _ _ HS) as (_ & _ & HF).
  assert (HNT : forall m, In (m, RNonType) (r_hints r') -> is_private m = true \/ robot_has r' m = true).
  { intros m HI. unfold startup in HS.
    destruct (construct subclass r (r_hints r) (collect_injectables (r_dir r))) as [[cs inj]|e'] eqn:EC;
      [|discriminate].
    destruct HSO as (ED & _ & HP).
    destruct (construct_ok_no_nontype _ _ _ _ _ EC m) as [H|H].
    - eapply Permutation_in; [apply Permutation_sym; exact HP|exact HI].
    - now left.
    - right. unfold robot_has in *. now rewrite <- ED. }
  destruct (construct_noctor r' (r_hints r') (collect_injectables (r_dir r')) HNT) as [cs EC].
  { intros c d HI. apply (HC c d). eapply Permutation_in; [apply Permutation_sym; exact HCP|exact HI]. }
  unfold startup. rewrite EC.
  pose proof (construct_ok _ _ _ _ _ EC) as [HCh _].
  pose proof (ctor_chain_names _ _ _ HCh) as HN.
  rewrite (targets_of_created r' cs HN).
  destruct (inject_all_complete (targets r') (add_comps (collect_injectables (r_dir r')) (comps_of r' (r_hints r'))))
    as [ups ->]; [|eauto].
  intros tg Htg.
  assert (Htg0 : In tg (targets r)) by (eapply Permutation_in; [apply Permutation_sym; exact HTP|exact Htg]).
  destruct (Forall2_In_l _ _ _ _ HF Htg0) as ([t u] & _ & _ & E). simpl in E.
  exists u. rewrite <- E. apply setup_vars_ext. intros k. symmetry. apply Hget.
Qed.


(* ---- corollaries in terms of components and modes ---- *)
Lemma comp_in_targets r c d : In (c, d) (components r) -> In (comp_target c d) (targets r).
Proof.
  intros H. unfold targets. apply in_or_app. left.
  apply in_map_iff. exists (c, d). split; [reflexivity|assumption].
Qed.

Lemma mode_in_targets r md : In md (r_modes r) -> In (mode_target md) (targets r).
Proof. intros H. unfold targets. apply in_or_app. right. now apply in_map. Qed.

Theorem attr_exact_comp r s :
  startup subclass r = Ok s ->
  forall c d n h, In (c, d) (components r) -> In (n, h) (k_hints (c_class d)) ->
    is_private n = false -> comp_has d n = false ->
    exists T o, hint_type h = Some T /\
      pick (all_injectables r) c n = Some o /\
      subclass (ocls o) T = true /\
      attr_at r (before_first_setup (trace_of r s)) (TComp c) n = Is (Some o) /\
      attr_at r (trace_of r s) (TComp c) n = Is (Some o).
Proof.
  intros HS c d n h HI. exact (attr_exact r s HS (comp_target c d) n h (comp_in_targets r c d HI)).
Qed.

Theorem attr_exact_mode r s :
  startup subclass r = Ok s ->
  forall md n h, In md (r_modes r) -> In (n, h) (m_hints md) ->
    is_private n = false -> mode_has md n = false ->
    exists T o, hint_type h = Some T /\
      pick (all_injectables r) (m_name md) n = Some o /\
      subclass (ocls o) T = true /\
      attr_at r (before_first_setup (trace_of r s)) (TMode (m_name md)) n = Is (Some o) /\
      attr_at r (trace_of r s) (TMode (m_name md)) n = Is (Some o).
Proof.
  intros HS md n h HI. exact (attr_exact r s HS (mode_target md) n h (mode_in_targets r md HI)).
Qed.

(* robot attributes and ALL components, whatever the order *)
Theorem all_injectables_get r k :
  NoDup (map fst (r_hints r)) ->
  get (all_injectables r) k =
  match assoc k (components r) with
  | Some d => Some (comp_obj d)
  | None => get (robot_injectables r) k
  end.
Proof.
  intros ND. unfold all_injectables, injectables_with. apply get_add_comps.
  now apply comps_of_NoDup.
Qed.

(* a falsy object (0, '', an empty container, a component whose __bool__ is
   False) is a value like any other *)
Theorem falsy_injects r s :
  startup subclass r = Ok s ->
  forall c d n h o, In (c, d) (components r) -> In (n, h) (k_hints (c_class d)) ->
    is_private n = false -> comp_has d n = false ->
    get (all_injectables r) n = Some o -> otruthy o = false ->
    attr_at r (before_first_setup (trace_of r s)) (TComp c) n = Is (Some o) /\
    attr_at r (trace_of r s) (TComp c) n = Is (Some o).
Proof.
  intros HS c d n h o HI Hh HP HH Hg _.
  destruct (attr_exact_comp r s HS c d n h HI Hh HP HH) as (T & o' & _ & Hp & _ & H1 & H2).
  unfold pick in Hp. rewrite Hg in Hp. inversion Hp; subst. now split.
Qed.

(* a robot attribute whose value is None is not an injectable: lookups fall
   through to the prefixed name exactly as if the attribute did not exist *)
Theorem none_is_absent inj c n :
  get inj n = None -> pick inj c n = get inj (prefixed c n).
Proof. intros H. unfold pick. now rewrite H. Qed.

(* ====================================================================== *)
(* _collect_injectables: what the robot's own attributes contribute.       *)
(* Callable objects (anything but a bound method) are injectables like any *)
(* other object.                                                           *)
(* ====================================================================== *)

(* the dir() entry called n *)
Definition dir_entry (r : robot) (n : name) : option rattr :=
  find (fun a => String.eqb (ra_name a) n) (r_dir r).

(* the entries _collect_injectables keeps: public, not "logger", not a
   property / tunable of the class, not a bound method.  Whether the value is
   callable plays no role. *)
Definition injectable_attr (a : rattr) : bool :=
  negb (is_private (ra_name a)) && negb (String.eqb (ra_name a) "logger") &&
  match ra_kind a with KPlain | KCallable => true | KMethod | KDescriptor => false end.

Lemma collect_get_notin dir n :
  ~ In n (map ra_name dir) -> get (collect_injectables dir) n = None.
Proof.
  induction dir as [|a dir IH]; simpl; intros H; [reflexivity|].
  assert (H1 : ra_name a <> n) by (intros E; apply H; now left).
  assert (H2 : ~ In n (map ra_name dir)) by (intros E; apply H; now right).
  destruct (is_private (ra_name a) || (String.eqb (ra_name a) "logger" || false)
            || match ra_kind a with KDescriptor => true | _ => false end); [now apply IH|].
  destruct (kind_ismethod (ra_kind a)); [now apply IH|].
  simpl. apply String.eqb_neq in H1. rewrite H1. now apply IH.
Qed.

Lemma collect_get dir n :
  NoDup (map ra_name dir) ->
  get (collect_injectables dir) n =
  match find (fun a => String.eqb (ra_name a) n) dir with
  | Some a => if injectable_attr a then ra_value a else None
  | None => None
  end.
Proof.
  induction dir as [|a dir IH]; simpl; intros ND; [reflexivity|].
  inversion ND as [|? ? Hn ND']; subst. specialize (IH ND').
  unfold injectable_attr at 1.
  destruct (String.eqb (ra_name a) n) eqn:EN.
  - apply String.eqb_eq in EN. subst n.
    destruct (is_private (ra_name a)); simpl; [now apply collect_get_notin|].
    destruct (String.eqb (ra_name a) "logger"); simpl; [now apply collect_get_notin|].
    destruct (ra_kind a); simpl; try (now apply collect_get_notin);
      now rewrite String.eqb_refl.
  - destruct (is_private (ra_name a)); simpl; [exact IH|].
    destruct (String.eqb (ra_name a) "logger"); simpl; [exact IH|].
    destruct (ra_kind a); simpl; try exact IH; now rewrite EN.
Qed.

(* ---- C08_robot_injectables_exact ---- *)
Theorem robot_injectables_exact r n :
  NoDup (map ra_name (r_dir r)) ->
  get (robot_injectables r) n =
  match dir_entry r n with
  | Some a => if injectable_attr a then ra_value a else None
  | None => None
  end.
Proof. intros ND. unfold robot_injectables, dir_entry. now apply collect_get. Qed.

Lemma dir_entry_name r n a : dir_entry r n = Some a -> In a (r_dir r) /\ ra_name a = n.
Proof.
  unfold dir_entry. intros H. apply find_some in H. destruct H as [HI E].
  apply String.eqb_eq in E. now split.
Qed.

Lemma dir_entry_robot_has r n a : dir_entry r n = Some a -> robot_has r n = true.
Proof.
  intros H. apply dir_entry_name in H. destruct H as [HI <-].
  unfold robot_has. apply mem_In. now apply in_map.
Qed.

Lemma robot_has_not_component r n cs :
  robot_has r n = true -> (forall k d, In (k, d) cs -> In (k, d) (components r)) ->
  assoc n cs = None.
Proof.
  intros HH Hsub. apply assoc_None. intros HI. apply in_map_iff in HI.
  destruct HI as ([k d] & E & HI). simpl in E. subst k. apply Hsub in HI.
  unfold components in HI. apply in_flat_map in HI. destruct HI as ([m h] & _ & HI). simpl in HI.
  destruct (is_private m) eqn:EP; simpl in HI; [destruct HI|].
  destruct (robot_has r m) eqn:EH; simpl in HI; [destruct HI|].
  destruct h; [|destruct HI]. destruct HI as [HI|[]]. inversion HI; subst. congruence.
Qed.

(* A public robot attribute that is neither "logger", nor a property/tunable,
   nor a bound method -- callable or not -- is what a request for its name
   resolves to, whichever components [cs] have been added to the dict. *)
Lemma pick_robot_attr r cs c n a o :
  NoDup (map ra_name (r_dir r)) -> NoDup (map fst cs) ->
  (forall k d, In (k, d) cs -> In (k, d) (components r)) ->
  dir_entry r n = Some a -> injectable_attr a = true -> ra_value a = Some o ->
  pick (injectables_with r cs) c n = Some o.
Proof.
  intros ND NDc Hsub HE HI HV. unfold pick, injectables_with.
  rewrite get_add_comps by assumption.
  rewrite (robot_has_not_component r n cs (dir_entry_robot_has _ _ _ HE) Hsub).
  rewrite (robot_injectables_exact r n ND), HE, HI, HV. reflexivity.
Qed.

Lemma NoDup_app_l {A} (l l' : list A) : NoDup (l ++ l') -> NoDup l.
Proof.
  induction l as [|x l IH]; simpl; intros H; [constructor|].
  inversion H as [|? ? Hn H']; subst. constructor; [|now apply IH].
  intros HI. apply Hn. apply in_or_app. now left.
Qed.

Lemma prefix_of_components r before c d after :
  NoDup (map fst (r_hints r)) -> components r = before ++ (c, d) :: after ->
  NoDup (map fst before) /\ (forall k d', In (k, d') before -> In (k, d') (components r)).
Proof.
  intros ND E. pose proof (comps_of_NoDup r (r_hints r) ND) as NC.
  rewrite <- components_comps_of, E, map_app in NC. split.
  - eapply NoDup_app_l. exact NC.
  - intros k d' HI. rewrite E. apply in_or_app. now left.
Qed.

(* ---- C08_robot_attr_delivered: attributes of components and modes ---- *)
Theorem robot_attr_delivered r s :
  startup subclass r = Ok s ->
  NoDup (map ra_name (r_dir r)) -> NoDup (map fst (r_hints r)) ->
  forall tg n h a o, In tg (targets r) -> In (n, h) (t_hints tg) ->
    is_private n = false -> t_has tg n = false ->
    dir_entry r n = Some a -> injectable_attr a = true -> ra_value a = Some o ->
    attr_at r (before_first_setup (trace_of r s)) (t_ref tg) n = Is (Some o) /\
    attr_at r (trace_of r s) (t_ref tg) n = Is (Some o) /\
    exists T, hint_type h = Some T /\ subclass (ocls o) T = true.
Proof.
  intros HS ND NDh tg n h a o Htg Hh HP HH HE HI HV.
  destruct (attr_exact r s HS tg n h Htg Hh HP HH) as (T & o' & ET & Hp & Hs & H1 & H2).
  assert (Hp' : pick (all_injectables r) (tname (t_ref tg)) n = Some o).
  { unfold all_injectables. eapply pick_robot_attr; eauto.
    rewrite components_comps_of. now apply comps_of_NoDup. }
  rewrite Hp' in Hp. inversion Hp; subst o'.
  split; [assumption|]. split; [assumption|]. exists T. now split.
Qed.

Theorem robot_attr_delivered_comp r s :
  startup subclass r = Ok s ->
  NoDup (map ra_name (r_dir r)) -> NoDup (map fst (r_hints r)) ->
  forall c d n h a o, In (c, d) (components r) -> In (n, h) (k_hints (c_class d)) ->
    is_private n = false -> comp_has d n = false ->
    dir_entry r n = Some a -> injectable_attr a = true -> ra_value a = Some o ->
    attr_at r (before_first_setup (trace_of r s)) (TComp c) n = Is (Some o) /\
    attr_at r (trace_of r s) (TComp c) n = Is (Some o) /\
    exists T, hint_type h = Some T /\ subclass (ocls o) T = true.
Proof.
  intros HS ND NDh c d n h a o HI.
  exact (robot_attr_delivered r s HS ND NDh (comp_target c d) n h a o (comp_in_targets r c d HI)).
Qed.

Theorem robot_attr_delivered_mode r s :
  startup subclass r = Ok s ->
  NoDup (map ra_name (r_dir r)) -> NoDup (map fst (r_hints r)) ->
  forall md n h a o, In md (r_modes r) -> In (n, h) (m_hints md) ->
    is_private n = false -> mode_has md n = false ->
    dir_entry r n = Some a -> injectable_attr a = true -> ra_value a = Some o ->
    attr_at r (before_first_setup (trace_of r s)) (TMode (m_name md)) n = Is (Some o) /\
    attr_at r (trace_of r s) (TMode (m_name md)) n = Is (Some o) /\
    exists T, hint_type h = Some T /\ subclass (ocls o) T = true.
Proof.
  intros HS ND NDh md n h a o HI.
  exact (robot_attr_delivered r s HS ND NDh (mode_target md) n h a o (mode_in_targets r md HI)).
Qed.

(* ---- C08_robot_attr_ctor_delivered: constructor parameters ---- *)
Theorem robot_attr_ctor_delivered r s :
  startup subclass r = Ok s ->
  NoDup (map ra_name (r_dir r)) -> NoDup (map fst (r_hints r)) ->
  forall before c d after p h a o, components r = before ++ (c, d) :: after ->
    In (p, h) (k_init_hints (c_class d)) ->
    dir_entry r p = Some a -> injectable_attr a = true -> ra_value a = Some o ->
    exists kw,
      nth_error (st_comps s) (List.length before) = Some {| cr_name := c; cr_def := d; cr_kwargs := kw |} /\
      In (p, o) kw /\ exists T, hint_type h = Some T /\ subclass (ocls o) T = true.
Proof.
  intros HS ND NDh before c d after p h a o E Hh HE HI HV.
  destruct (ctor_exact r s HS) as [_ HC]. destruct (HC _ _ _ _ E) as (kw & Hn & HA).
  exists kw. split; [exact Hn|].
  destruct (Forall2_In_l _ _ _ _ HA Hh) as ([p' o'] & Hkw & Ep & _ & T & ET & Hp & Hs).
  simpl in *. subst p'.
  destruct (prefix_of_components r before c d after NDh E) as [NB Hsub].
  rewrite (pick_robot_attr r before c p a o ND NB Hsub HE HI HV) in Hp. inversion Hp; subst o'.
  split; [exact Hkw|]. exists T. now split.
Qed.

(* ---- C08_robot_attr_serves: such a request is never the reason of a failure ---- *)
Theorem robot_attr_serves r cs c n h T a o :
  NoDup (map ra_name (r_dir r)) -> NoDup (map fst cs) ->
  (forall k d, In (k, d) cs -> In (k, d) (components r)) ->
  dir_entry r n = Some a -> injectable_attr a = true -> ra_value a = Some o ->
  hint_type h = Some T -> subclass (ocls o) T = true ->
  ~ request_fails (injectables_with r cs) c n h.
Proof.
  intros ND NDc Hsub HE HI HV ET Hs HF.
  eapply fills_not_fails; [exact ET| |exact HF].
  split; [|exact Hs]. eapply pick_robot_attr; eauto.
Qed.

(* ---- C08_callable_irrelevant ---- *)
(* the same robot, every callable (non-method) attribute declared not callable *)
Definition forget_callable (a : rattr) : rattr :=
  {| ra_name := ra_name a;
     ra_kind := match ra_kind a with KCallable => KPlain | k => k end;
     ra_value := ra_value a |}.
Definition robot_forget_callable (r : robot) : robot :=
  {| r_dir := map forget_callable (r_dir r); r_hints := r_hints r; r_modes := r_modes r |}.

Lemma collect_forget_callable dir :
  collect_injectables (map forget_callable dir) = collect_injectables dir.
Proof.
  induction dir as [|a dir IH]; simpl; [reflexivity|]. rewrite IH.
  destruct (ra_kind a); reflexivity.
Qed.

Lemma construct_has_ext r r' hints inj :
  (forall m, robot_has r m = robot_has r' m) ->
  construct subclass r hints inj = construct subclass r' hints inj.
Proof.
  intros HH. revert inj. induction hints as [|[m h] hints IH]; simpl; intros inj; [reflexivity|].
  rewrite <- HH. destruct (is_private m); [apply IH|].
  destruct (robot_has r m); [apply IH|].
  destruct h as [d|]; [|reflexivity].
  destruct (create_component subclass m d inj); [|reflexivity]. now rewrite IH.
Qed.

Theorem callable_irrelevant r :
  startup subclass (robot_forget_callable r) = startup subclass r.
Proof.
  unfold startup. simpl. rewrite collect_forget_callable.
  rewrite (construct_has_ext (robot_forget_callable r) r).
  - reflexivity.
  - intros m. unfold robot_has. simpl. rewrite map_map. reflexivity.
Qed.

(* ====================================================================== *)
(* The NAME of a robot attribute decides nothing except: a leading          *)
(* underscore, and being exactly "logger".  In particular a name that is a  *)
(* substring of "logger" (log, g, er, logg ...), contains it (loggers,      *)
(* my_logger) or differs in case (Logger) is an injectable like any other.  *)
(* ====================================================================== *)

(* Python's  a in b  for two str: a occurs in b as a contiguous substring.
   This is NOT the test _collect_injectables makes (that one is [excluded],
   list membership); vocabulary for the statements and examples below. *)
Fixpoint str_in (a b : string) : bool :=
  String.prefix a b || match b with EmptyString => false | String _ b' => str_in a b' end.

(* entries whose value is read and kept: anything but a property/tunable of
   the class and a bound method *)
Definition kind_injectable (k : akind) : bool :=
  match k with KPlain | KCallable => true | KMethod | KDescriptor => false end.

(* ---- C08_excluded_iff_logger ---- *)
Theorem excluded_iff_logger n : excluded n = true <-> n = "logger".
Proof.
  unfold excluded, exclude_from_injection, mem. simpl. rewrite orb_false_r. apply String.eqb_eq.
Qed.

Lemma not_logger_not_excluded n : n <> "logger" -> excluded n = false.
Proof.
  intros H. destruct (excluded n) eqn:E; [|reflexivity].
  apply excluded_iff_logger in E. contradiction.
Qed.

Lemma injectable_attr_spec a :
  injectable_attr a =
  negb (is_private (ra_name a)) && negb (excluded (ra_name a)) && kind_injectable (ra_kind a).
Proof.
  unfold injectable_attr, excluded, exclude_from_injection, mem, kind_injectable. simpl.
  now rewrite orb_false_r.
Qed.

Lemma injectable_attr_by_name a :
  is_private (ra_name a) = false -> ra_name a <> "logger" ->
  injectable_attr a = kind_injectable (ra_kind a).
Proof.
  intros HP HN. rewrite injectable_attr_spec, HP, (not_logger_not_excluded _ HN). reflexivity.
Qed.

(* ---- C08_robot_injectables_by_name ---- *)
Theorem robot_injectables_by_name r n a :
  NoDup (map ra_name (r_dir r)) ->
  dir_entry r n = Some a -> is_private n = false -> n <> "logger" ->
  get (robot_injectables r) n = if kind_injectable (ra_kind a) then ra_value a else None.
Proof.
  intros ND HE HP HN. rewrite (robot_injectables_exact r n ND), HE.
  destruct (dir_entry_name r n a HE) as [_ EN].
  rewrite (injectable_attr_by_name a) by (rewrite EN; assumption). reflexivity.
Qed.

(* ---- C08_names_treated_alike ---- *)
(* renaming the robot's attributes by any f that keeps "starts with an
   underscore" and "is exactly logger" renames the collected injectables and
   changes nothing else: no other feature of a name is looked at *)
Definition rename_attr (f : name -> name) (a : rattr) : rattr :=
  {| ra_name := f (ra_name a); ra_kind := ra_kind a; ra_value := ra_value a |}.

Theorem collect_rename f dir :
  (forall a, In a dir -> is_private (f (ra_name a)) = is_private (ra_name a) /\
                         excluded (f (ra_name a)) = excluded (ra_name a)) ->
  collect_injectables (map (rename_attr f) dir) =
  map (fun kv => (f (fst kv), snd kv)) (collect_injectables dir).
Proof.
  induction dir as [|a dir IH]; intros H; [reflexivity|].
  destruct (H a (or_introl eq_refl)) as [HP HX].
  assert (IH' := IH (fun b Hb => H b (or_intror Hb))).
  cbn [map collect_injectables rename_attr ra_name ra_kind ra_value].
  fold (excluded (f (ra_name a))). fold (excluded (ra_name a)).
  rewrite HP, HX, IH'.
  destruct (is_private (ra_name a) || excluded (ra_name a)
            || match ra_kind a with KDescriptor => true | _ => false end); [reflexivity|].
  destruct (kind_ismethod (ra_kind a)); reflexivity.
Qed.

Lemma comp_has_not_logger d n : comp_has d n = false -> n <> "logger".
Proof. unfold comp_has. intros H E. subst n. discriminate H. Qed.
Lemma mode_has_not_logger md n : mode_has md n = false -> n <> "logger".
Proof. unfold mode_has. intros H E. subst n. discriminate H. Qed.

(* ---- C08_robot_attr_by_name_delivered: no hypothesis on the name but "public" ---- *)
Theorem robot_attr_by_name_delivered_comp r s :
  startup subclass r = Ok s ->
  NoDup (map ra_name (r_dir r)) -> NoDup (map fst (r_hints r)) ->
  forall c d n h a o, In (c, d) (components r) -> In (n, h) (k_hints (c_class d)) ->
    is_private n = false -> comp_has d n = false ->
    dir_entry r n = Some a -> kind_injectable (ra_kind a) = true -> ra_value a = Some o ->
    attr_at r (before_first_setup (trace_of r s)) (TComp c) n = Is (Some o) /\
    attr_at r (trace_of r s) (TComp c) n = Is (Some o) /\
    exists T, hint_type h = Some T /\ subclass (ocls o) T = true.
Proof.
  intros HS ND NDh c d n h a o HI Hh HP HH HE HK HV.
  destruct (dir_entry_name r n a HE) as [_ EN].
  apply (robot_attr_delivered_comp r s HS ND NDh c d n h a o HI Hh HP HH HE); [|exact HV].
  rewrite injectable_attr_by_name; rewrite ?EN; auto. now apply (comp_has_not_logger d).
Qed.

Theorem robot_attr_by_name_delivered_mode r s :
  startup subclass r = Ok s ->
  NoDup (map ra_name (r_dir r)) -> NoDup (map fst (r_hints r)) ->
  forall md n h a o, In md (r_modes r) -> In (n, h) (m_hints md) ->
    is_private n = false -> mode_has md n = false ->
    dir_entry r n = Some a -> kind_injectable (ra_kind a) = true -> ra_value a = Some o ->
    attr_at r (before_first_setup (trace_of r s)) (TMode (m_name md)) n = Is (Some o) /\
    attr_at r (trace_of r s) (TMode (m_name md)) n = Is (Some o) /\
    exists T, hint_type h = Some T /\ subclass (ocls o) T = true.
Proof.
  intros HS ND NDh md n h a o HI Hh HP HH HE HK HV.
  destruct (dir_entry_name r n a HE) as [_ EN].
  apply (robot_attr_delivered_mode r s HS ND NDh md n h a o HI Hh HP HH HE); [|exact HV].
  rewrite injectable_attr_by_name; rewrite ?EN; auto. now apply (mode_has_not_logger md).
Qed.

Theorem robot_attr_by_name_ctor_delivered r s :
  startup subclass r = Ok s ->
  NoDup (map ra_name (r_dir r)) -> NoDup (map fst (r_hints r)) ->
  forall before c d after p h a o, components r = before ++ (c, d) :: after ->
    In (p, h) (k_init_hints (c_class d)) ->
    is_private p = false -> p <> "logger" ->
    dir_entry r p = Some a -> kind_injectable (ra_kind a) = true -> ra_value a = Some o ->
    exists kw,
      nth_error (st_comps s) (List.length before) = Some {| cr_name := c; cr_def := d; cr_kwargs := kw |} /\
      In (p, o) kw /\ exists T, hint_type h = Some T /\ subclass (ocls o) T = true.
Proof.
  intros HS ND NDh before c d after p h a o E Hh HP HN HE HK HV.
  destruct (dir_entry_name r p a HE) as [_ EN].
  apply (robot_attr_ctor_delivered r s HS ND NDh before c d after p h a o E Hh HE); [|exact HV].
  rewrite injectable_attr_by_name; rewrite ?EN; auto.
Qed.

(* ---- C08_robot_attr_by_name_serves ---- *)
Theorem robot_attr_by_name_serves r cs c n h T a o :
  NoDup (map ra_name (r_dir r)) -> NoDup (map fst cs) ->
  (forall k d, In (k, d) cs -> In (k, d) (components r)) ->
  is_private n = false -> n <> "logger" ->
  dir_entry r n = Some a -> kind_injectable (ra_kind a) = true -> ra_value a = Some o ->
  hint_type h = Some T -> subclass (ocls o) T = true ->
  ~ request_fails (injectables_with r cs) c n h.
Proof.
  intros ND NDc Hsub HP HN HE HK HV ET Hs.
  destruct (dir_entry_name r n a HE) as [_ EN].
  apply (robot_attr_serves r cs c n h T a o ND NDc Hsub HE); auto.
  rewrite injectable_attr_by_name; rewrite ?EN; auto.
Qed.

(* ---- the plain name wins over "<c>_<n>" whatever the name looks like ---- *)
Theorem plain_name_wins r cs c n a o :
  NoDup (map ra_name (r_dir r)) -> NoDup (map fst cs) ->
  (forall k d, In (k, d) cs -> In (k, d) (components r)) ->
  is_private n = false -> n <> "logger" ->
  dir_entry r n = Some a -> kind_injectable (ra_kind a) = true -> ra_value a = Some o ->
  pick (injectables_with r cs) c n = Some o.
Proof.
  intros ND NDc Hsub HP HN HE HK HV.
  destruct (dir_entry_name r n a HE) as [_ EN].
  apply (pick_robot_attr r cs c n a o ND NDc Hsub HE); auto.
  rewrite injectable_attr_by_name; rewrite ?EN; auto.
Qed.

(* ====================================================================== *)
(* The driver station (FMS attached or not, enabled or not) while the robot  *)
(* program starts decides nothing: components and autonomous modes alike.    *)
(* ====================================================================== *)

(* which error, or which components / constructor kwargs / __dict__ updates:
   the same in every environment *)
Theorem startup_env_irrelevant e e' r : startup_in subclass e r = startup_in subclass e' r.
Proof. reflexivity. Qed.

(* hence everything the harness observes of a successful start-up *)
Theorem observe_env_irrelevant e e' r s s' :
  startup_in subclass e r = Ok s -> startup_in subclass e' r = Ok s' ->
  s = s' /\ trace_of r s = trace_of r s' /\ observe r s = observe r s'.
Proof.
  intros H H'. rewrite (startup_env_irrelevant e e') in H. rewrite H in H'.
  inversion H'; subst. repeat split.
Qed.

(* C08_fail_iff in every environment *)
Theorem startup_in_fail_iff e r :
  (exists err, startup_in subclass e r = Err err) <-> robot_fault r \/ ctor_fault r \/ attr_fault r.
Proof. exact (fail_iff r). Qed.

(* A request of an attribute-injection target (component or autonomous mode,
   [targets r]) that cannot be served makes start-up fail, in every environment;
   with class annotations only, with the injection error. *)
Theorem target_fault_fails_in e r tg n h :
  In tg (targets r) -> In (n, h) (t_hints tg) -> is_private n = false -> t_has tg n = false ->
  request_fails (all_injectables r) (tname (t_ref tg)) n h ->
  exists err, startup_in subclass e r = Err err /\ (all_types r -> err = EInject).
Proof.
  intros Htg Hh HP HH HF.
  destruct (proj2 (fail_iff r)) as [err He].
  { right. right. exists tg, n, h. now repeat split. }
  exists err. split; [exact He|]. intros HT. now apply error_class with (r := r).
Qed.

Theorem mode_fault_fails_in e r md n h :
  In md (r_modes r) -> In (n, h) (m_hints md) -> is_private n = false -> mode_has md n = false ->
  request_fails (all_injectables r) (m_name md) n h ->
  exists err, startup_in subclass e r = Err err /\ (all_types r -> err = EInject).
Proof.
  intros HI. exact (target_fault_fails_in e r (mode_target md) n h (mode_in_targets r md HI)).
Qed.

Theorem comp_fault_fails_in e r c d n h :
  In (c, d) (components r) -> In (n, h) (k_hints (c_class d)) -> is_private n = false ->
  comp_has d n = false -> request_fails (all_injectables r) c n h ->
  exists err, startup_in subclass e r = Err err /\ (all_types r -> err = EInject).
Proof.
  intros HI. exact (target_fault_fails_in e r (comp_target c d) n h (comp_in_targets r c d HI)).
Qed.

Theorem ctor_fault_fails_in e r :
  ctor_fault r -> exists err, startup_in subclass e r = Err err /\ (all_types r -> err = EInject).
Proof.
  intros HF. destruct (proj2 (fail_iff r)) as [err He]; [right; now left|].
  exists err. split; [exact He|]. intros HT. now apply error_class with (r := r).
Qed.

(* and a start-up that succeeded, in whatever environment, left no target with
   a missing or mistyped dependency: C08_attr_exact for components and modes *)
Theorem attr_exact_in e r s :
  startup_in subclass e r = Ok s ->
  forall tg n h, In tg (targets r) -> In (n, h) (t_hints tg) ->
    is_private n = false -> t_has tg n = false ->
    exists T o, hint_type h = Some T /\
      pick (all_injectables r) (tname (t_ref tg)) n = Some o /\
      subclass (ocls o) T = true /\
      attr_at r (before_first_setup (trace_of r s)) (t_ref tg) n = Is (Some o) /\
      attr_at r (trace_of r s) (t_ref tg) n = Is (Some o).
Proof. exact (attr_exact r s). Qed.

Theorem attr_exact_mode_in e r s :
  startup_in subclass e r = Ok s ->
  forall md n h, In md (r_modes r) -> In (n, h) (m_hints md) ->
    is_private n = false -> mode_has md n = false ->
    exists T o, hint_type h = Some T /\
      pick (all_injectables r) (m_name md) n = Some o /\
      subclass (ocls o) T = true /\
      attr_at r (before_first_setup (trace_of r s)) (TMode (m_name md)) n = Is (Some o) /\
      attr_at r (trace_of r s) (TMode (m_name md)) n = Is (Some o).
Proof. exact (attr_exact_mode r s). Qed.

(* ---- NOT the code: the start-up that WOULD consult the driver station ---- *)
(* _setup_vars of every target inside "try: ... except: self.onException()"
   (the policy of the autonomous-mode loader: crash on the bench, keep going on
   the field): with the FMS attached a target whose request cannot be served is
   reported and left un-injected.  Only here to show that the statements above
   exclude something (the C08_nv_env examples). *)
Fixpoint inject_all_tolerant (e : env) (tgs : list target) (inj : imap)
  : res (list (tref * list (name * obj))) :=
  match tgs with
  | [] => Ok []
  | tg :: rest =>
    match on_exception e (setup_vars subclass tg inj) [] with
    | Err err => Err err
    | Ok upd =>
      match inject_all_tolerant e rest inj with
      | Err err => Err err
      | Ok ups => Ok ((t_ref tg, upd) :: ups)
      end
    end
  end.

Definition startup_tolerant (e : env) (r : robot) : res started :=
  match construct subclass r (r_hints r) (collect_injectables (r_dir r)) with
  | Err err => Err err
  | Ok (cs, inj) =>
    match inject_all_tolerant e (map (fun c => comp_target (cr_name c) (cr_def c)) cs
                                 ++ map mode_target (r_modes r)) inj with
    | Err err => Err err
    | Ok ups => Ok {| st_comps := cs; st_updates := ups |}
    end
  end.

Lemma inject_all_tolerant_no_fms e tgs inj :
  fms_attached e = false -> inject_all_tolerant e tgs inj = inject_all subclass tgs inj.
Proof.
  intros HE. induction tgs as [|tg rest IH]; simpl; [reflexivity|].
  unfold on_exception. rewrite HE, IH. destruct (setup_vars subclass tg inj); reflexivity.
Qed.

(* the FMS flag is exactly what separates the two *)
Theorem tolerant_without_fms e r :
  fms_attached e = false -> startup_tolerant e r = startup_in subclass e r.
Proof.
  intros HE. unfold startup_tolerant, startup_in, startup.
  destruct (construct subclass r (r_hints r) (collect_injectables (r_dir r))) as [[cs inj]|err];
    [|reflexivity].
  now rewrite inject_all_tolerant_no_fms.
Qed.

(* ====================================================================== *)
(* Attributes that already have a value (hasattr is true when _setup_vars     *)
(* looks: class-level value, set in __init__, or a descriptor / marker the    *)
(* framework has bound -- magicbot.tunable, will_reset_to: PBound)            *)
(* ====================================================================== *)

(* get_injection_requests sees only the public unset annotations *)
Lemma get_requests_requested has hints :
  get_requests hints (Some has) = get_requests (requested has hints) (Some has).
Proof.
  induction hints as [|[n h] hints IH]; [reflexivity|].
  unfold requested in *. simpl.
  destruct (is_private n) eqn:EP; simpl; [exact IH|].
  destruct (has n) eqn:EH; simpl; [exact IH|].
  rewrite EP, EH. destruct (hint_type h); [|reflexivity]. now rewrite IH.
Qed.

Lemma get_requests_has_ext has has' hints :
  (forall n, has n = has' n) -> get_requests hints (Some has) = get_requests hints (Some has').
Proof.
  intros E. induction hints as [|[n h] hints IH]; simpl; [reflexivity|].
  rewrite <- E, IH. reflexivity.
Qed.

(* What is annotated on an attribute that already has a value -- which type, a
   non-class, or no annotation at all -- changes nothing: two targets of the
   same name with the same hasattr and the same public unset annotations are
   injected alike (same update or same error), whatever else they annotate. *)
Theorem set_attr_annotation_irrelevant tg tg' inj :
  t_ref tg = t_ref tg' -> (forall n, t_has tg n = t_has tg' n) ->
  requested (t_has tg) (t_hints tg) = requested (t_has tg') (t_hints tg') ->
  setup_vars subclass tg inj = setup_vars subclass tg' inj.
Proof.
  intros ER EH EQ. unfold setup_vars.
  rewrite (get_requests_requested (t_has tg) (t_hints tg)), EQ.
  rewrite (get_requests_has_ext (t_has tg) (t_has tg') _ EH).
  rewrite <- (get_requests_requested (t_has tg') (t_hints tg')), ER. reflexivity.
Qed.

(* ... and nothing is ever written under its name *)
Theorem set_attr_never_written r s tg n upd :
  startup subclass r = Ok s -> NoDup (map t_ref (targets r)) ->
  In tg (targets r) -> t_has tg n = true ->
  In (EvInject (t_ref tg) upd) (trace_of r s) -> ~ In n (map fst upd).
Proof.
  intros HS ND Htg HH HI Hn. apply in_map_iff in Hn. destruct Hn as ([n' o] & E & Hn). simpl in E. subst n'.
  destruct (update_names _ _ _ _ _ _ HS HI Hn) as (_ & tg' & Htg' & Et & HH' & _).
  assert (tg' = tg) by (eapply NoDup_map_inj; eauto). subst. congruence.
Qed.

(* ====================================================================== *)
(* Every target is injected on its own: several components / modes may be   *)
(* instances of ONE class (same k_cls, same annotations) and still differ in *)
(* what each instance already has -- hasattr is a fact about the instance.   *)
(* ====================================================================== *)

(* the update written into a target is _setup_vars of THAT target -- its own
   name, annotations and hasattr -- against the complete injectables; no other
   target, of the same class or not, created before or after, enters *)
Theorem each_target_on_its_own r s :
  startup subclass r = Ok s ->
  Forall2 (fun tg u => fst u = t_ref tg /\ setup_vars subclass tg (all_injectables r) = Ok (snd u))
          (targets r) (st_updates s).
Proof. intros HS. exact (proj2 (proj2 (startup_ok _ _ HS))). Qed.

(* and a target whose own _setup_vars fails stops start-up, whatever the
   other instances of its class have *)
Theorem target_failure_on_its_own r tg e :
  In tg (targets r) -> setup_vars subclass tg (all_injectables r) = Err e ->
  exists e', startup subclass r = Err e'.
Proof.
  intros Htg HE. destruct (startup subclass r) as [s|e'] eqn:HS; [exfalso|eauto].
  destruct (Forall2_In_l _ _ _ _ (each_target_on_its_own _ _ HS) Htg) as (u & _ & _ & E). congruence.
Qed.

(* ====================================================================== *)
(* Default values of __init__ parameters are not an input                   *)
(* ====================================================================== *)

Theorem ctor_defaults_irrelevant dflt dflt' m d inj :
  create_component_dflt subclass dflt m d inj = create_component_dflt subclass dflt' m d inj.
Proof. reflexivity. Qed.

Theorem startup_defaults_irrelevant dd dd' e e' r :
  startup_dflt subclass dd e r = startup_dflt subclass dd' e' r.
Proof. reflexivity. Qed.

(* whatever defaults are declared: a started robot passed every constructor
   parameter the object picked from the robot attributes and the EARLIER
   components, of the annotated type (C08_ctor) ... *)
Theorem ctor_exact_dflt dd e r s :
  startup_dflt subclass dd e r = Ok s ->
  map (fun c => (cr_name c, cr_def c)) (st_comps s) = components r /\
  forall before c d after, components r = before ++ (c, d) :: after ->
    exists kw,
      nth_error (st_comps s) (List.length before)
        = Some {| cr_name := c; cr_def := d; cr_kwargs := kw |} /\
      Forall2 (ctor_arg_ok (injectables_with r before) c) (k_init_hints (c_class d)) kw.
Proof. exact (ctor_exact r s). Qed.

(* ... and a parameter that cannot be served stops start-up *)
Theorem ctor_fault_fails_dflt dd e r :
  ctor_fault r -> exists err, startup_dflt subclass dd e r = Err err /\ (all_types r -> err = EInject).
Proof. exact (ctor_fault_fails_in e r). Qed.

(* ---- NOT the code: the _create_component that WOULD use the defaults ---- *)
(* a parameter that declares a default is resolved on its own and, when the
   robot has nothing under either name or something of another type, simply
   left to its default.  Only here to show that the statements above exclude
   something (the C08_nv_default examples). *)
Fixpoint find_injections_lenient (dflt : init_defaults) (requests : list (name * cls)) (inj : imap)
  (cname : name) : res (list (name * obj)) :=
  match requests with
  | [] => Ok []
  | (n, T) :: rest =>
    match find_injections subclass [(n, T)] inj cname, assoc n dflt with
    | Err _, Some _ => find_injections_lenient dflt rest inj cname      (* "using the default" *)
    | Err e, None => Err e
    | Ok upd, _ =>
      match find_injections_lenient dflt rest inj cname with
      | Ok upd' => Ok (upd ++ upd')
      | Err e => Err e
      end
    end
  end.

Definition create_component_lenient (dflt : init_defaults) (m : name) (d : compdef) (inj : imap)
  : res (list (name * obj)) :=
  match get_requests (k_init_hints (c_class d)) None with
  | Err e => Err e
  | Ok rq => find_injections_lenient dflt rq inj m
  end.

Lemma find_injections_lenient_nil rq inj c :
  find_injections_lenient [] rq inj c = find_injections subclass rq inj c.
Proof.
  induction rq as [|[n T] rq IH]; simpl; [reflexivity|]. rewrite IH.
  destruct (match get inj n with Some o => Some o | None => get inj (prefixed c n) end) as [o|]; [|reflexivity].
  destruct (subclass (ocls o) T); [|reflexivity]. simpl.
  destruct (find_injections subclass rq inj c); reflexivity.
Qed.

(* the two agree exactly when no default is declared *)
Theorem lenient_without_defaults m d inj :
  create_component_lenient [] m d inj = create_component_dflt subclass [] m d inj.
Proof.
  unfold create_component_lenient, create_component_dflt, create_component.
  destruct (get_requests (k_init_hints (c_class d)) None); [|reflexivity].
  apply find_injections_lenient_nil.
Qed.

End WithSubclass.
