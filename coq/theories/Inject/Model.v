(* Model of magicbot/inject.py and of the injection part of
   magicbot/magicrobot.py (_collect_injectables, _create_components,
   _create_component, _setup_vars).  No proofs in this file.

   What is an INPUT of the model (observed / trusted, see notes_c08.md):
   - [subclass a b]: CPython's isinstance(obj of class a, b);
   - the merged, ordered type hints that typing.get_type_hints returns for the
     robot class, for every component class, its __init__ and every autonomous
     mode class;
   - the attributes a freshly constructed component / mode already has
     (class-level values and what __init__ assigns), i.e. hasattr;
   - dir(robot) after createObjects(), each name with its kind (descriptor on
     the class / bound method / other callable / not callable) and value.

   Names are Python identifiers (strings: the property is about the text of
   names, leading underscore and the "<component>_<name>" fallback).  Python
   objects are (identity, class, truthiness); [None : value] is Python's None,
   which for dict.get is also "no entry". *)
From Coq Require Import List String Ascii Bool Arith.
Import ListNotations.
Open Scope string_scope.

Definition name := string.
Definition cls := nat.

Record obj := { oid : nat; ocls : cls; otruthy : bool }.
Definition value := option obj.          (* None = Python None *)

(* A type hint as get_type_hints delivers it:
   HType c          a class;
   HAlias (Some c)  a generic alias whose __origin__ is the class c
                    (list[int], typing.List[K], typing.Sequence[int] ...);
   HAlias None      an alias whose __origin__ is not a class
                    (typing.Optional[K]: __origin__ is typing.Union);
   HNonType         anything else (1, "K | None", ...). *)
Inductive hint := HType (c : cls) | HAlias (origin : option cls) | HNonType.

(* EInject = magicbot.inject.MagicInjectError (a ValueError); EType = TypeError *)
Inductive error := EInject | EType.
Inductive res (A : Type) := Ok (a : A) | Err (e : error).
Arguments Ok {A} a.
Arguments Err {A} e.

(* n.startswith("_") *)
Definition is_private (n : name) : bool :=
  match n with String "_"%char _ => true | _ => false end.

(* f"{cname}_{n}" *)
Definition prefixed (cname n : name) : name := cname ++ "_" ++ n.

(* ---- the injectables dict ------------------------------------------- *)
(* Newest binding first; [get] is dict.get(n): None when the key is missing
   AND when the stored value is None. *)
Definition imap := list (name * value).
Fixpoint get (inj : imap) (n : name) : value :=
  match inj with
  | [] => None
  | (k, v) :: r => if String.eqb k n then v else get r n
  end.

(* ---- inject.py: get_injection_requests ------------------------------ *)
(* origin = getattr(t, "__origin__", None); if origin is not None: t = origin;
   isinstance(t, type) ?  *)
Definition hint_type (h : hint) : option cls :=
  match h with
  | HType c => Some c
  | HAlias (Some c) => Some c
  | HAlias None => None
  | HNonType => None
  end.

(* [component = None]: constructor parameters (component not instantiated yet);
   [component = Some has]: has n = hasattr(component, n). *)
Fixpoint get_requests (hints : list (name * hint)) (component : option (name -> bool))
  : res (list (name * cls)) :=
  match hints with
  | [] => Ok []
  | (n, h) :: rest =>
    if is_private n then
      match component with
      | None => Err EInject                     (* "Cannot inject into component __init__ param" *)
      | Some _ => get_requests rest component   (* continue *)
      end
    else if match component with Some has => has n | None => false end
    then get_requests rest component            (* already set: skip *)
    else match hint_type h with
         | None => Err EType                    (* non-type annotation *)
         | Some T =>
           match get_requests rest component with
           | Ok rq => Ok ((n, T) :: rq)
           | Err e => Err e
           end
         end
  end.

(* ---- inject.py: find_injections ------------------------------------- *)
Section WithSubclass.
Variable subclass : cls -> cls -> bool.

Fixpoint find_injections (requests : list (name * cls)) (inj : imap) (cname : name)
  : res (list (name * obj)) :=
  match requests with
  | [] => Ok []
  | (n, T) :: rest =>
    let injectable :=
      match get inj n with
      | Some o => Some o
      | None => get inj (prefixed cname n)      (* try prefixing the component name *)
      end in
    match injectable with
    | None => Err EInject                       (* absent from robot *)
    | Some o =>
      if subclass (ocls o) T then
        match find_injections rest inj cname with
        | Ok upd => Ok ((n, o) :: upd)
        | Err e => Err e
        end
      else Err EInject                          (* does not match type in robot *)
    end
  end.

(* ---- the robot definition ------------------------------------------- *)
(* One entry of dir(robot) after createObjects(): class-level and
   createObjects-level attributes alike. *)
Inductive akind :=
| KPlain        (* a value that is not callable (and none of the below) *)
| KCallable     (* callable(value) but NOT inspect.ismethod(value): an instance of a
                   class with __call__, a functools.partial, a class object, a function
                   stored on the instance or as a staticmethod, a builtin function *)
| KMethod       (* inspect.ismethod(value): a bound method (of the robot or of any
                   other object); always callable *)
| KDescriptor.  (* getattr(type(robot), n) is a property or a tunable *)

(* callable(getattr(robot, n)), for the kinds that are read at all *)
Definition kind_callable (k : akind) : bool :=
  match k with KCallable | KMethod => true | _ => false end.
(* inspect.ismethod(getattr(robot, n)) *)
Definition kind_ismethod (k : akind) : bool :=
  match k with KMethod => true | _ => false end.
Record rattr := { ra_name : name; ra_kind : akind; ra_value : value }.

(* What a component / mode instance already has when _setup_vars looks at it
   (hasattr).  A value is
   PConst v  a constant: class-level preset, or assigned in __init__;
   PParam p  the constructor argument of the parameter p (self.x = p in __init__);
   PBound v  the class attribute is a descriptor or marker that the framework
             binds: a magicbot.tunable -- tunable.__get__ reads
             instance._tunables, which setup_tunables(instance) creates, and
             _create_components calls setup_tunables(t) BEFORE
             _setup_vars(t) for every component and mode t, so hasattr is
             true and the attribute reads the tunable's value v -- or a
             magicbot.will_reset_to marker (the marker object is the class
             attribute: hasattr is true; for a component _setup_reset_vars
             then stores the default v).  Either way the attribute "already
             has a value". *)
Inductive pval := PConst (v : value) | PParam (p : name) | PBound (v : value).

Record classdef := {
  k_cls : cls;                             (* the class itself *)
  k_init_hints : list (name * hint);       (* get_type_hints(cls.__init__) minus "return" *)
  k_hints : list (name * hint);            (* get_type_hints(cls), merged over the MRO *)
  k_preset : list (name * pval);           (* hasattr(instance, n) right after construction *)
  k_setup : bool                           (* has a setup() method *)
}.
(* A robot annotation  m: K : the instance K( **injections) has identity c_oid.
   [c_class] describes THIS instance: several components may be instances of
   one class (same k_cls, k_init_hints, k_hints) and still differ in k_preset,
   because hasattr is a fact about the instance (an __init__ that sets an
   attribute depending on a constructor argument, ...). *)
Record compdef := { c_oid : nat; c_truthy : bool; c_class : classdef }.
Definition comp_obj (d : compdef) : obj :=
  {| oid := c_oid d; ocls := k_cls (c_class d); otruthy := c_truthy d |}.

Inductive rhint := RClass (d : compdef) | RNonType.

(* An autonomous mode object (already instantiated by the selector). *)
Record modedef := {
  m_name : name;                           (* MODE_NAME *)
  m_hints : list (name * hint);
  m_preset : list (name * pval);           (* PConst / PBound; a mode has no constructor arguments *)
  m_setup : bool
}.

Record robot := {
  r_dir : list rattr;                      (* dir(self), after createObjects() *)
  r_hints : list (name * rhint);           (* get_type_hints(type(self)) *)
  r_modes : list modedef                   (* self._automodes.modes.values() *)
}.

Definition mem (n : name) (l : list name) : bool := existsb (String.eqb n) l.

(* ---- MagicRobot._collect_injectables -------------------------------- *)
(* self._exclude_from_injection = ["logger"], a LIST: the test
   [n in self._exclude_from_injection] is [mem] -- n equals an element of the
   list --, not Python's substring test between two str.  A robot attribute
   called log, g, er, logg, loggers, Logger ... is an injectable like any other
   (Proofs: excluded_iff_logger, collect_rename, robot_attr_by_name_delivered_comp). *)
Definition exclude_from_injection : list name := ["logger"].
Definition excluded (n : name) : bool := mem n exclude_from_injection.

Fixpoint collect_injectables (dir : list rattr) : imap :=
  match dir with
  | [] => []
  | a :: rest =>
    if is_private (ra_name a) || mem (ra_name a) exclude_from_injection
       || match ra_kind a with KDescriptor => true | _ => false end
    then collect_injectables rest
    else if kind_ismethod (ra_kind a)                  (* if inspect.ismethod(o): continue *)
         then collect_injectables rest                  (* "don't inject methods" -- bound methods
                                                           only; other callables ARE injected *)
         else (ra_name a, ra_value a) :: collect_injectables rest
  end.

(* hasattr(self, m) for a robot annotation m.  (Components created earlier in
   the same loop are attributes too, but their names are other keys of the
   same dict and cannot equal m.) *)
Definition robot_has (r : robot) (m : name) : bool := mem m (map ra_name (r_dir r)).

(* ---- MagicRobot._create_component ----------------------------------- *)
Definition create_component (m : name) (d : compdef) (inj : imap) : res (list (name * obj)) :=
  match get_requests (k_init_hints (c_class d)) None with
  | Err e => Err e
  | Ok rq => find_injections rq inj m
  end.

Record created := { cr_name : name; cr_def : compdef; cr_kwargs : list (name * obj) }.

(* first loop of _create_components *)
Fixpoint construct (r : robot) (hints : list (name * rhint)) (inj : imap)
  : res (list created * imap) :=
  match hints with
  | [] => Ok ([], inj)
  | (m, h) :: rest =>
    if is_private m then construct r rest inj
    else if robot_has r m then construct r rest inj
    else match h with
         | RNonType => Err EType
         | RClass d =>
           match create_component m d inj with
           | Err e => Err e
           | Ok kw =>
             (* components.append((m, component)); injectables[m] = component *)
             match construct r rest ((m, Some (comp_obj d)) :: inj) with
             | Err e => Err e
             | Ok (cs, inj') => Ok ({| cr_name := m; cr_def := d; cr_kwargs := kw |} :: cs, inj')
             end
           end
         end
  end.

(* ---- MagicRobot._setup_vars, for components and autonomous modes ----- *)
Inductive tref := TComp (c : name) | TMode (m : name).
Definition tname (t : tref) : name := match t with TComp c => c | TMode m => m end.

Record target := { t_ref : tref; t_hints : list (name * hint); t_has : name -> bool }.

(* _create_component and the modes loop assign .logger before _setup_vars *)
Definition comp_has (d : compdef) (n : name) : bool :=
  String.eqb n "logger" || mem n (map fst (k_preset (c_class d))).
Definition mode_has (md : modedef) (n : name) : bool :=
  String.eqb n "logger" || mem n (map fst (m_preset md)).

Definition comp_target (m : name) (d : compdef) : target :=
  {| t_ref := TComp m; t_hints := k_hints (c_class d); t_has := comp_has d |}.
Definition mode_target (md : modedef) : target :=
  {| t_ref := TMode (m_name md); t_hints := m_hints md; t_has := mode_has md |}.

Definition setup_vars (tg : target) (inj : imap) : res (list (name * obj)) :=
  match get_requests (t_hints tg) (Some (t_has tg)) with
  | Err e => Err e
  | Ok rq => find_injections rq inj (tname (t_ref tg))
  end.

(* second and third loop of _create_components: every target is injected from
   the same, complete, map *)
Fixpoint inject_all (tgs : list target) (inj : imap) : res (list (tref * list (name * obj))) :=
  match tgs with
  | [] => Ok []
  | tg :: rest =>
    match setup_vars tg inj with
    | Err e => Err e
    | Ok upd =>                                  (* component.__dict__.update(injections) *)
      match inject_all rest inj with
      | Err e => Err e
      | Ok ups => Ok ((t_ref tg, upd) :: ups)
      end
    end
  end.

(* ---- MagicRobot._create_components ---------------------------------- *)
Record started := {
  st_comps : list created;                       (* self._components, with the ctor kwargs *)
  st_updates : list (tref * list (name * obj))   (* what was written into each __dict__ *)
}.

Definition startup (r : robot) : res started :=
  let injectables := collect_injectables (r_dir r) in
  match construct r (r_hints r) injectables with
  | Err e => Err e
  | Ok (cs, inj) =>
    match inject_all (map (fun c => comp_target (cr_name c) (cr_def c)) cs
                      ++ map mode_target (r_modes r)) inj with
    | Err e => Err e
    | Ok ups => Ok {| st_comps := cs; st_updates := ups |}
    end
  end.

(* ---- the driver station while the robot program starts ---------------- *)
(* What wpilib.DriverStation reports while robotInit() / _create_components()
   run: isFMSAttached() (a competition field is connected -- the robot code may
   well be (re)started then) and isEnabled(). *)
Record env := { fms_attached : bool; ds_enabled : bool }.

(* MagicRobot.onException, the one place of magicrobot.py where an error path
   reads the driver station, as the handler of
       try: <x>  except: self.onException()
   "if not wpilib.DriverStation.isFMSAttached(): raise" -- otherwise the error
   is reported to the driver station and the handler RETURNS: the block is
   abandoned where it failed ([dflt] is what it leaves behind) and execution
   goes on. *)
Definition on_exception {A : Type} (e : env) (x : res A) (dflt : A) : res A :=
  match x with
  | Ok a => Ok a
  | Err err => if fms_attached e then Ok dflt else Err err
  end.

(* _create_components in the environment e.  None of its statements is inside
   a try block -- not the creation loop, not the component loop, not the
   autonomous-mode loop -- and neither it nor _create_component, _setup_vars or
   inject.py read the driver station: e is not consulted and every error leaves
   robotInit().  (Proofs: startup_env_irrelevant, mode_fault_fails_in; the
   start-up that would consult it is Proofs.startup_tolerant.) *)
Definition startup_in (e : env) (r : robot) : res started := startup r.

(* ---- default values of __init__ parameters ------------------------------ *)
(* `def __init__(self, encoder: Encoder = None, gain: float = 1.0)`: what
   inspect.signature(cls.__init__) would show as the parameters' defaults.
   _create_component reads typing.get_type_hints(ctyp.__init__) only -- never
   the signature: EVERY annotated parameter is an injection request, looked up
   under its name / "<component>_<name>" and type-checked; a default is never
   an alternative to the robot's object and never a way around a failure.
   So defaults are carried along here only to say that they are not an input. *)
Definition init_defaults := list (name * value).            (* parameter -> its default *)

Definition create_component_dflt (dflt : init_defaults) (m : name) (d : compdef) (inj : imap)
  : res (list (name * obj)) := create_component m d inj.

(* start-up of a robot whose component classes declare the defaults [dd]
   (component name -> defaults of its class's __init__) in the environment e *)
Definition startup_dflt (dd : list (name * init_defaults)) (e : env) (r : robot) : res started :=
  startup_in e r.

(* The order in which things happen during a successful startup. *)
Inductive event :=
| EvCtor (c : name) (kwargs : list (name * obj))    (* ctyp( **kwargs) *)
| EvInject (t : tref) (upd : list (name * obj))     (* t.__dict__.update(upd) *)
| EvSetup (t : tref).                               (* t.setup() *)

Definition trace_of (r : robot) (s : started) : list event :=
  map (fun c => EvCtor (cr_name c) (cr_kwargs c)) (st_comps s)
  ++ map (fun u => EvInject (fst u) (snd u)) (st_updates s)
  ++ map (fun c => EvSetup (TComp (cr_name c)))
         (filter (fun c => k_setup (c_class (cr_def c))) (st_comps s))
  ++ map (fun md => EvSetup (TMode (m_name md))) (filter m_setup (r_modes r)).

Fixpoint before_first_setup (tr : list event) : list event :=
  match tr with
  | [] => []
  | EvSetup _ :: _ => []
  | e :: rest => e :: before_first_setup rest
  end.

(* ---- attribute state of a component / mode after some events --------- *)
Inductive aval :=
| Absent                 (* AttributeError *)
| Is (v : value)         (* None or a known object *)
| Opaque.                (* the logger the framework assigns *)

Definition tref_eqb (a b : tref) : bool :=
  match a, b with
  | TComp x, TComp y => String.eqb x y
  | TMode x, TMode y => String.eqb x y
  | _, _ => false
  end.

Fixpoint assoc {A : Type} (n : name) (l : list (name * A)) : option A :=
  match l with
  | [] => None
  | (k, v) :: r => if String.eqb k n then Some v else assoc n r
  end.

(* the value an EvInject event of the trace stored under t.n, if any *)
Fixpoint injected (evs : list event) (t : tref) (n : name) : option obj :=
  match evs with
  | [] => None
  | EvInject t' upd :: rest =>
    match (if tref_eqb t' t then assoc n upd else None) with
    | Some o => Some o
    | None => injected rest t n
    end
  | _ :: rest => injected rest t n
  end.

Fixpoint kwargs_of (evs : list event) (c : name) : list (name * obj) :=
  match evs with
  | [] => []
  | EvCtor c' kw :: rest => if String.eqb c' c then kw else kwargs_of rest c
  | _ :: rest => kwargs_of rest c
  end.

(* The robot annotations that become components (public, not an attribute of
   the robot yet, annotated with a class), in declaration order. *)
Definition components (r : robot) : list (name * compdef) :=
  flat_map (fun mh =>
    if is_private (fst mh) || robot_has r (fst mh) then []
    else match snd mh with RClass d => [(fst mh, d)] | RNonType => [] end) (r_hints r).

Fixpoint find_mode (m : name) (l : list modedef) : option modedef :=
  match l with
  | [] => None
  | md :: rest => if String.eqb (m_name md) m then Some md else find_mode m rest
  end.

(* what a fresh instance has under n, before any injection *)
Definition initial_attr (r : robot) (evs : list event) (t : tref) (n : name) : aval :=
  match t with
  | TComp c =>
    match assoc c (components r) with
    | None => Absent
    | Some d =>
      match assoc n (k_preset (c_class d)) with
      | Some (PConst v) => Is v
      | Some (PBound v) => Is v
      | Some (PParam p) =>
        match assoc p (kwargs_of evs c) with Some o => Is (Some o) | None => Absent end
      | None => if String.eqb n "logger" then Opaque else Absent
      end
    end
  | TMode m =>
    match find_mode m (r_modes r) with
    | None => Absent
    | Some md =>
      match assoc n (m_preset md) with
      | Some (PConst v) => Is v
      | Some (PBound v) => Is v
      | Some (PParam _) => Absent
      | None => if String.eqb n "logger" then Opaque else Absent
      end
    end
  end.

(* getattr(t, n) after the events evs *)
Definition attr_at (r : robot) (evs : list event) (t : tref) (n : name) : aval :=
  match injected evs t n with
  | Some o => Is (Some o)
  | None => initial_attr r evs t n
  end.

(* ---- canonical observation, compared with the implementation --------- *)
Inductive tok := TStr (s : string) | TNat (n : nat) | TAbs | TNone | TOther | TSep.

Definition tok_of_aval (a : aval) : tok :=
  match a with
  | Absent => TAbs
  | Is None => TNone
  | Is (Some o) => TNat (oid o)
  | Opaque => TOther
  end.

(* the attribute names the harness reads on a target *)
Definition watch_comp (d : compdef) : list name :=
  map fst (k_hints (c_class d)) ++ map fst (k_init_hints (c_class d))
  ++ map fst (k_preset (c_class d)).
Definition watch_mode (md : modedef) : list name :=
  map fst (m_hints md) ++ map fst (m_preset md).

Definition snapshot (r : robot) (s : started) (evs : list event) : list tok :=
  flat_map (fun c => TSep :: TStr (cr_name c)
              :: map (fun n => tok_of_aval (attr_at r evs (TComp (cr_name c)) n))
                     (watch_comp (cr_def c))) (st_comps s)
  ++ flat_map (fun md => TSep :: TStr (m_name md)
              :: map (fun n => tok_of_aval (attr_at r evs (TMode (m_name md)) n))
                     (watch_mode md)) (r_modes r).

(* the snapshots taken at every setup() call: the state after the events that
   precede it *)
Fixpoint setup_snapshots (r : robot) (s : started) (done todo : list event) : list (list tok) :=
  match todo with
  | [] => []
  | EvSetup t :: rest => snapshot r s done :: setup_snapshots r s (done ++ [EvSetup t]) rest
  | e :: rest => setup_snapshots r s (done ++ [e]) rest
  end.

Record observation := {
  ob_ctor : list tok;             (* per component: name, identity, kwargs *)
  ob_setups : list (list tok);    (* state of every target at each setup() call *)
  ob_final : list tok             (* state of every target after startup *)
}.

Definition observe (r : robot) (s : started) : observation :=
  {| ob_ctor := flat_map (fun c => TSep :: TStr (cr_name c) :: TNat (c_oid (cr_def c))
                   :: flat_map (fun kv => [TStr (fst kv); TNat (oid (snd kv))]) (cr_kwargs c))
                   (st_comps s);
     ob_setups := setup_snapshots r s [] (trace_of r s);
     ob_final := snapshot r s (trace_of r s) |}.

End WithSubclass.

(* ---- comparison with the implementation (used by work/C08/cases_*.v) -- *)
Definition tok_eqb (a b : tok) : bool :=
  match a, b with
  | TStr x, TStr y => String.eqb x y
  | TNat x, TNat y => Nat.eqb x y
  | TAbs, TAbs | TNone, TNone | TOther, TOther | TSep, TSep => true
  | _, _ => false
  end.

Fixpoint toks_eqb (a b : list tok) : bool :=
  match a, b with
  | [], [] => true
  | x :: a', y :: b' => tok_eqb x y && toks_eqb a' b'
  | _, _ => false
  end.

Fixpoint tokss_eqb (a b : list (list tok)) : bool :=
  match a, b with
  | [], [] => true
  | x :: a', y :: b' => toks_eqb x y && tokss_eqb a' b'
  | _, _ => false
  end.

Definition obs_eqb (a b : observation) : bool :=
  toks_eqb (ob_ctor a) (ob_ctor b) && tokss_eqb (ob_setups a) (ob_setups b)
  && toks_eqb (ob_final a) (ob_final b).

(* isinstance as a finite table (a, b): instances of class a are instances of b *)
Definition sub_of (pairs : list (cls * cls)) (a b : cls) : bool :=
  existsb (fun p => Nat.eqb (fst p) a && Nat.eqb (snd p) b) pairs.

(* what the implementation did: 0 started, 1 MagicInjectError, 2 TypeError,
   3 anything else.  [ir_strict = false]: the definition has faults of both
   error classes; which one is reported first is not compared. *)
Record impl_result := { ir_outcome : nat; ir_strict : bool; ir_obs : observation }.

Definition check_case (pairs : list (cls * cls)) (r : robot) (ir : impl_result) : bool :=
  match startup (sub_of pairs) r, ir_outcome ir with
  | Ok s, 0 => obs_eqb (observe r s) (ir_obs ir)
  | Err EInject, 1 => true
  | Err EType, 2 => true
  | Err EInject, 2 => negb (ir_strict ir)
  | Err EType, 1 => negb (ir_strict ir)
  | _, _ => false
  end.

(* the same with the state of the driver station the implementation was started in *)
Definition check_case_in (pairs : list (cls * cls)) (e : env) (r : robot) (ir : impl_result) : bool :=
  match startup_in (sub_of pairs) e r, ir_outcome ir with
  | Ok s, 0 => obs_eqb (observe r s) (ir_obs ir)
  | Err EInject, 1 => true
  | Err EType, 2 => true
  | Err EInject, 2 => negb (ir_strict ir)
  | Err EType, 1 => negb (ir_strict ir)
  | _, _ => false
  end.

Fixpoint bad_in (i : nat) (l : list (list (cls * cls) * env * robot * impl_result)) : list nat :=
  match l with
  | [] => []
  | (pairs, e, r, ir) :: rest =>
    if check_case_in pairs e r ir then bad_in (S i) rest else i :: bad_in (S i) rest
  end.

(* ... and with the defaults the component classes of the implementation declared *)
Definition check_case_dflt (pairs : list (cls * cls)) (dd : list (name * init_defaults)) (e : env)
  (r : robot) (ir : impl_result) : bool :=
  match startup_dflt (sub_of pairs) dd e r, ir_outcome ir with
  | Ok s, 0 => obs_eqb (observe r s) (ir_obs ir)
  | Err EInject, 1 => true
  | Err EType, 2 => true
  | Err EInject, 2 => negb (ir_strict ir)
  | Err EType, 1 => negb (ir_strict ir)
  | _, _ => false
  end.

Fixpoint bad_dflt (i : nat)
  (l : list (list (cls * cls) * list (name * init_defaults) * env * robot * impl_result)) : list nat :=
  match l with
  | [] => []
  | (pairs, dd, e, r, ir) :: rest =>
    if check_case_dflt pairs dd e r ir then bad_dflt (S i) rest else i :: bad_dflt (S i) rest
  end.

Fixpoint bad (i : nat) (l : list (list (cls * cls) * robot * impl_result)) : list nat :=
  match l with
  | [] => []
  | (pairs, r, ir) :: rest =>
    if check_case pairs r ir then bad (S i) rest else i :: bad (S i) rest
  end.
