(* The translation of inject.py's two loops (Inject/SrcInject.v, regenerated from the source by every C08 check) computes
   exactly get_requests / find_injections of Inject/Model.v, on which the C08 theorems are proved. *)
From Coq Require Import List String Ascii Bool Arith.
Import ListNotations.
Open Scope string_scope.
From RV Require Import Inject.Model Inject.SrcInject.

Theorem ref_get_requests_spec : forall hints component, ref_get_requests hints component = get_requests hints component.
Proof.
  induction hints as [|[n t] rest IH]; intros component; cbn [ref_get_requests get_requests]; [reflexivity|].
  rewrite IH. unfold hint_type, origin_attr.
  destruct (is_private n); [destruct component; reflexivity|].
  destruct component as [has|]; [destruct (has n); [reflexivity|]|];
    destruct t as [c|[c|]|]; reflexivity.
Qed.

Theorem ref_find_injections_spec : forall subclass requests inj cname,
  ref_find_injections subclass requests inj cname = find_injections subclass requests inj cname.
Proof.
  intros subclass; induction requests as [|[n t] rest IH]; intros inj cname; cbn [ref_find_injections find_injections]; [reflexivity|].
  rewrite IH.
  destruct (get inj n) as [o|]; [reflexivity|].
  destruct (get inj (prefixed cname n)) as [o|]; reflexivity.
Qed.
Print Assumptions ref_get_requests_spec.
Print Assumptions ref_find_injections_spec.
