(* magicbot/inject.py: get_injection_requests() and find_injections(), translated from the pinned source by
   harness/c08_translate.py (`python -m harness.c08_translate --ref /repo`): the loop over the dict items as a Fixpoint over
   the item list.  Every C08 check translates the CURRENT source again (work/C08/Gen_inject.v) and proves the result equal to
   these; Inject/SrcInjectProofs.v proves them equal to get_requests / find_injections of Inject/Model.v.  No proofs here. *)
From Coq Require Import List String Ascii Bool Arith.
Import ListNotations.
Open Scope string_scope.
From RV Require Import Inject.Model.

(* getattr(t, "__origin__", None) on a hint as get_type_hints delivers it *)
Definition origin_attr (h : hint) : option hint :=
  match h with
  | HAlias (Some c) => Some (HType c)
  | HAlias None => Some HNonType
  | _ => None
  end.

Section WithSubclass.
Variable subclass : cls -> cls -> bool.
(* BEGIN translator output *)
(* inject.py: get_injection_requests *)
Fixpoint ref_get_requests (hints : list (name * hint)) (component : option (name -> bool)) {struct hints} : res (list (name * cls)) :=
  match hints with
  | [] => Ok []
  | (n, t) :: rest => (if is_private n then (match component with Some has1 => (ref_get_requests rest component) | None => (Err EInject) end) else (match component with Some has2 => (if has2 n then (ref_get_requests rest component) else (match (origin_attr t) with Some o3 => (match o3 with HType c4 => (match (ref_get_requests rest component) with Ok u => Ok ((n, c4) :: u) | Err e => Err e end) | _ => (Err EType) end) | None => (match t with HType c5 => (match (ref_get_requests rest component) with Ok u => Ok ((n, c5) :: u) | Err e => Err e end) | _ => (Err EType) end) end)) | None => (match (origin_attr t) with Some o6 => (match o6 with HType c7 => (match (ref_get_requests rest component) with Ok u => Ok ((n, c7) :: u) | Err e => Err e end) | _ => (Err EType) end) | None => (match t with HType c8 => (match (ref_get_requests rest component) with Ok u => Ok ((n, c8) :: u) | Err e => Err e end) | _ => (Err EType) end) end) end))
  end.
(* inject.py: find_injections *)
Fixpoint ref_find_injections (requests : list (name * cls)) (inj : imap) (cname : name) {struct requests} : res (list (name * obj)) :=
  match requests with
  | [] => Ok []
  | (n, t) :: rest => (match (get inj n) with Some o1 => (if subclass (ocls o1) t then (match (ref_find_injections rest inj cname) with Ok u => Ok ((n, o1) :: u) | Err e => Err e end) else (Err EInject)) | None => (match (get inj (prefixed cname n)) with Some o2 => (if subclass (ocls o2) t then (match (ref_find_injections rest inj cname) with Ok u => Ok ((n, o2) :: u) | Err e => Err e end) else (Err EInject)) | None => (Err EInject) end) end)
  end.
(* END translator output *)
End WithSubclass.
