(* The float part of `self._delay_period = round(delay_period * 1e6)` (NotifierDelay.__init__; the same expression converts
   SimpleWatchdog's timeout): IEEE-754 binary64 arithmetic as the kernel's primitive floats compute it (round to nearest even,
   the arithmetic CPython's float uses).  No proofs in this file.

   period_of_us z : the double a user writes for a period of z whole microseconds -- the double nearest to z / 10^6, which is
                    what the decimal literal (0.02, 0.001001, ...) parses to and what the correctly rounded division gives;
   us_of_period p : round(p * 1e6) for 0 <= p * 1e6 < 2^51: Python's round() of a float is round-half-even to an integer,
                    i.e. (x + 2^52) - 2^52 in round-to-nearest-even arithmetic;
   floorf         : int(x) for x >= 0 (the pre-fix code, defect D7). *)
From Coq Require Import ZArith Bool PrimFloat Uint63.
Open Scope float_scope.

Definition two52 : float := 4503599627370496.
Definition rint (x : float) : float := (x + two52 - two52).
Definition us_of_period (p : float) : float := rint (p * 1000000).
Definition fz (z : Z) : float := of_uint63 (Uint63.of_Z z).
Definition period_of_us (z : Z) : float := (fz z / 1000000).
(* round(delay_period * 1e6) gives back exactly z *)
Definition okz (z : Z) : bool := PrimFloat.eqb (us_of_period (period_of_us z)) (fz z).
Definition floorf (x : float) : float := let r := rint x in if PrimFloat.ltb x r then r - 1 else r.
(* int(delay_period * 1e6) gives back exactly z *)
Definition okt (z : Z) : bool := PrimFloat.eqb (floorf (period_of_us z * 1000000)) (fz z).

Open Scope Z_scope.
Fixpoint inner (fuel : nat) (z : Z) : bool := match fuel with O => true | S f => okz z && inner f (z + 1) end.
Fixpoint outer (fuel : nat) (z : Z) : bool := match fuel with O => true | S f => inner 1000 z && outer f (z + 1000) end.
