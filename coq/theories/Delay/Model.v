(* Model of robotpy_ext/misc/precise_delay.py (class NotifierDelay), statement
   by statement.  No proofs in this file.

   Time is the simulated FPGA clock in integer microseconds (Z).  Python
   statements take no FPGA time: the clock moves only while the loop body runs
   ([Body b]) or while a wait blocks in the HAL.

   What is NOT the library's code and is modelled as a function (validated by
   the correspondence run against the simulated HAL on every check):
     [hal_wait]  HAL_WaitForNotifierAlarm: a wait issued at t_call on a
                 notifier whose alarm is a returns at max t_call a; on a
                 stopped notifier it returns at once. *)
From Coq Require Import ZArith QArith Qround List Bool.
Import ListNotations.
Open Scope Z_scope.

(* ------------------------------------------------------------------ *)
(* round(delay_period * 1e6): Python's round() of a float is round-half-to-
   even.  The float product is idealised as the exact rational product
   (the finite float part is swept at run time, see harness/c16.py). *)
Definition round_half_even (x : Q) : Z :=
  let f := Qfloor x in
  match Qcompare (x - inject_Z f) (1 # 2) with
  | Lt => f
  | Gt => f + 1
  | Eq => if Z.even f then f else f + 1
  end.

Definition period_us (P : Q) : Z := round_half_even (P * inject_Z 1000000).

(* the conversion the code had before the D8 repair: int(delay_period * 1e6),
   truncation (= floor on the non-negative values that pass the 1 ms test) *)
Definition period_us_int (P : Q) : Z := Qfloor (P * inject_Z 1000000).

(* ------------------------------------------------------------------ *)
Record nd := mkND {
  period   : Z;         (* self.delay_period          (microseconds)        *)
  expiry   : Z;         (* self._expiry_time                                *)
  live     : bool;      (* self._notifier is not None                       *)
  alarm    : option Z;  (* HAL: alarm programmed on the notifier handle;
                           None once the notifier is stopped                *)
  released : nat        (* HAL: stopNotifier+cleanNotifier issued on the
                           handle, counted                                  *)
}.

(* HAL_WaitForNotifierAlarm *)
Definition hal_wait (a : option Z) (t_call : Z) : Z :=
  match a with
  | Some t => Z.max t_call t
  | None => t_call
  end.

(* __init__, after the period test, at FPGA time t0:
     self.delay_period = p
     self._notifier = hal.initializeNotifier()[0]
     self._expiry_time = getFPGATime() + self.delay_period
     self._update_alarm(self._notifier)                                     *)
Definition create (p t0 : Z) : nd :=
  let e := t0 + p in mkND p e true (Some e) 0.

(* __init__ with its argument in seconds.  [None] is the ValueError of
   `if delay_period < 0.001`.  The threshold is idealised as 1/1000: no double
   lies strictly between 1/1000 and the double 0.001, so for every double the
   two tests agree. *)
Definition create_opt (P : Q) (t0 : Z) : option nd :=
  match Qcompare P (1 # 1000) with
  | Lt => None
  | _ => Some (create (period_us P) t0)
  end.

(* wait(), called at FPGA time [now]; returns the new object and the FPGA time
   at which the call returns.
     handle = self._notifier
     if handle is None: return
     hal.waitForNotifierAlarm(handle)
     self._expiry_time += self.delay_period
     self._update_alarm(handle)                                             *)
Definition wait (d : nd) (now : Z) : nd * Z :=
  if live d then
    let t := hal_wait (alarm d) now in
    let e := expiry d + period d in
    (mkND (period d) e true (Some e) (released d), t)
  else (d, now).

(* free() -- also __exit__ and __del__, which only call free():
     handle = self._notifier
     if handle is None: return
     hal.stopNotifier(handle); hal.cleanNotifier(handle)
     self._notifier = None                                                  *)
Definition free (d : nd) : nd :=
  if live d then mkND (period d) (expiry d) false None (S (released d))
  else d.

(* __enter__():
     return self
   Nothing else: no field is written, the HAL is not touched, the clock is not
   read -- in particular the grid stays anchored where __init__ put it, however
   long after the construction the with-block is entered.  Result: the object,
   and whether the value returned (what `as` binds) is the object itself. *)
Definition enter (d : nd) : nd * bool := (d, true).

(* The with-statement.  `with <delay> as name: <block>` calls
   __enter__ (returns self, nothing else) and, HOWEVER the block is left,
   __exit__(exc_type, exc_val, exc_tb): with (None, None, None) when the block
   runs to its end or is left by break / continue / return, with the exception
   when one is raised inside the block.  If __exit__ returns a true value the
   exception is swallowed, otherwise it is re-raised after __exit__. *)

(* the exception classes the correspondence raises inside the block (the model
   does not look at the class: Exception subclasses, StopIteration, and the
   BaseException-only classes are all the same to __exit__) *)
Inductive exn := RuntimeErr | ValueErr | StopIter | KeyboardInt | SysExit | GenExit.

(* how the with-block is left *)
Inductive leave :=
| EndOfBlock            (* the block ran to its end *)
| BreakOut              (* break (or continue) of a loop around the with *)
| ReturnOut             (* return from the function containing the with *)
| Raised (e : exn).     (* an exception raised in the block *)

(* the (exc_type, exc_val, exc_tb) that __exit__ receives: None = all three None *)
Definition exc_info (h : leave) : option exn :=
  match h with Raised e => Some e | _ => None end.

(* __exit__(exc_type, exc_val, exc_tb):
     self.free()
   and falls off the end: returns None.  Result: the object, and the truth
   value of what __exit__ returned ([true] would swallow the exception). *)
Definition exit_ (d : nd) (exc : option exn) : nd * bool := (free d, false).

(* the with-statement's protocol: does an exception come out of the statement,
   given what __exit__ received and the truth value it returned *)
Definition propagates (exc : option exn) (swallow : bool) : bool :=
  match exc with
  | Some _ => negb swallow
  | None => false
  end.

(* ------------------------------------------------------------------ *)
(* What the user's loop does with the object. *)
Inductive op :=
| Body (b : Z)     (* the loop body runs for b microseconds of FPGA time *)
| Wait             (* delay.wait() *)
| Free             (* delay.free(), or __del__ (which only calls free()) *)
| Enter            (* delay.__enter__(): a with-block on the object is entered
                      (at the construction instant in `with NotifierDelay(P)
                      as delay:`, or any time later in `with delay:`) *)
| Exit (exc : option exn).
                   (* delay.__exit__(...): the with-block is left; exc = the
                      exception that leaves it, None when there is none *)

(* leaving the with-block in the way [h] *)
Definition leave_with (h : leave) : op := Exit (exc_info h).

Definition step (s : nd * Z) (o : op) : nd * Z :=
  let (d, now) := s in
  match o with
  | Body b => (d, now + b)
  | Wait => wait d now
  | Free => (free d, now)
  | Enter => (fst (enter d), now)
  | Exit e => (fst (exit_ d e), now)
  end.

Definition final (s : nd * Z) (ops : list op) : nd * Z := fold_left step ops s.

(* one record per wait(): FPGA time at the call, FPGA time at the return *)
Fixpoint wait_log (s : nd * Z) (ops : list op) : list (Z * Z) :=
  match ops with
  | [] => []
  | o :: r =>
      let s' := step s o in
      match o with
      | Wait => (snd s, snd s') :: wait_log s' r
      | _ => wait_log s' r
      end
  end.

(* what an observer outside the object sees after each wait()/free(),
   __enter__ or __exit__: the FPGA clock, the alarm the HAL holds, the number of releases
   so far (nothing is recorded after a body: it only moves the clock) *)
Definition snap : Type := Z * option Z * nat.
Definition snap_of (s : nd * Z) : snap := (snd s, alarm (fst s), released (fst s)).
Fixpoint snaps (s : nd * Z) (ops : list op) : list snap :=
  match ops with
  | [] => []
  | o :: r =>
      let s' := step s o in
      match o with
      | Body _ => snaps s' r
      | _ => snap_of s' :: snaps s' r
      end
  end.

(* the schedules of the property: a list of loop-body durations, each followed
   by a wait() *)
Definition sched (bs : list Z) : list op := flat_map (fun b => [Body b; Wait]) bs.

(* the object is built first, set-up work takes [setup] microseconds, THEN the
   with-block is entered and the loop runs inside it:
     delay = NotifierDelay(P); <set-up>; with delay: (body(b); delay.wait())*  *)
Definition entered_late (setup : Z) (bs : list Z) : list op :=
  Body setup :: Enter :: sched bs.

(* the operations that neither release the notifier nor are part of the
   property's loop can occur anywhere: [is_enter] recognises __enter__ *)
Definition is_enter (o : op) : bool :=
  match o with Enter => true | _ => false end.
Definition without_enter (ops : list op) : list op :=
  filter (fun o => negb (is_enter o)) ops.

(* the k-th point of the grid anchored at construction time *)
Definition grid (t0 p : Z) (k : nat) : Z := t0 + Z.of_nat k * p.

(* how late the i-th record of a log is with respect to its grid point
   (the i-th record, counted from 0, belongs to the (i+1)-th wait) *)
Definition lateness (t0 p : Z) (i : nat) (rec : Z * Z) : Z := snd rec - grid t0 p (S i).

(* the operations that must release the notifier: free()/__del__ and every
   __exit__, whatever it receives *)
Definition is_free (o : op) : bool :=
  match o with
  | Free => true
  | Exit _ => true
  | _ => false
  end.

(* one record per __enter__: is the value it returns the object itself *)
Fixpoint enter_log (s : nd * Z) (ops : list op) : list bool :=
  match ops with
  | [] => []
  | o :: r =>
      let s' := step s o in
      match o with
      | Enter => snd (enter (fst s)) :: enter_log s' r
      | _ => enter_log s' r
      end
  end.

(* one record per __exit__: does an exception come out of the with-statement *)
Fixpoint exit_log (s : nd * Z) (ops : list op) : list bool :=
  match ops with
  | [] => []
  | o :: r =>
      let s' := step s o in
      match o with
      | Exit e => propagates e (snd (exit_ (fst s) e)) :: exit_log s' r
      | _ => exit_log s' r
      end
  end.

(* ------------------------------------------------------------------ *)
(* correspondence: one case = constructor argument (exact rational of the
   double), t0, operations, and the observations.  Observations are written
   as one flat list of integers (flat literals elaborate much faster):
   a snapshot (t, alarm, released) is [t; 1; a; released] or [t; 0; 0; released]. *)
Definition flat (s : snap) : list Z :=
  let '(t, a, r) := s in
  match a with
  | Some x => [t; 1; x; Z.of_nat r]
  | None => [t; 0; 0; Z.of_nat r]
  end.

Fixpoint list_eqb {A} (e : A -> A -> bool) (l1 l2 : list A) : bool :=
  match l1, l2 with
  | [], [] => true
  | x :: r1, y :: r2 => e x y && list_eqb e r1 r2
  | _, _ => false
  end.

(* what the model predicts for a case: None = the constructor raises
   ValueError; Some (period :: snapshot after the constructor ++ snapshots
   after each wait/free/__enter__/__exit__ ++ one 0/1 per __exit__: did an
   exception come out of the with-statement ++ one 0/1 per __enter__: did it
   return the object itself) *)
Definition predict (P : Q) (t0 : Z) (ops : list op) : option (list Z) :=
  match create_opt P t0 with
  | None => None
  | Some d => Some (period d :: flat (snap_of (d, t0)) ++ flat_map flat (snaps (d, t0) ops)
                             ++ map (fun b : bool => if b then 1 else 0) (exit_log (d, t0) ops)
                             ++ map (fun b : bool => if b then 1 else 0) (enter_log (d, t0) ops))
  end.

Definition case : Type := Q * Z * list op * option (list Z).

Definition case_ok (c : case) : bool :=
  let '(P, t0, ops, observed) := c in
  match predict P t0 ops, observed with
  | None, None => true
  | Some l, Some l' => list_eqb Z.eqb l l'
  | _, _ => false
  end.

Fixpoint bad (i : nat) (l : list case) : list nat :=
  match l with
  | [] => []
  | c :: r => if case_ok c then bad (S i) r else i :: bad (S i) r
  end.

(* ------------------------------------------------------------------ *)
(* Two threads: a release while a wait() is in progress.

   The usual way to shut down a timed loop that runs in its own thread: the
   loop thread is blocked inside delay.wait() (in hal.waitForNotifierAlarm) and
   ANOTHER thread calls delay.free() or leaves the with-block.  hal.stopNotifier
   wakes the waiting thread, whose wait() then runs its remaining statements on
   an object that has meanwhile been released.

   wait() is therefore split at the HAL call into its two halves; the other
   thread's operations (whole operations of [op]: free()/__exit__/__enter__ are
   atomic with respect to the halves, time passing is a [Body]) can lie between
   them.

   Modelled HAL behaviour (assumptions, validated by the correspondence run on
   the simulated HAL with a real second thread):
     - a thread inside hal.waitForNotifierAlarm comes back at the alarm, or at
       once when the notifier is stopped: the call returns at
       [hal_wait (alarm d) now] taken when the second half runs;
     - hal.updateNotifierAlarm on a handle that has been cleaned does nothing
       ([hal_update]);
     - the binding rejects None where a handle is expected: TypeError. *)

(* hal.updateNotifierAlarm(<the handle of d>, t): the alarm the HAL holds
   afterwards *)
Definition hal_update (d : nd) (t : Z) : option Z :=
  match released d with
  | O => Some t
  | S _ => None
  end.

(* first half of wait():
     handle = self._notifier
     if handle is None: return
     hal.waitForNotifierAlarm(handle)          <- the call is entered
   [None]: wait() has returned (at once).  [Some h]: the thread is inside the
   HAL call; h is its local variable `handle` seen as "is not None" *)
Definition wait_begin (d : nd) : option bool :=
  if live d then Some true else None.

(* second half of wait(), run at FPGA time [now] by the thread whose local
   variable `handle` is [handle], on the object as it is THEN:
     <hal.waitForNotifierAlarm(handle) returns>
     self._expiry_time += self.delay_period
     self._update_alarm(handle)       i.e. hal.updateNotifierAlarm(handle, self._expiry_time)
   Result: the object, the FPGA time at which wait() is left, and whether it is
   left by an exception (the TypeError of a None handle) instead of returning *)
Definition wait_end (d : nd) (handle : bool) (now : Z) : nd * Z * bool :=
  let t := hal_wait (alarm d) now in
  let e := expiry d + period d in
  if handle
  then (mkND (period d) e (live d) (hal_update d e) (released d), t, false)
  else (mkND (period d) e (live d) (alarm d) (released d), t, true).

(* what the two threads do, in the order in which it happens *)
Inductive cop :=
| Other (o : op)   (* a whole operation of [op], by the thread that is not
                      inside wait() (while no wait() is in progress: by any
                      thread) *)
| WaitBegin        (* the loop thread calls wait(): first half *)
| WaitEnd.         (* the loop thread's HAL call returns: second half *)

Record conc := mkC {
  c_obj     : nd;     (* the object and the HAL side *)
  c_now     : Z;      (* the FPGA clock *)
  c_pend    : option (option bool * Z);
                      (* the wait() in progress: what its first half gave
                         ([wait_begin]) and the FPGA time of the call *)
  c_outside : bool    (* the history has left what is modelled: two wait()
                         calls in progress at once, or a second half without a
                         first; such a step changes nothing else *)
}.

Definition cinit (d : nd) (t : Z) : conc := mkC d t None false.

Definition cflag (s : conc) : conc := mkC (c_obj s) (c_now s) (c_pend s) true.

Definition cstep (s : conc) (o : cop) : conc :=
  match o, c_pend s with
  | Other Wait, Some _ => cflag s
  | Other o', _ =>
      let s' := step (c_obj s, c_now s) o' in
      mkC (fst s') (snd s') (c_pend s) (c_outside s)
  | WaitBegin, None =>
      mkC (c_obj s) (c_now s) (Some (wait_begin (c_obj s), c_now s)) (c_outside s)
  | WaitBegin, Some _ => cflag s
  | WaitEnd, Some (Some h, _) =>
      let r := wait_end (c_obj s) h (c_now s) in
      mkC (fst (fst r)) (snd (fst r)) None (c_outside s)
  | WaitEnd, Some (None, _) => mkC (c_obj s) (c_now s) None (c_outside s)
  | WaitEnd, None => cflag s
  end.

Definition crun (s : conc) (h : list cop) : conc := fold_left cstep h s.

(* one record per wait() that has been left: FPGA time of the call, FPGA time
   at which it was left, left by an exception *)
Fixpoint clog (s : conc) (h : list cop) : list (Z * Z * bool) :=
  match h with
  | [] => []
  | o :: r =>
      let s' := cstep s o in
      match o, c_pend s with
      | Other Wait, None => (c_now s, c_now s', false) :: clog s' r
      | WaitEnd, Some (Some hd, c) =>
          (c, c_now s', snd (wait_end (c_obj s) hd (c_now s))) :: clog s' r
      | WaitEnd, Some (None, c) => (c, c, false) :: clog s' r
      | _, _ => clog s' r
      end
  end.

(* the releasing operations of a two-thread history *)
Definition crel (o : cop) : bool :=
  match o with Other o' => is_free o' | _ => false end.

(* a sequential use seen as a two-thread history: every wait() runs its two
   halves with nothing in between *)
Definition seq_cops (ops : list op) : list cop :=
  flat_map (fun o => match o with Wait => [WaitBegin; WaitEnd] | _ => [Other o] end) ops.

(* the sequential use that a two-thread history amounts to when nobody releases
   the object: what the other thread does during a wait() happens before the
   wait() whose HAL call returns afterwards *)
Definition lin (h : list cop) : list op :=
  flat_map (fun o => match o with Other o' => [o'] | WaitBegin => [] | WaitEnd => [Wait] end) h.

(* well-bracketed: halves alternate, no other wait() while one is in progress,
   no wait() left in progress at the end ([inside]: one is in progress now) *)
Fixpoint cwf (inside : bool) (h : list cop) : bool :=
  match h with
  | [] => negb inside
  | WaitBegin :: r => negb inside && cwf true r
  | WaitEnd :: r => inside && cwf false r
  | Other Wait :: r => negb inside && cwf inside r
  | Other _ :: r => cwf inside r
  end.

(* what the other thread does while the wait() is blocked and the object still
   armed: time passes, a with-block is entered *)
Definition cquiet (o : cop) : bool :=
  match o with Other (Body _) => true | Other Enter => true | _ => false end.

(* operations of the other thread that take no FPGA time and are no wait() *)
Definition cinstant (o : cop) : bool :=
  match o with Other Free => true | Other Enter => true | Other (Exit _) => true | _ => false end.

Fixpoint cbodies (h : list cop) : Z :=
  match h with
  | [] => 0
  | Other (Body b) :: r => b + cbodies r
  | _ :: r => cbodies r
  end.

(* observations of a two-thread history: a snapshot after every operation
   except bodies and first halves (during a first half nothing observable
   changes) *)
Definition csnap_of (s : conc) : snap := (c_now s, alarm (c_obj s), released (c_obj s)).
Fixpoint csnaps (s : conc) (h : list cop) : list snap :=
  match h with
  | [] => []
  | o :: r =>
      let s' := cstep s o in
      match o with
      | Other (Body _) => csnaps s' r
      | WaitBegin => csnaps s' r
      | _ => csnap_of s' :: csnaps s' r
      end
  end.

Fixpoint cexit_log (s : conc) (h : list cop) : list bool :=
  match h with
  | [] => []
  | o :: r =>
      let s' := cstep s o in
      match o with
      | Other (Exit e) => propagates e (snd (exit_ (c_obj s) e)) :: cexit_log s' r
      | _ => cexit_log s' r
      end
  end.

Fixpoint center_log (s : conc) (h : list cop) : list bool :=
  match h with
  | [] => []
  | o :: r =>
      let s' := cstep s o in
      match o with
      | Other Enter => snd (enter (c_obj s)) :: center_log s' r
      | _ => center_log s' r
      end
  end.

(* prediction for a two-thread case: as [predict], then per wait() left through
   its two halves the FPGA time at which it was left and 1 if by an exception,
   then 1 if the history left the model *)
Definition cpredict (P : Q) (t0 : Z) (h : list cop) : option (list Z) :=
  match create_opt P t0 with
  | None => None
  | Some d =>
      let s := cinit d t0 in
      Some (period d :: flat (snap_of (d, t0)) ++ flat_map flat (csnaps s h)
              ++ map (fun b : bool => if b then 1 else 0) (cexit_log s h)
              ++ map (fun b : bool => if b then 1 else 0) (center_log s h)
              ++ flat_map (fun r : Z * Z * bool => let '(c, t, e) := r in [c; t; if e then 1 else 0]) (clog s h)
              ++ [if c_outside (crun s h) then 1 else 0])
  end.

Definition ccase : Type := Q * Z * list cop * option (list Z).

Definition ccase_ok (c : ccase) : bool :=
  let '(P, t0, h, observed) := c in
  match cpredict P t0 h, observed with
  | None, None => true
  | Some l, Some l' => list_eqb Z.eqb l l'
  | _, _ => false
  end.

Fixpoint cbad (i : nat) (l : list ccase) : list nat :=
  match l with
  | [] => []
  | c :: r => if ccase_ok c then cbad (S i) r else i :: cbad (S i) r
  end.
