(* round(delay_period * 1e6) is exact for every period of a whole number of microseconds from 1 ms to 2 s: a finite sweep
   (2 000 000 doubles, vm_compute over the kernel's primitive floats) lifted to the quantified statement. *)
From Coq Require Import ZArith Lia Bool PrimFloat Uint63.
From RV Require Import Delay.FloatPeriod.
Open Scope Z_scope.

Lemma inner_spec : forall n z, inner n z = true -> forall j, (j < n)%nat -> okz (z + Z.of_nat j) = true.
Proof.
  induction n as [|n IH]; intros z H j Hj; [lia|].
  cbn [inner] in H. apply andb_prop in H. destruct H as [H0 H1].
  destruct j as [|j]; [replace (z + Z.of_nat 0) with z by lia; exact H0|].
  replace (z + Z.of_nat (S j)) with ((z + 1) + Z.of_nat j) by lia. apply IH; [exact H1|lia].
Qed.

Lemma outer_spec : forall n z, outer n z = true -> forall i, (i < n)%nat -> inner 1000 (z + 1000 * Z.of_nat i) = true.
Proof.
  induction n as [|n IH]; intros z H i Hi; [lia|].
  cbn [outer] in H. apply andb_prop in H. destruct H as [H0 H1].
  destruct i as [|i]; [replace (z + 1000 * Z.of_nat 0) with z by lia; exact H0|].
  replace (z + 1000 * Z.of_nat (S i)) with ((z + 1000) + 1000 * Z.of_nat i) by lia. apply IH; [exact H1|lia].
Qed.

Lemma sweep : outer 2000 1000 = true.
Proof. vm_compute. reflexivity. Qed.

Theorem round_is_exact : forall z, 1000 <= z < 2001000 -> okz z = true.
Proof.
  intros z Hz.
  pose (i := Z.to_nat ((z - 1000) / 1000)). pose (j := Z.to_nat ((z - 1000) mod 1000)).
  assert (Hi : (i < 2000)%nat) by (unfold i; apply Nat2Z.inj_lt; rewrite Z2Nat.id by (apply Z.div_pos; lia); apply Z.div_lt_upper_bound; lia).
  assert (Hj : (j < 1000)%nat) by (unfold j; apply Nat2Z.inj_lt; rewrite Z2Nat.id by (apply Z.mod_pos_bound; lia); apply Z.mod_pos_bound; lia).
  pose proof (inner_spec 1000 _ (outer_spec 2000 1000 sweep i Hi) j Hj) as H.
  replace (1000 + 1000 * Z.of_nat i + Z.of_nat j) with z in H; [exact H|].
  unfold i, j. rewrite !Z2Nat.id by (try apply Z.div_pos; try apply Z.mod_pos_bound; lia).
  pose proof (Z.div_mod (z - 1000) 1000). lia.
Qed.

(* the pre-fix conversion int(delay_period * 1e6) loses a microsecond (D7: NotifierDelay(0.001001) waited 1000 us) *)
Lemma truncation_loses_a_microsecond : okt 1001 = false /\ okz 1001 = true.
Proof. vm_compute. split; reflexivity. Qed.
