(* Proofs about the NotifierDelay model (Delay/Model.v).  Everything is for all
   periods, construction times, schedules and operation lists. *)
From Coq Require Import ZArith QArith Qround Qabs List Bool Lia Lqa.
From RV Require Import Delay.Model.
Import ListNotations.
Open Scope Z_scope.

(* ------------------------------------------------------------------ *)
(* 1. Period conversion                                                 *)

Lemma round_half_even_nearest (n : Z) (x : Q) :
  (Qabs (x - inject_Z n) < 1 # 2)%Q -> round_half_even x = n.
Proof.
  intros H. apply Qabs_Qlt_condition in H. destruct H as [H1 H2].
  unfold round_half_even.
  pose proof (Qfloor_le x) as Hf1. pose proof (Qlt_floor x) as Hf2.
  set (f := Qfloor x) in *.
  rewrite inject_Z_plus in Hf2. change (inject_Z 1) with 1%Q in Hf2.
  destruct (Qcompare (x - inject_Z f) (1 # 2)) eqn:E.
  - (* exactly half way between two integers: excluded by the hypothesis *)
    apply Qeq_alt in E. exfalso.
    assert (A : (inject_Z f < inject_Z n)%Q) by lra.
    assert (B : (inject_Z n < inject_Z (f + 1))%Q)
      by (rewrite inject_Z_plus; change (inject_Z 1) with 1%Q; lra).
    rewrite <- Zlt_Qlt in A, B. lia.
  - apply Qlt_alt in E.
    assert (A : (inject_Z n < inject_Z (f + 1))%Q)
      by (rewrite inject_Z_plus; change (inject_Z 1) with 1%Q; lra).
    assert (B : (inject_Z f < inject_Z (n + 1))%Q)
      by (rewrite inject_Z_plus; change (inject_Z 1) with 1%Q; lra).
    rewrite <- Zlt_Qlt in A, B. lia.
  - apply Qgt_alt in E.
    assert (A : (inject_Z f < inject_Z n)%Q) by lra.
    assert (B : (inject_Z n < inject_Z (f + 2))%Q)
      by (rewrite inject_Z_plus; change (inject_Z 2) with 2%Q; lra).
    rewrite <- Zlt_Qlt in A, B. lia.
Qed.

Lemma period_whole_us (n : Z) (P : Q) :
  (Qabs (P * inject_Z 1000000 - inject_Z n) < 1 # 2)%Q -> period_us P = n.
Proof. intros H. unfold period_us. apply round_half_even_nearest, H. Qed.

Lemma create_opt_rejects (P : Q) (t0 : Z) :
  create_opt P t0 = None <-> (P < 1 # 1000)%Q.
Proof.
  unfold create_opt. destruct (Qcompare P (1 # 1000)) eqn:E; split; intros H; try discriminate.
  - apply Qeq_alt in E. rewrite E in H. exfalso. revert H. apply Qlt_irrefl.
  - apply Qlt_alt, E.
  - reflexivity.
  - apply Qgt_alt in E. exfalso. apply (Qlt_irrefl P). eapply Qlt_trans; eauto.
Qed.

Lemma create_from_seconds (n : Z) (P : Q) (t0 : Z) :
  (1 # 1000 <= P)%Q ->
  (Qabs (P * inject_Z 1000000 - inject_Z n) < 1 # 2)%Q ->
  create_opt P t0 = Some (create n t0).
Proof.
  intros Hp Hn. unfold create_opt. rewrite (period_whole_us n P Hn).
  destruct (Qcompare P (1 # 1000)) eqn:E; try reflexivity.
  apply Qlt_alt in E. exfalso. apply (Qlt_irrefl P). eapply Qlt_le_trans; eauto.
Qed.

(* ------------------------------------------------------------------ *)
(* 2. A live object on a schedule of body durations                     *)

(* closed recurrence for the log of a schedule: [e] is the alarm in force,
   [now] the FPGA time at which the previous wait returned *)
Fixpoint spec_log (e p now : Z) (bs : list Z) : list (Z * Z) :=
  match bs with
  | [] => []
  | b :: r => let c := now + b in
              let t := Z.max c e in
              (c, t) :: spec_log (e + p) p t r
  end.

Definition on_track (d : nd) : Prop := live d = true /\ alarm d = Some (expiry d).

Lemma create_on_track p t0 : on_track (create p t0).
Proof. split; reflexivity. Qed.

Lemma wait_on_track d now :
  on_track d ->
  wait d now = (mkND (period d) (expiry d + period d) true
                     (Some (expiry d + period d)) (released d),
                Z.max now (expiry d)).
Proof. intros [Hl Ha]. unfold wait. rewrite Hl, Ha. reflexivity. Qed.

Lemma sched_cons b bs : sched (b :: bs) = Body b :: Wait :: sched bs.
Proof. reflexivity. Qed.

Lemma log_is_spec bs : forall d now,
  on_track d ->
  wait_log (d, now) (sched bs) = spec_log (expiry d) (period d) now bs.
Proof.
  induction bs as [|b bs IH]; intros d now Ht; [reflexivity|].
  rewrite sched_cons. cbn [wait_log step snd spec_log].
  rewrite (wait_on_track d (now + b) Ht). cbn [snd].
  f_equal. rewrite IH by (split; reflexivity). reflexivity.
Qed.

Lemma final_sched bs : forall d now,
  on_track d ->
  let d' := fst (final (d, now) (sched bs)) in
  on_track d' /\ period d' = period d /\ released d' = released d /\
  expiry d' = expiry d + Z.of_nat (length bs) * period d.
Proof.
  induction bs as [|b bs IH]; intros d now Ht.
  - cbn. repeat split; try apply Ht; lia.
  - rewrite sched_cons. unfold final. cbn [fold_left step].
    rewrite (wait_on_track d (now + b) Ht).
    match goal with |- context [fold_left step (sched bs) (?d1, ?n1)] =>
      specialize (IH d1 n1 (conj eq_refl eq_refl)) end.
    unfold final in IH. cbn [period expiry released] in IH.
    destruct IH as (A & B & C & D). cbv zeta.
    repeat split; try apply A; try assumption.
    rewrite D. cbn [length]. rewrite Nat2Z.inj_succ. lia.
Qed.

Lemma spec_length bs : forall e p now, length (spec_log e p now bs) = length bs.
Proof. induction bs; intros; cbn; [reflexivity | f_equal; auto]. Qed.

Lemma spec_nth_ret bs : forall e p now i c r,
  nth_error (spec_log e p now bs) i = Some (c, r) ->
  r = Z.max c (e + Z.of_nat i * p).
Proof.
  induction bs as [|b bs IH]; intros e p now i c r H.
  - destruct i; discriminate.
  - destruct i as [|i]; cbn in H.
    + injection H as <- <-. lia.
    + apply IH in H. rewrite H. rewrite Nat2Z.inj_succ. f_equal. lia.
Qed.

Lemma spec_nth_call0 bs : forall e p now c r b,
  nth_error (spec_log e p now bs) 0 = Some (c, r) ->
  nth_error bs 0 = Some b -> c = now + b.
Proof.
  intros e p now c r b H Hb. destruct bs; cbn in *; [discriminate|].
  injection Hb as ->. injection H as <- _. reflexivity.
Qed.

Lemma spec_nth_call bs : forall e p now i c r c' r' b,
  nth_error (spec_log e p now bs) i = Some (c, r) ->
  nth_error (spec_log e p now bs) (S i) = Some (c', r') ->
  nth_error bs (S i) = Some b -> c' = r + b.
Proof.
  induction bs as [|b0 bs IH]; intros e p now i c r c' r' b H H' Hb.
  - destruct i; discriminate.
  - destruct i as [|i].
    + cbn in H, H', Hb. injection H as <- <-.
      eapply spec_nth_call0; eauto.
    + cbn in H, H', Hb. eapply IH; eauto.
Qed.

(* ------------------------------------------------------------------ *)
(* the theorems about [wait_log (create p t0, t0) (sched bs)] *)
Section Live.
Variables p t0 : Z.
Variable bs : list Z.
Let log := wait_log (create p t0, t0) (sched bs).

Lemma log_spec : log = spec_log (t0 + p) p t0 bs.
Proof. apply (log_is_spec bs (create p t0) t0 (create_on_track p t0)). Qed.

Lemma log_length : length log = length bs.
Proof. rewrite log_spec. apply spec_length. Qed.

Lemma expiry_on_grid :
  let d := fst (final (create p t0, t0) (sched bs)) in
  expiry d = grid t0 p (S (length bs)) /\ alarm d = Some (expiry d) /\
  live d = true /\ period d = p /\ released d = 0%nat.
Proof.
  destruct (final_sched bs (create p t0) t0 (create_on_track p t0)) as ((A1 & A2) & B & C & D).
  cbv zeta. repeat split; try assumption.
  rewrite D. unfold grid. cbn [create expiry period]. rewrite Nat2Z.inj_succ. lia.
Qed.

Lemma ret_is_max i c r :
  nth_error log i = Some (c, r) -> r = Z.max c (grid t0 p (S i)).
Proof.
  rewrite log_spec. intros H. apply spec_nth_ret in H. rewrite H.
  unfold grid. rewrite Nat2Z.inj_succ. f_equal. lia.
Qed.

Lemma never_early i c r :
  nth_error log i = Some (c, r) -> grid t0 p (S i) <= r.
Proof. intros H. apply ret_is_max in H. lia. Qed.

Lemma exact_when_on_time i c r :
  nth_error log i = Some (c, r) -> c <= grid t0 p (S i) -> r = grid t0 p (S i).
Proof. intros H. apply ret_is_max in H. lia. Qed.

Lemma late_returns_at_call i c r :
  nth_error log i = Some (c, r) -> grid t0 p (S i) <= c -> r = c.
Proof. intros H. apply ret_is_max in H. lia. Qed.

Lemma first_call c r b :
  nth_error log 0 = Some (c, r) -> nth_error bs 0 = Some b -> c = t0 + b.
Proof. rewrite log_spec. apply spec_nth_call0. Qed.

Lemma next_call i c r c' r' b :
  nth_error log i = Some (c, r) -> nth_error log (S i) = Some (c', r') ->
  nth_error bs (S i) = Some b -> c' = r + b.
Proof. rewrite log_spec. apply spec_nth_call. Qed.

Lemma lateness_nonneg i rec :
  nth_error log i = Some rec -> 0 <= lateness t0 p i rec.
Proof. destruct rec as [c r]. intros H. apply never_early in H. unfold lateness. cbn. lia. Qed.

Lemma lateness_step i rec rec' b :
  nth_error log i = Some rec -> nth_error log (S i) = Some rec' ->
  nth_error bs (S i) = Some b ->
  lateness t0 p (S i) rec' = Z.max 0 (lateness t0 p i rec + b - p).
Proof.
  destruct rec as [c r], rec' as [c' r']. intros H H' Hb.
  pose proof (next_call _ _ _ _ _ _ H H' Hb) as Hc.
  apply ret_is_max in H'. unfold lateness. cbn [snd].
  rewrite H', Hc. unfold grid. rewrite !Nat2Z.inj_succ. lia.
Qed.

(* a record at index i+m implies records (and bodies) at all smaller indices *)
Lemma log_defined i : (i < length log)%nat -> exists rec, nth_error log i = Some rec.
Proof.
  intros H. destruct (nth_error log i) eqn:E; [eauto|].
  apply nth_error_None in E. lia.
Qed.

Lemma catch_up_bound delta j recj : 0 <= delta ->
  nth_error log j = Some recj ->
  forall m reck,
  nth_error log (j + m) = Some reck ->
  (forall i b, (j < i <= j + m)%nat -> nth_error bs i = Some b -> b <= p - delta) ->
  lateness t0 p (j + m) reck <= Z.max 0 (lateness t0 p j recj - Z.of_nat m * delta).
Proof.
  intros Hd Hj. induction m as [|m IH]; intros reck Hk Hb.
  - rewrite Nat.add_0_r in Hk. rewrite Hk in Hj. injection Hj as ->.
    rewrite Nat.add_0_r. lia.
  - replace (j + S m)%nat with (S (j + m)) in * by lia.
    assert (Hlen : (S (j + m) < length log)%nat)
      by (apply nth_error_Some; rewrite Hk; discriminate).
    destruct (log_defined (j + m)) as [recm Hm]; [lia|].
    assert (Hlb : (S (j + m) < length bs)%nat) by (rewrite <- log_length; exact Hlen).
    destruct (nth_error bs (S (j + m))) as [b|] eqn:Eb;
      [| apply nth_error_None in Eb; lia].
    rewrite (lateness_step _ _ _ _ Hm Hk Eb).
    specialize (IH recm Hm).
    assert (IH' : lateness t0 p (j + m) recm <= Z.max 0 (lateness t0 p j recj - Z.of_nat m * delta)).
    { apply IH. intros i b' Hi. apply Hb. lia. }
    assert (Hbb : b <= p - delta) by (apply (Hb (S (j + m))); [lia | exact Eb]).
    rewrite Nat2Z.inj_succ. nia.
Qed.

End Live.

(* ------------------------------------------------------------------ *)
(* 3. free(), __exit__ (leaving the with-block in any way), __del__     *)

Definition dead (d : nd) : Prop := live d = false /\ alarm d = None.

(* __exit__ does to the object exactly what free() does, whatever it receives,
   and returns a false value *)
Lemma exit_is_free d exc : exit_ d exc = (free d, false).
Proof. reflexivity. Qed.

(* a releasing operation (free, __del__, __exit__ with or without an
   exception) steps the object by [free] and leaves the clock alone *)
Lemma step_release d now o : is_free o = true -> step (d, now) o = (free d, now).
Proof. destruct o; cbn; intros H; try discriminate; reflexivity. Qed.

Lemma step_dead d now o : dead d ->
  dead (fst (step (d, now) o)) /\ released (fst (step (d, now) o)) = released d.
Proof.
  intros [Hl Ha]. destruct o; cbn [step].
  - cbn. repeat split; assumption.
  - unfold wait. rewrite Hl. cbn. repeat split; assumption.
  - unfold free. rewrite Hl. cbn. repeat split; assumption.
  - cbn. repeat split; assumption.
  - cbn [exit_ fst]. unfold free. rewrite Hl. cbn. repeat split; assumption.
Qed.

Lemma wait_dead d now : dead d -> wait d now = (d, now).
Proof. intros [Hl _]. unfold wait. rewrite Hl. reflexivity. Qed.

Lemma final_dead ops : forall d now, dead d ->
  dead (fst (final (d, now) ops)) /\ released (fst (final (d, now) ops)) = released d.
Proof.
  induction ops as [|o ops IH]; intros d now Hd; [cbn; split; [assumption|reflexivity]|].
  unfold final. cbn [fold_left].
  destruct (step (d, now) o) as [d' now'] eqn:E.
  pose proof (step_dead d now o Hd) as [A B]. rewrite E in A, B. cbn [fst] in A, B.
  destruct (IH d' now' A) as [C D]. unfold final in C, D. split; [exact C | congruence].
Qed.

Lemma log_dead ops : forall d now c r, dead d ->
  In (c, r) (wait_log (d, now) ops) -> r = c.
Proof.
  induction ops as [|o ops IH]; intros d now c r Hd Hin; [destruct Hin|].
  cbn [wait_log] in Hin.
  destruct (step (d, now) o) as [d' now'] eqn:E.
  pose proof (step_dead d now o Hd) as [A _]. rewrite E in A. cbn [fst] in A.
  destruct o.
  - eapply IH; eauto.
  - cbn [step] in E. rewrite (wait_dead d now Hd) in E. injection E as <- <-.
    cbn [snd] in Hin. destruct Hin as [Hin|Hin].
    + injection Hin as <- <-. reflexivity.
    + eapply IH; eauto.
  - eapply IH; eauto.
  - eapply IH; eauto.
  - eapply IH; eauto.
Qed.

(* the number of releases is 0 while live and 1 for ever after *)
Definition rel_inv (d : nd) : Prop :=
  (live d = true /\ released d = 0%nat) \/ (dead d /\ released d = 1%nat).

Lemma free_makes_dead d : rel_inv d -> dead (free d) /\ released (free d) = 1%nat.
Proof.
  intros [[Hl Hr]|[[Hl Ha] Hr]]; unfold free; rewrite Hl.
  - cbn. rewrite Hr. repeat split.
  - repeat split; assumption.
Qed.

Lemma step_rel_inv d now o : rel_inv d -> rel_inv (fst (step (d, now) o)).
Proof.
  intros H. destruct (is_free o) eqn:Ef.
  - rewrite (step_release d now o Ef). cbn [fst]. right. apply free_makes_dead, H.
  - destruct H as [[Hl Hr]|[Hd Hr]].
    + destruct o; try discriminate; cbn [step].
      * left. cbn. split; assumption.
      * unfold wait. rewrite Hl. left. cbn. split; [reflexivity|assumption].
      * left. cbn. split; assumption.
    + right. pose proof (step_dead d now o Hd) as [A B]. split; [exact A | congruence].
Qed.

Lemma final_app s ops1 ops2 : final s (ops1 ++ ops2) = final (final s ops1) ops2.
Proof. unfold final. apply fold_left_app. Qed.

Lemma final_rel_inv ops : forall d now, rel_inv d -> rel_inv (fst (final (d, now) ops)).
Proof.
  induction ops as [|o ops IH]; intros d now H; [exact H|].
  unfold final. cbn [fold_left].
  destruct (step (d, now) o) as [d' now'] eqn:E.
  apply (IH d' now'). pose proof (step_rel_inv d now o H) as A. rewrite E in A. exact A.
Qed.

Lemma create_rel_inv p t0 : rel_inv (create p t0).
Proof. left. split; reflexivity. Qed.

(* [rel] is any releasing operation: free(), __del__, or __exit__ with any
   exception information *)
Lemma after_release p t0 pre rel : is_free rel = true ->
  let s := final (create p t0, t0) (pre ++ [rel]) in
  dead (fst s) /\ released (fst s) = 1%nat /\
  snd s = snd (final (create p t0, t0) pre).
Proof.
  intros Hrel. cbv zeta. rewrite final_app.
  destruct (final (create p t0, t0) pre) as [d now] eqn:E.
  change (final (d, now) [rel]) with (step (d, now) rel).
  rewrite (step_release d now rel Hrel). cbn [fst snd].
  pose proof (final_rel_inv pre (create p t0) t0 (create_rel_inv p t0)) as H.
  rewrite E in H. cbn [fst] in H.
  destruct (free_makes_dead d H) as [A B]. repeat split; try apply A; try assumption; reflexivity.
Qed.

Lemma freed p t0 pre rel post : is_free rel = true ->
  let s := final (create p t0, t0) (pre ++ [rel]) in
  (forall c r, In (c, r) (wait_log s post) -> r = c) /\
  live (fst (final s post)) = false /\
  alarm (fst (final s post)) = None /\
  released (fst (final s post)) = 1%nat.
Proof.
  intros Hrel. cbv zeta.
  pose proof (after_release p t0 pre rel Hrel) as (Hd & Hr & _). cbv zeta in Hd, Hr.
  destruct (final (create p t0, t0) (pre ++ [rel])) as [d now].
  cbn [fst] in Hd, Hr. split.
  - intros c r. apply log_dead, Hd.
  - pose proof (final_dead post d now Hd) as [[A B] C]. repeat split; congruence.
Qed.

Lemma live_iff_no_free ops : forall d now,
  rel_inv d -> live d = true ->
  live (fst (final (d, now) ops)) = negb (existsb is_free ops).
Proof.
  induction ops as [|o ops IH]; intros d now Hi Hl; [exact Hl|].
  unfold final. cbn [fold_left existsb].
  destruct (is_free o) eqn:Ef; cbn [orb].
  - rewrite (step_release d now o Ef).
    pose proof (free_makes_dead d Hi) as [Hd _].
    pose proof (final_dead ops (free d) now Hd) as [[A _] _]. exact A.
  - destruct o; try discriminate; cbn [step].
    + apply (IH d (now + b) Hi Hl).
    + unfold wait. rewrite Hl.
      apply IH; [left; split; [reflexivity|]|reflexivity].
      destruct Hi as [[_ Hr]|[[Hl' _] _]]; [exact Hr | congruence].
    + cbn [enter fst]. apply (IH d now Hi Hl).
Qed.

Lemma released_once p t0 ops :
  let d := fst (final (create p t0, t0) ops) in
  released d = (if existsb is_free ops then 1 else 0)%nat /\
  live d = negb (existsb is_free ops).
Proof.
  cbv zeta.
  pose proof (live_iff_no_free ops (create p t0) t0 (create_rel_inv p t0) eq_refl) as Hl.
  pose proof (final_rel_inv ops (create p t0) t0 (create_rel_inv p t0)) as Hi.
  split; [|exact Hl].
  destruct (existsb is_free ops); cbn [negb] in Hl;
    destruct Hi as [[A B]|[[A _] B]]; congruence.
Qed.

(* the clock is moved by bodies and by blocking waits only: on a dead object
   it advances by exactly the sum of the bodies *)
Fixpoint bodies (ops : list op) : Z :=
  match ops with
  | [] => 0
  | Body b :: r => b + bodies r
  | _ :: r => bodies r
  end.

Lemma clock_dead ops : forall d now, dead d ->
  snd (final (d, now) ops) = now + bodies ops.
Proof.
  unfold final.
  induction ops as [|o ops IH]; intros d now Hd; [cbn; lia|].
  cbn [fold_left].
  destruct o; cbn [step bodies].
  - rewrite (IH d (now + b) Hd). lia.
  - rewrite (wait_dead d now Hd). apply (IH d now Hd).
  - pose proof (step_dead d now Free Hd) as [A _]. cbn [step fst] in A.
    apply (IH (free d) now A).
  - cbn [enter fst]. apply (IH d now Hd).
  - pose proof (step_dead d now (Exit exc) Hd) as [A _]. cbn [step fst] in A.
    apply (IH _ now A).
Qed.

(* ------------------------------------------------------------------ *)
(* 4. the with-block, left in any way                                   *)

(* the exception information of every __exit__ of an operation list, in order *)
Fixpoint exit_infos (ops : list op) : list (option exn) :=
  match ops with
  | [] => []
  | Exit e :: r => e :: exit_infos r
  | _ :: r => exit_infos r
  end.

Definition is_raised (e : option exn) : bool :=
  match e with Some _ => true | None => false end.

(* __exit__ never swallows: an exception comes out of the with-statement exactly
   when one went in -- in any state of the object, for any operation list *)
Lemma exit_log_spec ops : forall s, exit_log s ops = map is_raised (exit_infos ops).
Proof.
  induction ops as [|o ops IH]; intros s; [reflexivity|].
  cbn [exit_log]. destruct o; cbn [exit_infos map]; [apply IH | apply IH | apply IH | apply IH |].
  rewrite IH. f_equal.
Qed.

Lemma is_free_leave h : is_free (leave_with h) = true.
Proof. reflexivity. Qed.

Lemma exit_log_app ops1 ops2 : forall s,
  exit_log s (ops1 ++ ops2) = exit_log s ops1 ++ exit_log (final s ops1) ops2.
Proof.
  induction ops1 as [|o ops1 IH]; intros s; [reflexivity|].
  cbn [app exit_log]. unfold final. cbn [fold_left]. fold (final (step s o) ops1).
  destruct o; rewrite IH; reflexivity.
Qed.

(* `with NotifierDelay(..) as d: block` for ANY block (any operations, also
   free() or nested re-entry inside it), left in ANY way [h] -- end of block,
   break, return, or an exception of any class raised in the block --, followed
   by ANY further use [post] of the object:
   at the moment the statement is left the notifier is stopped (no alarm), the
   handle has been released exactly once, no FPGA time has passed in __exit__;
   every later wait() returns at the instant it is called; the handle is never
   released a second time; and the exception (if any) is not swallowed. *)
Lemma with_block p t0 block h post :
  let s0 := (create p t0, t0) in
  let s := final s0 (block ++ [leave_with h]) in
  (live (fst s) = false /\ alarm (fst s) = None /\ released (fst s) = 1%nat /\
   snd s = snd (final s0 block)) /\
  (forall c r, In (c, r) (wait_log s post) -> r = c) /\
  (live (fst (final s post)) = false /\ alarm (fst (final s post)) = None /\
   released (fst (final s post)) = 1%nat) /\
  snd (final s post) = snd s + bodies post /\
  exit_log s0 (block ++ [leave_with h]) =
    exit_log s0 block ++ [match h with Raised _ => true | _ => false end].
Proof.
  cbv zeta.
  pose proof (after_release p t0 block (leave_with h) (is_free_leave h)) as ((Hl & Ha) & Hr & Hc).
  pose proof (freed p t0 block (leave_with h) post (is_free_leave h)) as (Hw & Hp).
  cbv zeta in Hl, Ha, Hr, Hc, Hw, Hp.
  split; [repeat split; assumption|]. split; [exact Hw|]. split; [exact Hp|]. split.
  - destruct (final (create p t0, t0) (block ++ [leave_with h])) as [d now] eqn:E.
    cbn [fst snd] in *. apply (clock_dead post d now). split; assumption.
  - rewrite exit_log_app. f_equal. destruct h; reflexivity.
Qed.

(* ------------------------------------------------------------------ *)
(* 5. __enter__: entering the with-block, at any time                   *)

(* __enter__ returns the object itself and changes nothing *)
Lemma enter_is_identity d : enter d = (d, true).
Proof. reflexivity. Qed.

(* ... so as an operation it is invisible: object, HAL and clock are what
   they were *)
Lemma step_enter s : step s Enter = s.
Proof. destruct s. reflexivity. Qed.

Lemma final_without_enter ops : forall s, final s (without_enter ops) = final s ops.
Proof.
  unfold final, without_enter.
  induction ops as [|o ops IH]; intros s; [reflexivity|].
  destruct o; cbn [filter is_enter negb fold_left]; try apply IH.
  rewrite step_enter. apply IH.
Qed.

Lemma wait_log_without_enter ops : forall s, wait_log s (without_enter ops) = wait_log s ops.
Proof.
  unfold without_enter.
  induction ops as [|o ops IH]; intros s; [reflexivity|].
  destruct o; cbn [filter is_enter negb wait_log]; try (rewrite IH; reflexivity).
  rewrite step_enter. apply IH.
Qed.

Lemma exit_log_without_enter ops : forall s, exit_log s (without_enter ops) = exit_log s ops.
Proof.
  unfold without_enter.
  induction ops as [|o ops IH]; intros s; [reflexivity|].
  destruct o; cbn [filter is_enter negb exit_log]; try (rewrite IH; reflexivity).
  rewrite step_enter. apply IH.
Qed.

(* what the observer sees right after an __enter__ is what it saw before *)
Lemma snaps_enter s ops : snaps s (Enter :: ops) = snap_of s :: snaps s ops.
Proof. cbn [snaps]. rewrite step_enter. reflexivity. Qed.

(* every __enter__ returns the object itself *)
Lemma enter_log_spec ops : forall s,
  enter_log s ops = map (fun _ => true) (filter is_enter ops).
Proof.
  induction ops as [|o ops IH]; intros s; [reflexivity|].
  cbn [enter_log]. destruct o; cbn [filter is_enter map]; try apply IH.
  rewrite IH. reflexivity.
Qed.

(* A live object under ANY use that does not release it -- bodies, waits and
   __enter__ in any order and number (several bodies or none between two waits,
   the with-block entered late, entered twice, ...): the (i+1)-th wait returns
   at max(t_call, expiry + i*period). *)
Definition no_release (ops : list op) : bool := forallb (fun o => negb (is_free o)) ops.

Lemma live_log_any ops : forall d now i c r,
  on_track d -> no_release ops = true ->
  nth_error (wait_log (d, now) ops) i = Some (c, r) ->
  r = Z.max c (expiry d + Z.of_nat i * period d).
Proof.
  induction ops as [|o ops IH]; intros d now i c r Ht Hn H.
  - destruct i; discriminate.
  - cbn [no_release forallb] in Hn. apply andb_prop in Hn. destruct Hn as [Ho Hn].
    fold (no_release ops) in Hn.
    destruct o; try discriminate Ho; cbn [wait_log step] in H.
    + eapply IH; eauto.
    + rewrite (wait_on_track d now Ht) in H. cbn [snd] in H.
      destruct i as [|i]; cbn [nth_error] in H.
      * injection H as <- <-. lia.
      * apply IH in H; [|split; reflexivity|exact Hn]. cbn [expiry period] in H.
        rewrite H, Nat2Z.inj_succ. f_equal. lia.
    + cbn [enter fst] in H. eapply IH; eauto.
Qed.

Lemma final_live_any ops : forall d now,
  on_track d -> no_release ops = true ->
  let d' := fst (final (d, now) ops) in
  on_track d' /\ period d' = period d /\ released d' = released d /\
  expiry d' = expiry d + Z.of_nat (length (wait_log (d, now) ops)) * period d.
Proof.
  induction ops as [|o ops IH]; intros d now Ht Hn.
  - cbn. repeat split; try apply Ht; lia.
  - cbn [no_release forallb] in Hn. apply andb_prop in Hn. destruct Hn as [Ho Hn].
    fold (no_release ops) in Hn.
    unfold final. cbn [fold_left].
    destruct o; try discriminate Ho; cbn [wait_log step].
    + apply (IH d (now + b) Ht Hn).
    + rewrite (wait_on_track d now Ht). cbn [snd length].
      match goal with |- context [fold_left step ops (?d1, ?n1)] =>
        specialize (IH d1 n1 (conj eq_refl eq_refl) Hn) end.
      unfold final in IH. cbn [period expiry released] in IH.
      destruct IH as (A & B & C & D). cbv zeta.
      repeat split; try apply A; try assumption.
      rewrite D, Nat2Z.inj_succ. lia.
    + cbn [enter fst]. apply (IH d now Ht Hn).
Qed.

(* stated for the object the constructor builds *)
Lemma any_use_on_grid p t0 ops i c r :
  no_release ops = true ->
  nth_error (wait_log (create p t0, t0) ops) i = Some (c, r) ->
  r = Z.max c (grid t0 p (S i)) /\ grid t0 p (S i) <= r /\
  (c <= grid t0 p (S i) -> r = grid t0 p (S i)) /\
  (grid t0 p (S i) <= c -> r = c).
Proof.
  intros Hn H. apply (live_log_any ops _ _ _ _ _ (create_on_track p t0) Hn) in H.
  cbn [create expiry period] in H.
  assert (E : r = Z.max c (grid t0 p (S i))).
  { rewrite H. unfold grid. rewrite Nat2Z.inj_succ. f_equal. lia. }
  repeat split; lia.
Qed.

Lemma any_use_expiry p t0 ops :
  no_release ops = true ->
  let d := fst (final (create p t0, t0) ops) in
  expiry d = grid t0 p (S (length (wait_log (create p t0, t0) ops))) /\
  alarm d = Some (expiry d) /\ live d = true /\ period d = p /\ released d = 0%nat.
Proof.
  intros Hn.
  destruct (final_live_any ops (create p t0) t0 (create_on_track p t0) Hn) as ((A1 & A2) & B & C & D).
  cbv zeta. repeat split; try assumption.
  rewrite D. unfold grid. cbn [create expiry period]. rewrite Nat2Z.inj_succ. lia.
Qed.

(* The object is built at t0, the with-block is entered [setup] microseconds
   later: object, clock and the log of the loop are those of the plain loop
   whose first body is longer by the set-up time -- the grid is still the one
   anchored at t0, not at the instant of entry. *)
Lemma entered_late_is_sched p t0 setup b bs :
  wait_log (create p t0, t0) (entered_late setup (b :: bs)) =
    wait_log (create p t0, t0) (sched ((setup + b) :: bs)) /\
  final (create p t0, t0) (entered_late setup (b :: bs)) =
    final (create p t0, t0) (sched ((setup + b) :: bs)).
Proof.
  unfold entered_late. rewrite !sched_cons. unfold final.
  cbn [wait_log fold_left step enter fst snd]. rewrite Z.add_assoc. split; reflexivity.
Qed.

Lemma no_release_sched bs : no_release (sched bs) = true.
Proof. induction bs as [|b bs IH]; [reflexivity|]. rewrite sched_cons. cbn. exact IH. Qed.

Lemma no_release_entered_late setup bs : no_release (entered_late setup bs) = true.
Proof. unfold entered_late. cbn. apply no_release_sched. Qed.

Lemma entered_late_on_grid p t0 setup bs i c r :
  nth_error (wait_log (create p t0, t0) (entered_late setup bs)) i = Some (c, r) ->
  r = Z.max c (grid t0 p (S i)) /\ grid t0 p (S i) <= r /\
  (c <= grid t0 p (S i) -> r = grid t0 p (S i)) /\
  (grid t0 p (S i) <= c -> r = c).
Proof. apply any_use_on_grid, no_release_entered_late. Qed.

(* ------------------------------------------------------------------ *)
(* 6. Two threads: a release while a wait() is in progress              *)

(* case analysis of one step: the operation and what is in progress *)
Ltac csplit s o :=
  let o' := fresh "o'" in
  destruct o as [o'| |]; [destruct o'|..]; unfold cstep;
  destruct (c_pend s) as [[[hd|] c]|] eqn:Epend.

Lemma crun_app s h1 h2 : crun s (h1 ++ h2) = crun (crun s h1) h2.
Proof. unfold crun. apply fold_left_app. Qed.

Lemma crun_cons s o h : crun s (o :: h) = crun (cstep s o) h.
Proof. reflexivity. Qed.

Lemma clog_app h1 : forall s h2, clog s (h1 ++ h2) = clog s h1 ++ clog (crun s h1) h2.
Proof.
  induction h1 as [|o h1 IH]; intros s h2; [reflexivity|].
  rewrite crun_cons. cbn [app clog].
  destruct o as [[]| |]; destruct (c_pend s) as [[[hd|] c]|]; rewrite IH; reflexivity.
Qed.

Lemma conc_eta s : mkC (c_obj s) (c_now s) (c_pend s) (c_outside s) = s.
Proof. destruct s. reflexivity. Qed.

(* the halves of wait() compose to wait() when nothing lies between them *)
Lemma wait_is_halves d now : rel_inv d ->
  wait d now = match wait_begin d with
               | Some h => fst (wait_end d h now)
               | None => (d, now)
               end.
Proof.
  intros Hi. unfold wait, wait_begin, wait_end.
  destruct (live d) eqn:Hl; [|reflexivity].
  destruct Hi as [[_ Hr]|[[Hl' _] _]]; [|congruence].
  unfold hal_update. rewrite Hr. reflexivity.
Qed.

(* what a step does to `live` and to the number of releases, in any state *)
Lemma wait_live d now : live (fst (wait d now)) = live d.
Proof. unfold wait. destruct (live d) eqn:E; cbn; [reflexivity | exact E]. Qed.

Lemma wait_released d now : released (fst (wait d now)) = released d.
Proof. unfold wait. destruct (live d); reflexivity. Qed.

Lemma wait_end_live d h now : live (fst (fst (wait_end d h now))) = live d.
Proof. unfold wait_end. destruct h; reflexivity. Qed.

Lemma wait_end_released d h now : released (fst (fst (wait_end d h now))) = released d.
Proof. unfold wait_end. destruct h; reflexivity. Qed.

Lemma cstep_live s o :
  live (c_obj (cstep s o)) = live (c_obj s) && negb (crel o).
Proof.
  csplit s o; cbn [c_obj cflag step fst crel is_free negb enter exit_];
    rewrite ?andb_true_r, ?andb_false_r, ?wait_live, ?wait_end_live; try reflexivity;
    unfold free; destruct (live (c_obj s)) eqn:E; cbn; rewrite ?E; reflexivity.
Qed.

Lemma cstep_released s o :
  released (c_obj (cstep s o)) =
    if live (c_obj s) && crel o then S (released (c_obj s)) else released (c_obj s).
Proof.
  csplit s o; cbn [c_obj cflag step fst crel is_free enter exit_];
    rewrite ?andb_true_r, ?andb_false_r, ?wait_released, ?wait_end_released; try reflexivity;
    unfold free; destruct (live (c_obj s)) eqn:E; cbn; rewrite ?E; reflexivity.
Qed.

Lemma crun_live h : forall s,
  live (c_obj (crun s h)) = live (c_obj s) && negb (existsb crel h).
Proof.
  induction h as [|o h IH]; intros s; [cbn; rewrite andb_true_r; reflexivity|].
  rewrite crun_cons, IH, cstep_live. cbn [existsb]. rewrite negb_orb, andb_assoc. reflexivity.
Qed.

Lemma crun_released h : forall s,
  released (c_obj (crun s h)) =
    if live (c_obj s) && existsb crel h then S (released (c_obj s)) else released (c_obj s).
Proof.
  induction h as [|o h IH]; intros s; [cbn; rewrite andb_false_r; reflexivity|].
  rewrite crun_cons, IH, cstep_live, cstep_released. cbn [existsb].
  destruct (live (c_obj s)), (crel o); cbn; try reflexivity.
Qed.

(* the invariant of the object and the HAL side holds in every state of every
   two-thread history *)
Lemma wait_end_rel_inv d h now : rel_inv d -> rel_inv (fst (fst (wait_end d h now))).
Proof.
  intros [[Hl Hr]|[[Hl Ha] Hr]]; unfold wait_end, hal_update; destruct h; cbn [fst].
  - left. split; assumption.
  - left. split; assumption.
  - right. rewrite Hr. repeat split; assumption.
  - right. repeat split; assumption.
Qed.

Lemma cstep_rel_inv s o : rel_inv (c_obj s) -> rel_inv (c_obj (cstep s o)).
Proof.
  intros H. csplit s o; cbn [c_obj cflag]; try exact H; try (apply step_rel_inv, H);
    apply wait_end_rel_inv, H.
Qed.

Lemma crun_rel_inv h : forall s, rel_inv (c_obj s) -> rel_inv (c_obj (crun s h)).
Proof.
  induction h as [|o h IH]; intros s H; [exact H|].
  rewrite crun_cons. apply IH, cstep_rel_inv, H.
Qed.

(* for ANY two-thread history: released once iff some thread releases at all *)
Lemma conc_released_once p t0 h :
  let d := c_obj (crun (cinit (create p t0) t0) h) in
  released d = (if existsb crel h then 1 else 0)%nat /\
  live d = negb (existsb crel h) /\
  (existsb crel h = true -> alarm d = None).
Proof.
  cbv zeta. rewrite crun_released, crun_live. cbn [cinit c_obj create live released andb].
  repeat split. intros He.
  pose proof (crun_rel_inv h (cinit (create p t0) t0) (create_rel_inv p t0)) as Hi.
  pose proof (crun_live h (cinit (create p t0) t0)) as Hl.
  cbn [cinit c_obj create live andb] in Hl. rewrite He in Hl. cbn in Hl.
  destruct Hi as [[A _]|[[_ A] _]]; [congruence | exact A].
Qed.

(* the local variable `handle` of a wait() in progress is never None: its
   first half returned at once in that case *)
Definition pend_ok (p : option (option bool * Z)) : Prop :=
  match p with
  | Some (Some false, _) => False
  | _ => True
  end.

Lemma cstep_pend_ok s o : pend_ok (c_pend s) -> pend_ok (c_pend (cstep s o)).
Proof.
  intros H. csplit s o; rewrite ?Epend in H; cbn [c_pend cflag]; rewrite ?Epend;
    try exact H; try exact I.
  unfold wait_begin. destruct (live (c_obj s)); exact I.
Qed.

(* for ANY two-thread history (releases anywhere, also between the halves of a
   wait()): no wait() is ever left by an exception *)
Lemma clog_never_raises h : forall s, pend_ok (c_pend s) ->
  forall c t e, In (c, t, e) (clog s h) -> e = false.
Proof.
  induction h as [|o h IH]; intros s Hp c t e Hin; [destruct Hin|].
  pose proof (cstep_pend_ok s o Hp) as Hp'.
  cbn [clog] in Hin.
  destruct o as [o'| |].
  - destruct o'; destruct (c_pend s) as [[[hd|] c0]|]; try (eapply IH; eassumption).
    destruct Hin as [Hin|Hin]; [injection Hin as _ _ <-; reflexivity | eapply IH; eassumption].
  - destruct (c_pend s) as [[[hd|] c0]|]; eapply IH; eassumption.
  - destruct (c_pend s) as [[[hd|] c0]|] eqn:E.
    + destruct Hin as [Hin|Hin]; [|eapply IH; eassumption].
      injection Hin as _ _ <-. destruct hd; [reflexivity | destruct Hp].
    + destruct Hin as [Hin|Hin]; [injection Hin as _ _ <-; reflexivity | eapply IH; eassumption].
    + eapply IH; eassumption.
Qed.

Lemma conc_never_raises p t0 h c t e :
  In (c, t, e) (clog (cinit (create p t0) t0) h) -> e = false.
Proof. apply clog_never_raises. exact I. Qed.

(* a released object stays released under everything two threads can do; every
   wait() on it, whole or in halves, is left at the instant it is called *)
Definition cdead (s : conc) : Prop :=
  dead (c_obj s) /\ released (c_obj s) = 1%nat /\
  match c_pend s with Some (Some _, _) => False | _ => True end.

Lemma cstep_pend_dead s o : live (c_obj s) = false ->
  match c_pend s with Some (Some _, _) => False | _ => True end ->
  match c_pend (cstep s o) with Some (Some _, _) => False | _ => True end.
Proof.
  intros Hl H. csplit s o; rewrite ?Epend in H; cbn [c_pend cflag]; rewrite ?Epend;
    try exact H; try exact I.
  unfold wait_begin. rewrite Hl. exact I.
Qed.

Lemma cstep_cdead s o : cdead s -> cdead (cstep s o).
Proof.
  intros (Hd & Hr & Hp).
  assert (Hi : rel_inv (c_obj s)) by (right; split; assumption).
  pose proof (cstep_rel_inv s o Hi) as Hi'.
  pose proof (cstep_live s o) as Hl. destruct Hd as [Hl0 Ha0]. rewrite Hl0 in Hl. cbn in Hl.
  split; [|split].
  - destruct Hi' as [[A _]|[A _]]; [congruence | exact A].
  - destruct Hi' as [[A _]|[_ A]]; [congruence | exact A].
  - apply cstep_pend_dead; assumption.
Qed.

Lemma crun_cdead h : forall s, cdead s -> cdead (crun s h).
Proof.
  induction h as [|o h IH]; intros s H; [exact H|].
  rewrite crun_cons. apply IH, cstep_cdead, H.
Qed.

Lemma clog_cdead h : forall s, cdead s ->
  forall c t e, In (c, t, e) (clog s h) -> t = c /\ e = false.
Proof.
  induction h as [|o h IH]; intros s Hd c t e Hin; [destruct Hin|].
  pose proof (cstep_cdead s o Hd) as Hd'.
  destruct Hd as (Hdd & Hr & Hp).
  cbn [clog] in Hin.
  destruct o as [o'| |].
  - destruct o'; destruct (c_pend s) as [[[hd|] c0]|] eqn:E; try (eapply IH; eassumption).
    destruct Hin as [Hin|Hin]; [|eapply IH; eassumption].
    injection Hin as <- <- <-. cbn [cstep]. rewrite E. cbn [step].
    rewrite (wait_dead _ _ Hdd). split; reflexivity.
  - destruct (c_pend s) as [[[hd|] c0]|]; eapply IH; eassumption.
  - destruct (c_pend s) as [[[hd|] c0]|] eqn:E.
    + destruct Hp.
    + destruct Hin as [Hin|Hin]; [injection Hin as <- <- <-; split; reflexivity | eapply IH; eassumption].
    + eapply IH; eassumption.
Qed.

Lemma cstep_body s b :
  cstep s (Other (Body b)) = mkC (c_obj s) (c_now s + b) (c_pend s) (c_outside s).
Proof. unfold cstep. destruct (c_pend s); reflexivity. Qed.

Lemma cstep_enter s : cstep s (Other Enter) = s.
Proof. destruct s as [d t pd out]. unfold cstep. cbn [c_pend]. destruct pd; reflexivity. Qed.

(* while the loop thread is blocked and nobody releases: the other thread's
   bodies move the clock, nothing else changes *)
Lemma crun_quiet mid : forall s, forallb cquiet mid = true ->
  crun s mid = mkC (c_obj s) (c_now s + cbodies mid) (c_pend s) (c_outside s).
Proof.
  induction mid as [|o mid IH]; intros s H.
  - cbn. rewrite Z.add_0_r. symmetry. apply conc_eta.
  - cbn [forallb] in H. apply andb_prop in H. destruct H as [Ho H].
    rewrite crun_cons.
    destruct o as [[b| | | |e]| |]; try discriminate Ho.
    + rewrite IH by exact H. rewrite cstep_body.
      cbn [c_obj c_now c_pend c_outside cbodies]. f_equal. lia.
    + rewrite IH by exact H. rewrite cstep_enter. reflexivity.
Qed.

(* on a released object the other thread's free()/__exit__/__enter__ change
   nothing at all *)
Lemma cstep_instant_dead s o : dead (c_obj s) -> cinstant o = true -> cstep s o = s.
Proof.
  destruct s as [d t pd out]. cbn [c_obj]. intros [Hl Ha] Ho.
  destruct o as [[b| | | |e]| |]; try discriminate Ho; unfold cstep; cbn [c_pend c_obj c_now c_outside];
    destruct pd; cbn [step enter exit_ fst snd]; unfold free; rewrite ?Hl; reflexivity.
Qed.

Lemma crun_instant_dead zs : forall s, dead (c_obj s) -> forallb cinstant zs = true -> crun s zs = s.
Proof.
  induction zs as [|o zs IH]; intros s Hd H; [reflexivity|].
  cbn [forallb] in H. apply andb_prop in H. destruct H as [Ho H].
  rewrite crun_cons, (cstep_instant_dead s o Hd Ho). apply IH; assumption.
Qed.

Lemma clog_no_wait h : forall s,
  forallb (fun o => cquiet o || cinstant o || crel o) h = true -> clog s h = [].
Proof.
  induction h as [|o h IH]; intros s H; [reflexivity|].
  cbn [forallb] in H. apply andb_prop in H. destruct H as [Ho H].
  cbn [clog].
  destruct o as [[b| | | |e]| |]; try discriminate Ho; destruct (c_pend s) as [[[hd|] c]|]; apply IH, H.
Qed.

(* THE SHUTDOWN: after any history [pre] that leaves the object live and no
   wait() in progress, the loop thread calls wait(); while it is blocked the
   other thread lets time pass ([mid]), then releases the object ([rel]: free(),
   __del__ or __exit__ in any way), maybe repeats that or enters again ([zs]);
   the HAL call returns.  Then anything ([post]). *)
Lemma interrupted_wait p t0 pre mid rel zs post :
  let s0 := cinit (create p t0) t0 in
  let s1 := crun s0 pre in
  let h := pre ++ [WaitBegin] ++ mid ++ [Other rel] ++ zs ++ [WaitEnd] in
  let s := crun s0 h in
  c_pend s1 = None -> live (c_obj s1) = true ->
  forallb cquiet mid = true -> is_free rel = true -> forallb cinstant zs = true ->
  clog s0 h = clog s0 pre ++ [(c_now s1, c_now s1 + cbodies mid, false)] /\
  c_now s = c_now s1 + cbodies mid /\
  (live (c_obj s) = false /\ alarm (c_obj s) = None /\ released (c_obj s) = 1%nat) /\
  c_pend s = None /\ c_outside s = c_outside s1 /\
  (forall c t e, In (c, t, e) (clog s post) -> t = c /\ e = false) /\
  (live (c_obj (crun s post)) = false /\ alarm (c_obj (crun s post)) = None /\
   released (c_obj (crun s post)) = 1%nat).
Proof.
  cbv zeta. intros Hp Hl Hmid Hrel Hzs.
  set (s0 := cinit (create p t0) t0) in *. set (s1 := crun s0 pre) in *.
  pose proof (crun_rel_inv pre s0 (create_rel_inv p t0)) as Hi. fold s1 in Hi.
  (* the states along the history *)
  set (s2 := cstep s1 WaitBegin).
  assert (E2 : s2 = mkC (c_obj s1) (c_now s1) (Some (Some true, c_now s1)) (c_outside s1)).
  { unfold s2, cstep. rewrite Hp. unfold wait_begin. rewrite Hl. reflexivity. }
  set (s3 := crun s2 mid).
  assert (E3 : s3 = mkC (c_obj s1) (c_now s1 + cbodies mid) (Some (Some true, c_now s1)) (c_outside s1)).
  { unfold s3. rewrite (crun_quiet mid s2 Hmid), E2. reflexivity. }
  set (s4 := cstep s3 (Other rel)).
  assert (E4 : s4 = mkC (free (c_obj s1)) (c_now s1 + cbodies mid) (Some (Some true, c_now s1)) (c_outside s1)).
  { unfold s4. rewrite E3. destruct rel; try discriminate Hrel; reflexivity. }
  destruct (free_makes_dead (c_obj s1) Hi) as [Hd Hr].
  set (s5 := crun s4 zs).
  assert (E5 : s5 = s4).
  { unfold s5. apply crun_instant_dead; [rewrite E4; exact Hd | exact Hzs]. }
  set (s6 := cstep s5 WaitEnd).
  assert (Es : crun s0 (pre ++ [WaitBegin] ++ mid ++ [Other rel] ++ zs ++ [WaitEnd]) = s6).
  { rewrite crun_app. fold s1. cbn [app]. rewrite crun_cons. fold s2.
    rewrite crun_app. fold s3. cbn [app]. rewrite crun_cons. fold s4.
    rewrite crun_app. fold s5. reflexivity. }
  destruct Hd as [Hdl Hda].
  assert (E6 : s6 = mkC (mkND (period (free (c_obj s1))) (expiry (free (c_obj s1)) + period (free (c_obj s1)))
                              false None 1)
                        (c_now s1 + cbodies mid) None (c_outside s1)).
  { unfold s6. rewrite E5, E4. unfold cstep. cbn [c_pend c_obj c_now c_outside].
    unfold wait_end, hal_update, hal_wait. rewrite Hda, Hdl, Hr. reflexivity. }
  assert (Hcd : cdead s6).
  { rewrite E6. repeat split. }
  rewrite Es.
  split; [|split; [|split; [|split; [|split; [|split]]]]].
  - assert (L1 : clog s1 [WaitBegin] = [])
      by (cbn [clog]; destruct (c_pend s1) as [[[?|] ?]|]; reflexivity).
    assert (L2 : clog s2 mid = []).
    { apply clog_no_wait, forallb_forall. intros o Ho.
      rewrite (proj1 (forallb_forall _ _) Hmid o Ho). reflexivity. }
    assert (L3 : clog s3 [Other rel] = []).
    { apply clog_no_wait. cbn [forallb crel]. rewrite Hrel, !orb_true_r. reflexivity. }
    assert (L4 : clog s4 zs = []).
    { apply clog_no_wait, forallb_forall. intros o Ho.
      rewrite (proj1 (forallb_forall _ _) Hzs o Ho), orb_true_r. reflexivity. }
    assert (L5 : clog s5 [WaitEnd] = [(c_now s1, c_now s1 + cbodies mid, false)]).
    { rewrite E5, E4. cbn [clog c_pend cstep c_now c_obj].
      unfold wait_end, hal_wait. rewrite Hda. reflexivity. }
    rewrite clog_app. fold s1. f_equal.
    rewrite (clog_app [WaitBegin]). change (crun s1 [WaitBegin]) with s2. rewrite L1.
    rewrite clog_app. fold s3. rewrite L2.
    rewrite (clog_app [Other rel]). change (crun s3 [Other rel]) with s4. rewrite L3.
    rewrite clog_app. fold s5. rewrite L4. exact L5.
  - rewrite E6. reflexivity.
  - rewrite E6. repeat split.
  - rewrite E6. reflexivity.
  - rewrite E6. reflexivity.
  - apply clog_cdead, Hcd.
  - destruct (crun_cdead post s6 Hcd) as ([A B] & C & _). repeat split; assumption.
Qed.

(* ------------------------------------------------------------------ *)
(* the two-thread model extends the sequential one: a wait() whose halves run
   with nothing in between is wait(), so a sequential use, seen as a two-thread
   history, ends in the same object at the same time with the same log *)
Lemma cstep_other_idle s o : c_pend s = None ->
  cstep s (Other o) = mkC (fst (step (c_obj s, c_now s) o)) (snd (step (c_obj s, c_now s) o)) None (c_outside s).
Proof. intros Hp. unfold cstep. rewrite Hp. destruct o; reflexivity. Qed.

Lemma cstep_wait_halves s : c_pend s = None -> rel_inv (c_obj s) ->
  cstep (cstep s WaitBegin) WaitEnd =
    mkC (fst (wait (c_obj s) (c_now s))) (snd (wait (c_obj s) (c_now s))) None (c_outside s) /\
  clog s [WaitBegin; WaitEnd] = [(c_now s, snd (wait (c_obj s) (c_now s)), false)].
Proof.
  destruct s as [d t pd out]. cbn [c_pend c_obj c_now c_outside]. intros -> Hi.
  rewrite (wait_is_halves _ t Hi).
  cbn [clog cstep c_pend c_obj c_now c_outside]. unfold wait_begin.
  destruct (live d) eqn:Hl; cbn [clog cstep c_pend c_obj c_now c_outside fst snd]; split; reflexivity.
Qed.

Lemma conc_extends_seq ops : forall s,
  c_pend s = None -> rel_inv (c_obj s) ->
  crun s (seq_cops ops) =
    mkC (fst (final (c_obj s, c_now s) ops)) (snd (final (c_obj s, c_now s) ops)) None (c_outside s) /\
  clog s (seq_cops ops) =
    map (fun r : Z * Z => (fst r, snd r, false)) (wait_log (c_obj s, c_now s) ops).
Proof.
  induction ops as [|o ops IH]; intros s Hp Hi.
  - cbn. split; [|reflexivity]. rewrite <- Hp. symmetry. apply conc_eta.
  - assert (Hstep : forall o', o' <> Wait -> seq_cops (o' :: ops) = Other o' :: seq_cops ops)
      by (intros o' Ho; destruct o'; try reflexivity; congruence).
    pose proof (step_rel_inv (c_obj s) (c_now s) o Hi) as Hi'.
    assert (Hother : o <> Wait ->
      crun s (seq_cops (o :: ops)) =
        mkC (fst (final (c_obj s, c_now s) (o :: ops))) (snd (final (c_obj s, c_now s) (o :: ops))) None (c_outside s) /\
      clog s (seq_cops (o :: ops)) =
        map (fun r : Z * Z => (fst r, snd r, false)) (wait_log (c_obj s, c_now s) (o :: ops))).
    { intros Ho. rewrite (Hstep o Ho), crun_cons. cbn [clog]. rewrite Hp.
      rewrite (cstep_other_idle s o Hp).
      set (s' := mkC (fst (step (c_obj s, c_now s) o)) (snd (step (c_obj s, c_now s) o)) None (c_outside s)).
      destruct (IH s' eq_refl Hi') as [A B].
      unfold final. cbn [fold_left]. fold (final (step (c_obj s, c_now s) o) ops).
      cbn [c_obj c_now c_outside s'] in A, B. rewrite <- surjective_pairing in A, B.
      split.
      - exact A.
      - destruct o; try congruence; cbn [wait_log]; exact B. }
    destruct o; try (apply Hother; discriminate).
    change (seq_cops (Wait :: ops)) with (WaitBegin :: WaitEnd :: seq_cops ops).
    destruct (cstep_wait_halves s Hp Hi) as [E L].
    rewrite !crun_cons, E.
    change (WaitBegin :: WaitEnd :: seq_cops ops) with ([WaitBegin; WaitEnd] ++ seq_cops ops).
    rewrite clog_app, L. change (crun s [WaitBegin; WaitEnd]) with (cstep (cstep s WaitBegin) WaitEnd).
    rewrite E.
    set (s' := mkC (fst (wait (c_obj s) (c_now s))) (snd (wait (c_obj s) (c_now s))) None (c_outside s)).
    destruct (IH s' eq_refl Hi') as [A B].
    unfold final. cbn [fold_left step]. fold (final (wait (c_obj s) (c_now s)) ops).
    cbn [c_obj c_now c_outside s'] in A, B. rewrite <- surjective_pairing in A, B.
    split; [exact A|]. cbn [wait_log step map app fst snd]. f_equal. exact B.
Qed.

(* ------------------------------------------------------------------ *)
(* while nobody releases the object, what the other thread does during a
   wait() does not disturb the grid: the history amounts to the sequential use
   [lin h] *)
Definition pending_now (s : conc) : bool :=
  match c_pend s with Some _ => true | None => false end.

Lemma conc_no_release_is_seq h : forall s,
  live (c_obj s) = true -> released (c_obj s) = 0%nat ->
  (c_pend s = None \/ exists c, c_pend s = Some (Some true, c)) ->
  cwf (pending_now s) h = true -> existsb crel h = false ->
  c_obj (crun s h) = fst (final (c_obj s, c_now s) (lin h)) /\
  c_now (crun s h) = snd (final (c_obj s, c_now s) (lin h)) /\
  map (fun r : Z * Z * bool => snd (fst r)) (clog s h) = map snd (wait_log (c_obj s, c_now s) (lin h)).
Proof.
  induction h as [|o h IH]; intros s Hl Hr Hp Hw Hn.
  - cbn. repeat split.
  - cbn [existsb] in Hn. apply orb_false_elim in Hn. destruct Hn as [Hn0 Hn].
    rewrite crun_cons.
    destruct o as [[b| | | |e]| |]; try discriminate Hn0.
    + (* the other thread's time *)
      cbn [cwf] in Hw.
      assert (Hc' : clog s (Other (Body b) :: h) = clog (cstep s (Other (Body b))) h)
        by (cbn [clog]; destruct (c_pend s) as [[[?|] ?]|]; reflexivity).
      rewrite Hc', cstep_body.
      assert (Hw' : cwf (pending_now (mkC (c_obj s) (c_now s + b) (c_pend s) (c_outside s))) h = true) by exact Hw.
      specialize (IH (mkC (c_obj s) (c_now s + b) (c_pend s) (c_outside s)) Hl Hr Hp Hw' Hn).
      cbn [c_obj c_now] in IH. cbn [lin flat_map app]. fold (lin h).
      unfold final in *. cbn [fold_left step wait_log]. exact IH.
    + (* a whole wait() *)
      cbn [cwf] in Hw. apply andb_prop in Hw. destruct Hw as [Hin Hw].
      assert (Hp0 : c_pend s = None) by (unfold pending_now in Hin; destruct (c_pend s); [discriminate|reflexivity]).
      assert (Hc' : clog s (Other Wait :: h) =
                    (c_now s, snd (wait (c_obj s) (c_now s)), false) :: clog (cstep s (Other Wait)) h).
      { cbn [clog]. rewrite Hp0. rewrite (cstep_other_idle s Wait Hp0). reflexivity. }
      rewrite Hc'. rewrite (cstep_other_idle s Wait Hp0) in *. cbn [step] in *.
      set (s' := mkC (fst (wait (c_obj s) (c_now s))) (snd (wait (c_obj s) (c_now s))) None (c_outside s)) in *.
      assert (Hw' : cwf (pending_now s') h = true)
        by (unfold pending_now in *; rewrite Hp0 in Hw; exact Hw).
      specialize (IH s').
      cbn [c_obj c_now c_pend s'] in IH. rewrite wait_live, wait_released in IH.
      specialize (IH Hl Hr (or_introl eq_refl) Hw' Hn).
      rewrite <- surjective_pairing in IH.
      cbn [lin flat_map app]. fold (lin h).
      unfold final in *. cbn [fold_left step wait_log map fst snd].
      destruct IH as (A & B & C). repeat split; try assumption. f_equal. exact C.
    + (* __enter__ by the other thread *)
      cbn [cwf] in Hw.
      assert (Hc' : clog s (Other Enter :: h) = clog (cstep s (Other Enter)) h)
        by (cbn [clog]; destruct (c_pend s) as [[[?|] ?]|]; reflexivity).
      rewrite Hc'. rewrite cstep_enter.
      specialize (IH s Hl Hr Hp Hw Hn).
      cbn [lin flat_map app]. fold (lin h).
      unfold final in *. cbn [fold_left step wait_log enter fst]. exact IH.
    + (* first half *)
      cbn [cwf] in Hw. apply andb_prop in Hw. destruct Hw as [Hin Hw].
      assert (Hp0 : c_pend s = None) by (unfold pending_now in Hin; destruct (c_pend s); [discriminate|reflexivity]).
      assert (Hc' : clog s (WaitBegin :: h) = clog (cstep s WaitBegin) h)
        by (cbn [clog]; try rewrite Hp0; reflexivity).
      rewrite Hc'.
      assert (Es : cstep s WaitBegin = mkC (c_obj s) (c_now s) (Some (Some true, c_now s)) (c_outside s))
        by (unfold cstep, wait_begin; rewrite Hp0, Hl; reflexivity).
      rewrite Es.
      specialize (IH (mkC (c_obj s) (c_now s) (Some (Some true, c_now s)) (c_outside s)) Hl Hr
                     (or_intror (ex_intro _ (c_now s) eq_refl)) Hw Hn).
      cbn [lin flat_map app]. fold (lin h). exact IH.
    + (* second half *)
      cbn [cwf] in Hw. apply andb_prop in Hw. destruct Hw as [Hin Hw].
      destruct Hp as [Hp0|[c Hp1]]; [unfold pending_now in Hin; rewrite Hp0 in Hin; discriminate|].
      assert (Ew : wait_end (c_obj s) true (c_now s) = (fst (wait (c_obj s) (c_now s)), snd (wait (c_obj s) (c_now s)), false)).
      { unfold wait, wait_end, hal_update. rewrite Hl, Hr. reflexivity. }
      assert (Es : cstep s WaitEnd =
                   mkC (fst (wait (c_obj s) (c_now s))) (snd (wait (c_obj s) (c_now s))) None (c_outside s))
        by (unfold cstep; rewrite Hp1, Ew; reflexivity).
      assert (Hc' : clog s (WaitEnd :: h) =
                    (c, snd (wait (c_obj s) (c_now s)), false) :: clog (cstep s WaitEnd) h).
      { cbn [clog]. rewrite Hp1, Es, Ew. reflexivity. }
      rewrite Hc', Es.
      set (s' := mkC (fst (wait (c_obj s) (c_now s))) (snd (wait (c_obj s) (c_now s))) None (c_outside s)) in *.
      specialize (IH s').
      cbn [c_obj c_now c_pend s'] in IH. rewrite wait_live, wait_released in IH.
      specialize (IH Hl Hr (or_introl eq_refl) Hw Hn).
      rewrite <- surjective_pairing in IH.
      cbn [lin flat_map app]. fold (lin h).
      unfold final in *. cbn [fold_left step wait_log map fst snd].
      destruct IH as (A & B & C). repeat split; try assumption. f_equal. exact C.
Qed.

Lemma no_release_lin h : existsb crel h = false -> no_release (lin h) = true.
Proof.
  induction h as [|o h IH]; intros H; [reflexivity|].
  cbn [existsb] in H. apply orb_false_elim in H. destruct H as [Ho H].
  destruct o as [o'| |]; cbn [lin flat_map app]; fold (lin h).
  - cbn [crel] in Ho. unfold no_release. cbn [forallb]. rewrite Ho. cbn. apply IH, H.
  - apply IH, H.
  - unfold no_release. cbn [forallb is_free negb andb]. apply IH, H.
Qed.

(* stated for the object the constructor builds: in ANY well-bracketed history
   of two threads in which nobody releases the object -- the other thread lets
   time pass or enters a with-block while the loop thread is inside wait() --
   the (i+1)-th wait() is left, without exception, at max(c', t0 + (i+1)*p)
   where c' is the instant at which its second half runs (for a whole wait():
   at which it is called): never before the grid point, exactly on it when that
   instant is not later *)
Lemma conc_any_use_on_grid p t0 h i c t e :
  cwf false h = true -> existsb crel h = false ->
  nth_error (clog (cinit (create p t0) t0) h) i = Some (c, t, e) ->
  e = false /\ grid t0 p (S i) <= t /\
  exists c', nth_error (wait_log (create p t0, t0) (lin h)) i = Some (c', t) /\
             t = Z.max c' (grid t0 p (S i)).
Proof.
  intros Hw Hn H.
  split; [eapply conc_never_raises, nth_error_In, H|].
  destruct (conc_no_release_is_seq h (cinit (create p t0) t0) eq_refl eq_refl (or_introl eq_refl) Hw Hn)
    as (_ & _ & C).
  cbn [cinit c_obj c_now] in C.
  assert (Ht : nth_error (map (fun r : Z * Z * bool => snd (fst r)) (clog (cinit (create p t0) t0) h)) i = Some t)
    by (apply (map_nth_error (fun r : Z * Z * bool => snd (fst r)) _ _ H)).
  rewrite C in Ht.
  destruct (nth_error (wait_log (create p t0, t0) (lin h)) i) as [[c' t']|] eqn:E.
  - apply (map_nth_error snd) in E as E'. rewrite Ht in E'. injection E' as ->.
    destruct (any_use_on_grid p t0 (lin h) i c' t' (no_release_lin h Hn) E) as (A & B & _).
    split; [exact B|]. exists c'. split; [reflexivity | exact A].
  - exfalso. apply nth_error_None in E. rewrite <- (map_length snd) in E.
    apply nth_error_None in E. congruence.
Qed.

Lemma conc_any_use_expiry p t0 h :
  cwf false h = true -> existsb crel h = false ->
  let s := crun (cinit (create p t0) t0) h in
  expiry (c_obj s) = grid t0 p (S (length (clog (cinit (create p t0) t0) h))) /\
  alarm (c_obj s) = Some (expiry (c_obj s)) /\ live (c_obj s) = true /\
  period (c_obj s) = p /\ released (c_obj s) = 0%nat.
Proof.
  intros Hw Hn. cbv zeta.
  destruct (conc_no_release_is_seq h (cinit (create p t0) t0) eq_refl eq_refl (or_introl eq_refl) Hw Hn)
    as (A & _ & C).
  cbn [cinit c_obj c_now] in A, C. rewrite A.
  assert (L : length (clog (cinit (create p t0) t0) h) = length (wait_log (create p t0, t0) (lin h))).
  { rewrite <- (map_length (fun r : Z * Z * bool => snd (fst r))), C. apply map_length. }
  rewrite L. apply (any_use_expiry p t0 (lin h) (no_release_lin h Hn)).
Qed.
