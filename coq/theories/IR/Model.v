(* Model of robotpy_ext/common_drivers/distance_sensors.py (the three Sharp IR
   drivers) and distance_sensors_sim.py (their simulation helpers), over the
   real numbers.  No proofs in this file.

   The three driver classes are the same three statements with different
   literals, and so are the three helpers:

       v = max(self.distance.getVoltage(), FL)          floor_v
       d = C * math.pow(v, E)                           power_law
       return max(min(d, HI), LO)                       clamp

       self._distance = d                               set_distance (field)
       d = max(min(d, HI), LO)                          clamp
       v = math.pow(d / C, 1 / E)                       volts
       self._sim.setVoltage(v)                          set_distance (field)

   Python's max(a, b) / min(a, b) on two finite floats are Rmax / Rmin.
   Float rounding and libm's pow are idealised (exact arithmetic, Rpower);
   the correspondence run compares every sampled double against this model
   with a relative tolerance. *)
From Coq Require Import Reals.
Open Scope R_scope.

(* ---- the three statements of getDistance() -------------------------- *)

Definition floor_v (fl v : R) : R := Rmax v fl.
Definition power_law (c e v : R) : R := c * Rpower v e.
Definition clamp (lo hi d : R) : R := Rmax (Rmin d hi) lo.

Definition reading (c e lo hi fl v : R) : R :=
  clamp lo hi (power_law c e (floor_v fl v)).

(* math.pow(x, y) for the exponents used here (negative, not an integer):
   ValueError for x <= 0 ("math domain error"), exp (y * ln x) otherwise.
   [None] is the exception. *)
Definition math_pow (x y : R) : option R :=
  if Rlt_dec 0 x then Some (Rpower x y) else None.

(* getDistance() with the exception kept visible. *)
Definition reading_opt (c e lo hi fl v : R) : option R :=
  match math_pow (floor_v fl v) e with
  | Some p => Some (clamp lo hi (c * p))
  | None => None
  end.

(* ---- the simulation helper ------------------------------------------- *)

Definition volts (c e lo hi d : R) : R := Rpower (clamp lo hi d / c) (1 / e).

Definition volts_opt (c e lo hi d : R) : option R :=
  math_pow (clamp lo hi d / c) (1 / e).

(* State of a helper together with the analog input it drives:
   [sim_distance] is the field self._distance, [ain_voltage] the voltage the
   simulated AnalogInput reports (AnalogInputSim.setVoltage stores it,
   AnalogInput.getVoltage returns it unchanged). *)
Record sim_state : Type := { sim_distance : R; ain_voltage : R }.

(* __init__: self._distance = 0; a fresh simulated analog input reads 0 V *)
Definition sim_init : sim_state := {| sim_distance := 0; ain_voltage := 0 |}.

Definition set_distance (c e lo hi : R) (s : sim_state) (d : R) : sim_state :=
  {| sim_distance := d; ain_voltage := volts c e lo hi d |}.

(* helper.getDistance() *)
Definition get_distance (s : sim_state) : R := sim_distance s.

(* sensor.getDistance() of the driver the helper is attached to *)
Definition sensor_distance (c e lo hi fl : R) (s : sim_state) : R :=
  reading c e lo hi fl (ain_voltage s).

(* ---- infinite doubles ------------------------------------------------- *)

(* A double that is not NaN: finite, +inf or -inf. *)
Inductive xreal : Type := Fin (r : R) | PInf | NInf.

Definition xle (a b : xreal) : Prop :=
  match a, b with
  | NInf, _ => True
  | _, PInf => True
  | Fin x, Fin y => x <= y
  | _, _ => False
  end.

(* getDistance() for an infinite voltage, following the float code:
   max(+inf, FL) = +inf, pow(+inf, E) = 0.0 for E < 0, C * 0.0 = 0.0, which
   the clamp sends to LO;  max(-inf, FL) = FL. *)
Definition reading_x (c e lo hi fl : R) (v : xreal) : R :=
  match v with
  | Fin r => reading c e lo hi fl r
  | PInf => clamp lo hi 0
  | NInf => reading c e lo hi fl fl
  end.

(* max(min(d, HI), LO) for an infinite d: min(+inf, HI) = HI,
   min(-inf, HI) = -inf and max(-inf, LO) = LO. *)
Definition clamp_x (lo hi : R) (d : xreal) : R :=
  match d with
  | Fin r => clamp lo hi r
  | PInf => clamp lo hi hi
  | NInf => lo
  end.

(* the voltage the helper sets for a possibly infinite distance *)
Definition volts_x (c e lo hi : R) (d : xreal) : R :=
  Rpower (clamp_x lo hi d / c) (1 / e).

(* ---- the three parameter sets (literals of the two files) ------------- *)

Definition floor_volts : R := 0.00001.

(* SharpIR2Y0A02 / SharpIR2Y0A02Sim *)
Definition A02_c : R := 62.28.
Definition A02_e : R := -1.092.
Definition A02_lo : R := 22.5.
Definition A02_hi : R := 145.

(* SharpIR2Y0A21 / SharpIR2Y0A21Sim *)
Definition A21_c : R := 26.449.
Definition A21_e : R := -1.226.
Definition A21_lo : R := 10.
Definition A21_hi : R := 80.

(* SharpIR2Y0A41 / SharpIR2Y0A41Sim *)
Definition A41_c : R := 12.84.
Definition A41_e : R := -0.9824.
Definition A41_lo : R := 4.5.
Definition A41_hi : R := 35.

Definition reading_A02 : R -> R := reading A02_c A02_e A02_lo A02_hi floor_volts.
Definition reading_A21 : R -> R := reading A21_c A21_e A21_lo A21_hi floor_volts.
Definition reading_A41 : R -> R := reading A41_c A41_e A41_lo A41_hi floor_volts.

Definition volts_A02 : R -> R := volts A02_c A02_e A02_lo A02_hi.
Definition volts_A21 : R -> R := volts A21_c A21_e A21_lo A21_hi.
Definition volts_A41 : R -> R := volts A41_c A41_e A41_lo A41_hi.

(* ---- tolerance used by the correspondence ----------------------------- *)

(* [x] is within relative tolerance [tol] of the (positive) reference [y]. *)
Definition close (tol x y : R) : Prop := Rabs (x - y) <= tol * y.

(* ---- the conditions under which the theorems are stated --------------- *)

Definition admissible (c e lo hi fl : R) : Prop :=
  0 < c /\ e < 0 /\ 0 < lo /\ lo < hi /\ 0 < fl.

(* the tolerance of the correspondence runs *)
Definition ctol : R := 1e-12.

(* ---- the rest of the simulated roboRIO -------------------------------- *)

(* Everything else a robot program can read from the (simulated) roboRIO
   while getDistance() runs, as far as the correspondence runs vary it:
   [pin] is AnalogInput.getVoltage() of the sensor's channel; the other
   fields are what wpilib.RobotController reports --
   getVoltage5V / getVoltage3V3 / getVoltage6V (the user rails; the 5 V rail
   powers the sensor), getBatteryVoltage = getInputVoltage,
   getEnabled5V / 3V3 / 6V (rail switched on), and [aux], in this order:
   getCurrent5V, getCurrent3V3, getCurrent6V, getInputCurrent,
   getBrownoutVoltage, getCPUTemp.
   Any double that is not NaN can be put on each of them
   (wpilib.simulation.RoboRioSim), so they are [xreal]. *)
Record rio : Type := {
  pin : xreal;
  user5V : xreal; user3V3 : xreal; user6V : xreal;
  vin : xreal;
  active5V : bool; active3V3 : bool; active6V : bool;
  aux : list xreal
}.

(* getDistance() for a possibly infinite voltage with the exception kept
   visible (max(+inf, FL) = +inf and pow(+inf, E) = 0.0 do not raise;
   max(-inf, FL) = FL). *)
Definition reading_x_opt (c e lo hi fl : R) (v : xreal) : option R :=
  match v with
  | Fin r => reading_opt c e lo hi fl r
  | PInf => Some (clamp lo hi 0)
  | NInf => reading_opt c e lo hi fl fl
  end.

(* getDistance() of a driver on that roboRIO.  The three statements of the
   method read self.distance.getVoltage() and nothing else: the model has NO
   other input, i.e. the record is consulted through [pin] only. *)
Definition rio_distance_opt (c e lo hi fl : R) (r : rio) : option R :=
  reading_x_opt c e lo hi fl (pin r).

Definition rio_distance (c e lo hi fl : R) (r : rio) : R :=
  reading_x c e lo hi fl (pin r).

(* AnalogInputSim.setVoltage(v): the pin changes, nothing else does *)
Definition rio_set_pin (r : rio) (v : xreal) : rio :=
  {| pin := v;
     user5V := user5V r; user3V3 := user3V3 r; user6V := user6V r;
     vin := vin r;
     active5V := active5V r; active3V3 := active3V3 r; active6V := active6V r;
     aux := aux r |}.

(* helper.setDistance(d) on that roboRIO (d possibly infinite): the voltage
   it computes from d alone goes on the pin *)
Definition rio_set_distance (c e lo hi : R) (r : rio) (d : xreal) : rio :=
  rio_set_pin r (Fin (volts_x c e lo hi d)).

(* two roboRIOs that differ at most in the sensor's pin *)
Definition same_rails (r1 r2 : rio) : Prop :=
  user5V r1 = user5V r2 /\ user3V3 r1 = user3V3 r2 /\ user6V r1 = user6V r2 /\
  vin r1 = vin r2 /\ active5V r1 = active5V r2 /\ active3V3 r1 = active3V3 r2 /\
  active6V r1 = active6V r2 /\ aux r1 = aux r2.

(* the correspondence statement for one sample taken on roboRIO [r]: the
   implementation returned (did not raise) and its value [x] is within [tol]
   of the model's *)
Definition rio_reads (c e lo hi fl tol : R) (r : rio) (x : R) : Prop :=
  match rio_distance_opt c e lo hi fl r with
  | Some y => close tol x y
  | None => False
  end.
