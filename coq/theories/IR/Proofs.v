(* Proofs about the Sharp IR model (IR/Model.v).

   Part 1: for EVERY parameter set with c > 0, e < 0, 0 < lo < hi, fl > 0.
   Part 2: helper lemmas used by the generated correspondence files.
   Part 3: the numeric side conditions of the three concrete parameter sets,
           proved by hand from exp 1 <= 3 and 1 + x <= exp x (no numeric
           tactic, so that the property theorems depend on the axioms of
           the standard library's real numbers only).
   Part 4: concrete values, used as non-vacuity witnesses.
   Part 5: the Part 2 lemmas with rational side conditions decided in Z. *)
From Coq Require Import Reals Lra ZArith Lia Bool.
From RV Require Import IR.Model.
Open Scope R_scope.

(* ---- monotonicity of exp / ln / Rpower (stdlib only) ----------------- *)

Lemma exp_le_mono x y : x <= y -> exp x <= exp y.
Proof.
  intros [H | H].
  - left. apply exp_increasing. exact H.
  - subst. right. reflexivity.
Qed.

Lemma ln_le_mono x y : 0 < x -> x <= y -> ln x <= ln y.
Proof.
  intros Hx [H | H].
  - left. apply ln_increasing; assumption.
  - subst. right. reflexivity.
Qed.

Lemma Rpower_pos x y : 0 < Rpower x y.
Proof. unfold Rpower. apply exp_pos. Qed.

(* a power with negative exponent is antitone in its base *)
Lemma Rpower_neg_antitone x y e :
  e < 0 -> 0 < x -> x <= y -> Rpower y e <= Rpower x e.
Proof.
  intros He Hx Hxy. unfold Rpower. apply exp_le_mono.
  pose proof (ln_le_mono x y Hx Hxy) as Hl.
  assert (0 <= (- e) * (ln y - ln x)) by (apply Rmult_le_pos; lra).
  lra.
Qed.

Lemma Rpower_neg_strict x y e :
  e < 0 -> 0 < x -> x < y -> Rpower y e < Rpower x e.
Proof.
  intros He Hx Hxy. unfold Rpower. apply exp_increasing.
  pose proof (ln_increasing x y Hx Hxy) as Hl.
  assert (0 < (- e) * (ln y - ln x)) by (apply Rmult_lt_0_compat; lra).
  lra.
Qed.

Lemma Rabs_le_elim a b : Rabs a <= b -> - b <= a <= b.
Proof. unfold Rabs. destruct (Rcase_abs a); lra. Qed.

Lemma Rabs_le_intro a b : - b <= a <= b -> Rabs a <= b.
Proof. unfold Rabs. destruct (Rcase_abs a); lra. Qed.

(* ---- the clamp -------------------------------------------------------- *)

Lemma clamp_range lo hi d : lo <= hi -> lo <= clamp lo hi d <= hi.
Proof.
  intros H. unfold clamp. split.
  - apply Rmax_r.
  - apply Rmax_lub; [apply Rmin_r | exact H].
Qed.

Lemma clamp_id lo hi d : lo <= d <= hi -> clamp lo hi d = d.
Proof.
  intros [H1 H2]. unfold clamp.
  rewrite Rmin_left by exact H2. apply Rmax_left. exact H1.
Qed.

Lemma clamp_above lo hi d : lo <= hi -> hi <= d -> clamp lo hi d = hi.
Proof.
  intros H H1. unfold clamp.
  rewrite Rmin_right by exact H1. apply Rmax_left. exact H.
Qed.

Lemma clamp_below lo hi d : lo <= hi -> d <= lo -> clamp lo hi d = lo.
Proof.
  intros H H1. unfold clamp.
  rewrite Rmin_left by lra. apply Rmax_right. exact H1.
Qed.

Lemma clamp_mono lo hi d1 d2 : d1 <= d2 -> clamp lo hi d1 <= clamp lo hi d2.
Proof.
  intros H. unfold clamp.
  apply Rle_max_compat_r. apply Rle_min_compat_r. exact H.
Qed.

(* the order in which the two limits are applied does not matter (lo <= hi) *)
Lemma clamp_swap lo hi d : lo <= hi -> clamp lo hi d = Rmin (Rmax d lo) hi.
Proof.
  intros H. unfold clamp, Rmin, Rmax.
  repeat (destruct (Rle_dec _ _)); lra.
Qed.

(* ====================================================================== *)
(* Part 1: every admissible parameter set                                 *)
(* ====================================================================== *)

Section Generic.
Variables c e lo hi fl : R.
Hypothesis Hadm : admissible c e lo hi fl.

(* every proof of this section starts by unpacking the five conditions, so
   that every lemma has the same signature
   [forall c e lo hi fl, admissible c e lo hi fl -> ...] once the section is
   closed *)
Local Ltac adm := pose proof Hadm as (Hc & He & Hlo & Hlh & Hfl).

Lemma floor_pos v : 0 < floor_v fl v.
Proof. adm. unfold floor_v. eapply Rlt_le_trans; [exact Hfl | apply Rmax_r]. Qed.

Lemma floor_mono v1 v2 : v1 <= v2 -> floor_v fl v1 <= floor_v fl v2.
Proof. adm. intros H. unfold floor_v. apply Rle_max_compat_r. exact H. Qed.

(* no exception, for any voltage *)
Lemma reading_total v : reading_opt c e lo hi fl v = Some (reading c e lo hi fl v).
Proof.
  adm.
  unfold reading_opt, math_pow.
  destruct (Rlt_dec 0 (floor_v fl v)) as [_ | H].
  - reflexivity.
  - exfalso. apply H. apply floor_pos.
Qed.

Lemma in_range v : lo <= reading c e lo hi fl v <= hi.
Proof. adm. unfold reading. apply clamp_range. lra. Qed.

Lemma power_law_antitone x y : 0 < x -> x <= y -> power_law c e y <= power_law c e x.
Proof.
  adm.
  intros Hx Hxy. unfold power_law.
  apply Rmult_le_compat_l; [lra |]. apply Rpower_neg_antitone; assumption.
Qed.

Lemma power_law_strict x y : 0 < x -> x < y -> power_law c e y < power_law c e x.
Proof.
  adm.
  intros Hx Hxy. unfold power_law.
  apply Rmult_lt_compat_l; [lra |]. apply Rpower_neg_strict; assumption.
Qed.

Lemma antitone v1 v2 : v1 <= v2 -> reading c e lo hi fl v2 <= reading c e lo hi fl v1.
Proof.
  adm.
  intros H. unfold reading. apply clamp_mono.
  apply power_law_antitone; [apply floor_pos | apply floor_mono; exact H].
Qed.

Lemma power_law_inside v :
  fl <= v -> lo <= c * Rpower v e <= hi -> reading c e lo hi fl v = c * Rpower v e.
Proof.
  adm.
  intros Hv Hp. unfold reading, floor_v, power_law.
  rewrite Rmax_left by exact Hv. apply clamp_id. exact Hp.
Qed.

(* where the reading is not pinned to a limit it is strictly decreasing *)
Lemma strictly_decreasing_inside v1 v2 :
  fl <= v1 -> v1 < v2 -> lo <= c * Rpower v2 e -> c * Rpower v1 e <= hi ->
  reading c e lo hi fl v2 < reading c e lo hi fl v1.
Proof.
  adm.
  intros H1 H12 Hl Hh.
  assert (Hs : c * Rpower v2 e < c * Rpower v1 e)
    by (apply (power_law_strict v1 v2); lra).
  rewrite (power_law_inside v1) by lra.
  rewrite (power_law_inside v2) by lra.
  exact Hs.
Qed.

(* at or below the floor (in particular 0 V and negative voltages) the
   reading is the reading at the floor *)
Lemma below_floor v : v <= fl -> reading c e lo hi fl v = reading c e lo hi fl fl.
Proof.
  adm.
  intros H. unfold reading, floor_v.
  rewrite (Rmax_right v fl) by exact H. rewrite (Rmax_left fl fl) by lra. reflexivity.
Qed.

Lemma below_floor_hi v :
  hi <= c * Rpower fl e -> v <= fl -> reading c e lo hi fl v = hi.
Proof.
  adm.
  intros Hf H. rewrite below_floor by exact H.
  unfold reading, floor_v, power_law. rewrite Rmax_left by lra.
  apply clamp_above; [lra | exact Hf].
Qed.

(* -- the simulation helper -- *)

Lemma clamp_pos d : 0 < clamp lo hi d.
Proof. adm. pose proof (clamp_range lo hi d). lra. Qed.

Lemma volts_total d : volts_opt c e lo hi d = Some (volts c e lo hi d).
Proof.
  adm.
  unfold volts_opt, volts, math_pow.
  destruct (Rlt_dec 0 (clamp lo hi d / c)) as [_ | H].
  - reflexivity.
  - exfalso. apply H. apply Rdiv_lt_0_compat; [apply clamp_pos | exact Hc].
Qed.

Lemma inv_e_neg : 1 / e < 0.
Proof.
  adm.
  unfold Rdiv. rewrite Rmult_1_l. apply Rinv_lt_0_compat. exact He.
Qed.

(* the helper never sets a voltage below the one for the far limit *)
Lemma volts_ge_volts_hi d : volts c e lo hi hi <= volts c e lo hi d.
Proof.
  adm.
  unfold volts. rewrite (clamp_id lo hi hi) by lra.
  apply Rpower_neg_antitone.
  - apply inv_e_neg.
  - apply Rdiv_lt_0_compat; [apply clamp_pos | exact Hc].
  - unfold Rdiv. apply Rmult_le_compat_r.
    + left. apply Rinv_0_lt_compat. exact Hc.
    + apply clamp_range. lra.
Qed.

Lemma power_law_volts d : c * Rpower (volts c e lo hi d) e = clamp lo hi d.
Proof.
  adm.
  unfold volts. rewrite Rpower_mult.
  replace (1 / e * e) with 1 by (field; lra).
  rewrite Rpower_1 by (apply Rdiv_lt_0_compat; [apply clamp_pos | exact Hc]).
  field. lra.
Qed.

Lemma sim_inverse d :
  fl <= volts c e lo hi hi ->
  reading c e lo hi fl (volts c e lo hi d) = clamp lo hi d.
Proof.
  adm.
  intros Hf.
  rewrite power_law_inside.
  - apply power_law_volts.
  - eapply Rle_trans; [exact Hf | apply volts_ge_volts_hi].
  - rewrite power_law_volts. apply clamp_range. lra.
Qed.

Lemma sim_remembers s d : get_distance (set_distance c e lo hi s d) = d.
Proof. adm. reflexivity. Qed.

Lemma sim_sensor s d :
  fl <= volts c e lo hi hi ->
  sensor_distance c e lo hi fl (set_distance c e lo hi s d) = clamp lo hi d.
Proof. adm. intros Hf. unfold sensor_distance. cbn [set_distance ain_voltage]. apply sim_inverse. exact Hf. Qed.

(* a later setDistance overrides an earlier one completely *)
Lemma sim_last_wins s d1 d2 :
  set_distance c e lo hi (set_distance c e lo hi s d1) d2 = set_distance c e lo hi s d2.
Proof. adm. reflexivity. Qed.

(* -- infinite doubles -- *)

Lemma in_range_x v : lo <= reading_x c e lo hi fl v <= hi.
Proof.
  adm.
  destruct v; cbn [reading_x]; try apply in_range. apply clamp_range. lra.
Qed.

Lemma reading_pinf : reading_x c e lo hi fl PInf = lo.
Proof. adm. cbn [reading_x]. apply clamp_below; lra. Qed.

Lemma antitone_x v1 v2 :
  xle v1 v2 -> reading_x c e lo hi fl v2 <= reading_x c e lo hi fl v1.
Proof.
  adm.
  destruct v1 as [x | |], v2 as [y | |]; cbn [xle reading_x]; intros H;
    try contradiction; try lra.
  - apply antitone. exact H.
  - rewrite (clamp_below lo hi 0) by lra. apply in_range.
  - destruct (Rle_dec y fl) as [Hy | Hy].
    + rewrite (below_floor y) by exact Hy. lra.
    + apply antitone. lra.
  - rewrite (clamp_below lo hi 0) by lra. apply in_range.
Qed.

Lemma clamp_x_range d : lo <= clamp_x lo hi d <= hi.
Proof. adm. destruct d; cbn [clamp_x]; try (apply clamp_range; lra). lra. Qed.

Lemma clamp_x_as_clamp d : clamp_x lo hi d = clamp lo hi (clamp_x lo hi d).
Proof. adm. symmetry. apply clamp_id. apply clamp_x_range. Qed.

Lemma clamp_x_pinf : clamp_x lo hi PInf = hi.
Proof. adm. cbn [clamp_x]. apply clamp_id. lra. Qed.

Lemma sim_inverse_x d :
  fl <= volts c e lo hi hi ->
  reading c e lo hi fl (volts_x c e lo hi d) = clamp_x lo hi d.
Proof.
  adm.
  intros Hf. unfold volts_x. rewrite clamp_x_as_clamp at 1.
  fold (volts c e lo hi (clamp_x lo hi d)).
  rewrite sim_inverse by exact Hf. symmetry. apply clamp_x_as_clamp.
Qed.

(* ====================================================================== *)
(* Part 2: helper lemmas for the generated correspondence files           *)
(* ====================================================================== *)

(* [x] is what the implementation returned for voltage [v].  The harness
   chooses the lemma by looking at x and v; every premise is a closed
   statement over rational literals and Rpower, proved by lra / interval. *)

Variable tol : R.
Hypothesis Htol : 0 <= tol <= 1.
Local Ltac admt := adm; pose proof Htol as Htol'.

Lemma close_clamp x p :
  lo <= x <= hi -> close tol x p -> close tol x (clamp lo hi p).
Proof.
  admt.
  unfold close. intros Hx H.
  apply Rabs_le_elim in H. apply Rabs_le_intro.
  destruct (Rle_dec p lo) as [Hpl | Hpl].
  - rewrite clamp_below by lra. nra.
  - destruct (Rle_dec hi p) as [Hph | Hph].
    + rewrite clamp_above by lra. nra.
    + rewrite clamp_id by lra. exact H.
Qed.

(* implementation strictly inside, voltage above the floor *)
Lemma corr_mid v x :
  fl <= v -> lo <= x <= hi -> close tol x (c * Rpower v e) ->
  close tol x (reading c e lo hi fl v).
Proof.
  admt.
  intros Hv Hx H. unfold reading, floor_v, power_law.
  rewrite Rmax_left by exact Hv. apply close_clamp; assumption.
Qed.

(* implementation at the far limit *)
Lemma corr_hi v x :
  fl <= v -> x = hi -> hi * (1 - tol / 2) <= c * Rpower v e ->
  close tol x (reading c e lo hi fl v).
Proof.
  admt.
  intros Hv Hx H. subst x. unfold reading, floor_v, power_law, close.
  rewrite Rmax_left by exact Hv. apply Rabs_le_intro.
  set (p := c * Rpower v e) in *.
  destruct (Rle_dec hi p) as [Hph | Hph].
  - rewrite clamp_above by lra. nra.
  - assert (lo <= p \/ p < lo) as [Hpl | Hpl] by lra.
    + rewrite clamp_id by lra. nra.
    + rewrite clamp_below by lra. nra.
Qed.

(* implementation at the near limit *)
Lemma corr_lo v x :
  fl <= v -> x = lo -> c * Rpower v e <= lo * (1 + tol / 2) ->
  close tol x (reading c e lo hi fl v).
Proof.
  admt.
  intros Hv Hx H. subst x. unfold reading, floor_v, power_law, close.
  rewrite Rmax_left by exact Hv. apply Rabs_le_intro.
  set (p := c * Rpower v e) in *.
  assert (Hp : 0 < p) by (unfold p; apply Rmult_lt_0_compat; [exact Hc | apply Rpower_pos]).
  destruct (Rle_dec p lo) as [Hpl | Hpl].
  - rewrite clamp_below by lra. nra.
  - assert (p <= hi \/ hi < p) as [Hph | Hph] by lra.
    + rewrite clamp_id by lra. nra.
    + rewrite clamp_above by lra. nra.
Qed.

(* voltage at or below the floor (0 V, negative, denormal, -inf) *)
Lemma corr_floor v x :
  hi <= c * Rpower fl e -> v <= fl -> x = hi ->
  close tol x (reading c e lo hi fl v).
Proof.
  admt.
  intros Hf Hv Hx. rewrite below_floor_hi by assumption. subst x.
  unfold close. replace (hi - hi) with 0 by ring. rewrite Rabs_R0. nra.
Qed.

(* the voltage [u] the helper set for distance [d] against [volts] *)
Lemma corr_volts_mid d u :
  lo <= d <= hi -> close tol u (Rpower (d / c) (1 / e)) ->
  close tol u (volts c e lo hi d).
Proof. admt. intros Hd H. unfold volts. rewrite clamp_id by exact Hd. exact H. Qed.

Lemma corr_volts_hi d u :
  hi <= d -> close tol u (Rpower (hi / c) (1 / e)) ->
  close tol u (volts c e lo hi d).
Proof. admt. intros Hd H. unfold volts. rewrite clamp_above by lra. exact H. Qed.

Lemma corr_volts_lo d u :
  d <= lo -> close tol u (Rpower (lo / c) (1 / e)) ->
  close tol u (volts c e lo hi d).
Proof. admt. intros Hd H. unfold volts. rewrite clamp_below by lra. exact H. Qed.

(* the sensor reading [x] after setDistance(d) against the clamped distance *)
Lemma corr_clamp_mid d x :
  lo <= d <= hi -> close tol x d -> close tol x (clamp lo hi d).
Proof. admt. intros Hd H. rewrite clamp_id by exact Hd. exact H. Qed.

Lemma corr_clamp_hi d x :
  hi <= d -> close tol x hi -> close tol x (clamp lo hi d).
Proof. admt. intros Hd H. rewrite clamp_above by lra. exact H. Qed.

Lemma corr_clamp_lo d x :
  d <= lo -> close tol x lo -> close tol x (clamp lo hi d).
Proof. admt. intros Hd H. rewrite clamp_below by lra. exact H. Qed.

(* infinite doubles in the correspondence: +inf V reads lo, -inf V reads hi;
   setDistance(+inf) sets the voltage for hi, setDistance(-inf) the one for lo *)
Lemma corr_v_pinf x : x = lo -> x = reading_x c e lo hi fl PInf.
Proof. adm. intros H. rewrite reading_pinf. exact H. Qed.

Lemma corr_v_ninf x :
  hi <= c * Rpower fl e -> x = hi -> x = reading_x c e lo hi fl NInf.
Proof.
  adm. intros Hf H. cbn [reading_x]. rewrite below_floor_hi by lra. exact H.
Qed.

Lemma corr_volts_pinf u :
  close tol u (Rpower (hi / c) (1 / e)) -> close tol u (volts_x c e lo hi PInf).
Proof. admt. intros H. unfold volts_x. rewrite clamp_x_pinf. exact H. Qed.

Lemma corr_volts_ninf u :
  close tol u (Rpower (lo / c) (1 / e)) -> close tol u (volts_x c e lo hi NInf).
Proof. admt. intros H. exact H. Qed.

Lemma corr_clamp_pinf x : close tol x hi -> close tol x (clamp_x lo hi PInf).
Proof. admt. intros H. rewrite clamp_x_pinf. exact H. Qed.

Lemma corr_clamp_ninf x : close tol x lo -> close tol x (clamp_x lo hi NInf).
Proof. admt. intros H. exact H. Qed.

(* ====================================================================== *)
(* Part 2b: the driver on a whole simulated roboRIO (rails, battery ...)  *)
(* ====================================================================== *)

Lemma reading_x_total v :
  reading_x_opt c e lo hi fl v = Some (reading_x c e lo hi fl v).
Proof.
  adm. destruct v; cbn [reading_x_opt reading_x];
    [apply reading_total | reflexivity | apply reading_total].
Qed.

(* no exception and the value of the pin-only model, whatever the rails,
   the battery, the enable flags and the rest are *)
Lemma rio_total r :
  rio_distance_opt c e lo hi fl r = Some (reading_x c e lo hi fl (pin r)).
Proof. adm. unfold rio_distance_opt. apply reading_x_total. Qed.

(* the outcome (value or exception) is a function of the pin voltage alone *)
Lemma rio_pin_only r1 r2 :
  pin r1 = pin r2 ->
  rio_distance_opt c e lo hi fl r1 = rio_distance_opt c e lo hi fl r2.
Proof. adm. unfold rio_distance_opt. intros E. rewrite E. reflexivity. Qed.

Lemma rio_in_range r :
  exists x, rio_distance_opt c e lo hi fl r = Some x /\ lo <= x <= hi.
Proof. adm. eexists. split; [apply rio_total | apply in_range_x]. Qed.

Lemma rio_antitone r1 r2 :
  xle (pin r1) (pin r2) ->
  rio_distance c e lo hi fl r2 <= rio_distance c e lo hi fl r1.
Proof. adm. unfold rio_distance. apply antitone_x. Qed.

Lemma rio_power_law r v :
  pin r = Fin v -> fl <= v -> lo <= c * Rpower v e <= hi ->
  rio_distance_opt c e lo hi fl r = Some (c * Rpower v e).
Proof.
  adm. intros E Hv H. rewrite rio_total, E. cbn [reading_x]. f_equal.
  apply power_law_inside; assumption.
Qed.

Lemma rio_set_pin_frame r v : pin (rio_set_pin r v) = v /\ same_rails (rio_set_pin r v) r.
Proof. adm. unfold same_rails. cbn. repeat split; reflexivity. Qed.

(* the helper on any roboRIO: the sensor reads d clamped, the rails are not
   touched *)
Lemma rio_sim r d :
  fl <= volts c e lo hi hi ->
  rio_distance_opt c e lo hi fl (rio_set_distance c e lo hi r d) = Some (clamp_x lo hi d) /\
  same_rails (rio_set_distance c e lo hi r d) r.
Proof.
  adm. intros Hf. split.
  - rewrite rio_total. unfold rio_set_distance. cbn [rio_set_pin pin reading_x].
    f_equal. apply sim_inverse_x. exact Hf.
  - apply rio_set_pin_frame.
Qed.

(* correspondence: a sample taken on roboRIO [r] whose pin carries v *)
Lemma rio_reads_fin r v x :
  pin r = Fin v -> close tol x (reading c e lo hi fl v) ->
  rio_reads c e lo hi fl tol r x.
Proof.
  admt. intros E H. unfold rio_reads. rewrite rio_total, E. exact H.
Qed.

Lemma rio_reads_x r v x :
  pin r = v -> x = reading_x c e lo hi fl v ->
  rio_distance_opt c e lo hi fl r = Some x.
Proof. adm. intros E H. rewrite rio_total, E, H. reflexivity. Qed.

End Generic.

(* a closed inequality between rationals: |x - y| <= tol * y *)
Lemma close_rat tol x y : y - tol * y <= x <= y + tol * y -> close tol x y.
Proof. intros H. unfold close. apply Rabs_le_intro. lra. Qed.

(* ====================================================================== *)
(* Part 3: the three concrete parameter sets                              *)
(* ====================================================================== *)

Lemma A02_admissible : admissible A02_c A02_e A02_lo A02_hi floor_volts.
Proof. unfold admissible, A02_c, A02_e, A02_lo, A02_hi, floor_volts. lra. Qed.
Lemma A21_admissible : admissible A21_c A21_e A21_lo A21_hi floor_volts.
Proof. unfold admissible, A21_c, A21_e, A21_lo, A21_hi, floor_volts. lra. Qed.
Lemma A41_admissible : admissible A41_c A41_e A41_lo A41_hi floor_volts.
Proof. unfold admissible, A41_c, A41_e, A41_lo, A41_hi, floor_volts. lra. Qed.

(* -- numeric side conditions, by hand -- *)

Lemma ln_100000_ge_2 : 2 <= ln 100000.
Proof.
  rewrite <- (ln_exp 2). apply ln_le_mono; [apply exp_pos |].
  replace 2 with (1 + 1) by ring. rewrite exp_plus.
  pose proof exp_le_3 as H3. pose proof (exp_pos 1) as Hp. nra.
Qed.

Lemma ln_floor_volts : ln floor_volts <= - 2.
Proof.
  replace floor_volts with (/ 100000) by (unfold floor_volts; lra).
  rewrite ln_Rinv by lra. pose proof ln_100000_ge_2. lra.
Qed.

(* the power law at a floor fl with ln fl <= -2 exceeds hi as soon as
   hi / c <= 1 + 2 * (- e) *)
Lemma floor_reads_hi_gen c e hi fl :
  0 < c -> e < 0 -> ln fl <= - 2 -> hi <= c * (1 + 2 * (- e)) ->
  hi <= c * Rpower fl e.
Proof.
  intros Hc He Hl Hh. unfold Rpower.
  assert (H1 : 2 * (- e) <= e * ln fl).
  { assert (0 <= (- e) * (- ln fl - 2)) by (apply Rmult_le_pos; lra). lra. }
  pose proof (exp_ineq1_le (2 * (- e))) as H2.
  pose proof (exp_le_mono _ _ H1) as H3.
  assert (c * (1 + 2 * (- e)) <= c * exp (e * ln fl))
    by (apply Rmult_le_compat_l; lra).
  lra.
Qed.

(* ... and then the helper's lowest voltage, the one for the far limit, is
   not below the floor *)
Lemma floor_below_sim_gen c e lo hi fl :
  admissible c e lo hi fl -> hi <= c * Rpower fl e -> fl <= volts c e lo hi hi.
Proof.
  intros A Hh. pose proof A as (Hc & He & Hlo & Hlh & Hfl).
  unfold volts. rewrite clamp_id by lra.
  assert (Hfl' : fl = Rpower (Rpower fl e) (1 / e)).
  { rewrite Rpower_mult. replace (e * (1 / e)) with 1 by (field; lra).
    symmetry. apply Rpower_1. exact Hfl. }
  rewrite Hfl' at 1.
  apply Rpower_neg_antitone.
  - apply (inv_e_neg _ _ _ _ _ A).
  - apply Rdiv_lt_0_compat; lra.
  - apply (Rmult_le_reg_l c); [exact Hc |].
    replace (c * (hi / c)) with hi by (field; lra). exact Hh.
Qed.

(* the power law at the floor is far beyond the far limit
   (1.8e7 cm, 3.6e7 cm, 1.05e6 cm against 145, 80, 35) *)
Lemma A02_floor_reads_hi : A02_hi <= A02_c * Rpower floor_volts A02_e.
Proof.
  apply floor_reads_hi_gen; try apply ln_floor_volts; unfold A02_c, A02_e, A02_hi; lra.
Qed.
Lemma A21_floor_reads_hi : A21_hi <= A21_c * Rpower floor_volts A21_e.
Proof.
  apply floor_reads_hi_gen; try apply ln_floor_volts; unfold A21_c, A21_e, A21_hi; lra.
Qed.
Lemma A41_floor_reads_hi : A41_hi <= A41_c * Rpower floor_volts A41_e.
Proof.
  apply floor_reads_hi_gen; try apply ln_floor_volts; unfold A41_c, A41_e, A41_hi; lra.
Qed.

(* the helper's lowest voltage (0.461 V, 0.405 V, 0.360 V) against the floor
   0.00001 V *)
Lemma A02_floor_below_sim : floor_volts <= volts A02_c A02_e A02_lo A02_hi A02_hi.
Proof. exact (floor_below_sim_gen _ _ _ _ _ A02_admissible A02_floor_reads_hi). Qed.
Lemma A21_floor_below_sim : floor_volts <= volts A21_c A21_e A21_lo A21_hi A21_hi.
Proof. exact (floor_below_sim_gen _ _ _ _ _ A21_admissible A21_floor_reads_hi). Qed.
Lemma A41_floor_below_sim : floor_volts <= volts A41_c A41_e A41_lo A41_hi A41_hi.
Proof. exact (floor_below_sim_gen _ _ _ _ _ A41_admissible A41_floor_reads_hi). Qed.

Lemma ctol_ok : 0 <= ctol <= 1.
Proof. unfold ctol. lra. Qed.

(* ====================================================================== *)
(* Part 4: concrete values (non-vacuity witnesses)                        *)
(* ====================================================================== *)

Lemma Rpower_base_1 e : Rpower 1 e = 1.
Proof. unfold Rpower. rewrite ln_1, Rmult_0_r. apply exp_0. Qed.

(* at 1 V every sensor reads its coefficient, strictly inside its range *)
Lemma A02_at_1V : reading_A02 1 = 62.28.
Proof.
  unfold reading_A02. rewrite (power_law_inside _ _ _ _ _ A02_admissible);
    rewrite ?Rpower_base_1; unfold A02_c, A02_lo, A02_hi, floor_volts; lra.
Qed.
Lemma A21_at_1V : reading_A21 1 = 26.449.
Proof.
  unfold reading_A21. rewrite (power_law_inside _ _ _ _ _ A21_admissible);
    rewrite ?Rpower_base_1; unfold A21_c, A21_lo, A21_hi, floor_volts; lra.
Qed.
Lemma A41_at_1V : reading_A41 1 = 12.84.
Proof.
  unfold reading_A41. rewrite (power_law_inside _ _ _ _ _ A41_admissible);
    rewrite ?Rpower_base_1; unfold A41_c, A41_lo, A41_hi, floor_volts; lra.
Qed.

Lemma A02_at_0V : reading_A02 0 = 145.
Proof.
  unfold reading_A02.
  rewrite (below_floor_hi _ _ _ _ _ A02_admissible _ A02_floor_reads_hi);
    unfold A02_hi, floor_volts; lra.
Qed.

(* 62.28 * 1.5 ^ -1.092 >= 62.28 / 1.5 ^ 2 = 27.68 >= 22.5 *)
Lemma A02_at_1V5_inside : 22.5 <= 62.28 * Rpower 1.5 (-1.092).
Proof.
  replace (-1.092) with (- (1.092)) by lra. rewrite Rpower_Ropp.
  assert (H : Rpower 1.5 1.092 <= 1.5 * 1.5).
  { rewrite <- (Rpower_1 1.5) at 2 3 by lra. rewrite <- Rpower_plus.
    apply Rle_Rpower; lra. }
  pose proof (Rpower_pos 1.5 1.092) as Hp.
  assert (/ (1.5 * 1.5) <= / Rpower 1.5 1.092)
    by (apply Rinv_le_contravar; assumption).
  lra.
Qed.

Lemma A02_strict_example : reading_A02 1.5 < reading_A02 1.
Proof.
  unfold reading_A02.
  apply (strictly_decreasing_inside _ _ _ _ _ A02_admissible).
  - unfold floor_volts; lra.
  - lra.
  - exact A02_at_1V5_inside.
  - rewrite Rpower_base_1. unfold A02_c, A02_hi. lra.
Qed.

(* the twelve cases of tests/test_distance_sensors.py, exactly *)
Lemma A02_sim_examples :
  reading_A02 (volts_A02 10) = 22.5 /\ reading_A02 (volts_A02 200) = 145 /\
  reading_A02 (volts_A02 50) = 50 /\ reading_A02 (volts_A02 100) = 100.
Proof.
  unfold reading_A02, volts_A02.
  rewrite !(sim_inverse _ _ _ _ _ A02_admissible _ A02_floor_below_sim).
  unfold A02_lo, A02_hi. repeat split.
  - apply clamp_below; lra.
  - apply clamp_above; lra.
  - apply clamp_id; lra.
  - apply clamp_id; lra.
Qed.
Lemma A21_sim_examples :
  reading_A21 (volts_A21 5) = 10 /\ reading_A21 (volts_A21 100) = 80 /\
  reading_A21 (volts_A21 30) = 30 /\ reading_A21 (volts_A21 60) = 60.
Proof.
  unfold reading_A21, volts_A21.
  rewrite !(sim_inverse _ _ _ _ _ A21_admissible _ A21_floor_below_sim).
  unfold A21_lo, A21_hi. repeat split.
  - apply clamp_below; lra.
  - apply clamp_above; lra.
  - apply clamp_id; lra.
  - apply clamp_id; lra.
Qed.
Lemma A41_sim_examples :
  reading_A41 (volts_A41 2) = 4.5 /\ reading_A41 (volts_A41 50) = 35 /\
  reading_A41 (volts_A41 10) = 10 /\ reading_A41 (volts_A41 25) = 25.
Proof.
  unfold reading_A41, volts_A41.
  rewrite !(sim_inverse _ _ _ _ _ A41_admissible _ A41_floor_below_sim).
  unfold A41_lo, A41_hi. repeat split.
  - apply clamp_below; lra.
  - apply clamp_above; lra.
  - apply clamp_id; lra.
  - apply clamp_id; lra.
Qed.

(* ====================================================================== *)
(* Part 5: the same helper lemmas with the side conditions between        *)
(* rational literals decided by integer arithmetic (cheaper than lra on   *)
(* 53-bit numerators; only the Rpower premise is left to [interval])      *)
(* ====================================================================== *)

(* the shape of every emitted double: IZR n / IZR (Zpos d) *)
Definition fr (n : Z) (d : positive) : R := IZR n / IZR (Zpos d).

Definition fr_leb (a : Z) (b : positive) (c : Z) (d : positive) : bool :=
  (a * Zpos d <=? c * Zpos b)%Z.
Definition fr_eqb (a : Z) (b : positive) (c : Z) (d : positive) : bool :=
  (a * Zpos d =? c * Zpos b)%Z.
(* |x - y| <= t * y *)
Definition fr_closeb (tn : Z) (td : positive) (xn : Z) (xd : positive) (yn : Z) (yd : positive) : bool :=
  (Z.abs (xn * Zpos yd - yn * Zpos xd) * Zpos td <=? tn * yn * Zpos xd)%Z.

Lemma IZR_pos_pos p : 0 < IZR (Zpos p).
Proof. apply IZR_lt. reflexivity. Qed.

Lemma fr_le a b c d : fr_leb a b c d = true -> fr a b <= fr c d.
Proof.
  unfold fr_leb, fr. intros H. apply Z.leb_le in H. apply IZR_le in H.
  rewrite !mult_IZR in H.
  pose proof (IZR_pos_pos b) as Hb. pose proof (IZR_pos_pos d) as Hd.
  apply (Rmult_le_reg_r (IZR (Zpos b) * IZR (Zpos d))); [apply Rmult_lt_0_compat; assumption |].
  replace (IZR a / IZR (Zpos b) * (IZR (Zpos b) * IZR (Zpos d)))
    with (IZR a * IZR (Zpos d)) by (field; lra).
  replace (IZR c / IZR (Zpos d) * (IZR (Zpos b) * IZR (Zpos d)))
    with (IZR c * IZR (Zpos b)) by (field; lra).
  exact H.
Qed.

Lemma fr_eq a b c d : fr_eqb a b c d = true -> fr a b = fr c d.
Proof.
  unfold fr_eqb. intros H. apply Z.eqb_eq in H.
  apply Rle_antisym; apply fr_le; unfold fr_leb; apply Z.leb_le; lia.
Qed.

Lemma fr_close tn td xn xd yn yd :
  fr_closeb tn td xn xd yn yd = true -> close (fr tn td) (fr xn xd) (fr yn yd).
Proof.
  unfold fr_closeb, close, fr. intros H. apply Z.leb_le in H. apply IZR_le in H.
  rewrite !mult_IZR, abs_IZR, minus_IZR, !mult_IZR in H.
  pose proof (IZR_pos_pos td) as Ht. pose proof (IZR_pos_pos xd) as Hx.
  pose proof (IZR_pos_pos yd) as Hy.
  set (T := IZR (Zpos td)) in *. set (X := IZR (Zpos xd)) in *. set (Y := IZR (Zpos yd)) in *.
  replace (IZR xn / X - IZR yn / Y) with ((IZR xn * Y - IZR yn * X) / (X * Y)) by (field; lra).
  unfold Rdiv at 1. rewrite Rabs_mult. rewrite (Rabs_right (/ (X * Y))).
  2:{ apply Rle_ge. left. apply Rinv_0_lt_compat. apply Rmult_lt_0_compat; assumption. }
  apply (Rmult_le_reg_r (X * Y * T)); [ repeat apply Rmult_lt_0_compat; assumption |].
  replace (Rabs (IZR xn * Y - IZR yn * X) * / (X * Y) * (X * Y * T))
    with (Rabs (IZR xn * Y - IZR yn * X) * T) by (field; lra).
  replace (IZR tn / T * (IZR yn / Y) * (X * Y * T)) with (IZR tn * IZR yn * X) by (field; lra).
  exact H.
Qed.

Section Frac.
Variables c e lo hi fl : R.
Hypothesis Hadm : admissible c e lo hi fl.
Variable tol : R.
Hypothesis Htol : 0 <= tol <= 1.
Variables lon hin fln tn : Z.
Variables lod hid fld td : positive.
Hypothesis Elo : lo = fr lon lod.
Hypothesis Ehi : hi = fr hin hid.
Hypothesis Efl : fl = fr fln fld.
Hypothesis Etol : tol = fr tn td.

Local Ltac bools H :=
  repeat (let H1 := fresh H in apply andb_prop in H; destruct H as [H H1]).

Lemma q_mid vn vd xn xd :
  (fr_leb fln fld vn vd && fr_leb lon lod xn xd && fr_leb xn xd hin hid)%bool = true ->
  close tol (fr xn xd) (c * Rpower (fr vn vd) e) ->
  close tol (fr xn xd) (reading c e lo hi fl (fr vn vd)).
Proof.
  intros B H. bools B. apply (corr_mid _ _ _ _ _ Hadm _ Htol).
  - rewrite Efl. apply fr_le. exact B.
  - rewrite Elo, Ehi. split; apply fr_le; assumption.
  - exact H.
Qed.

Lemma q_hi vn vd xn xd :
  (fr_leb fln fld vn vd && fr_eqb xn xd hin hid)%bool = true ->
  hi * (1 - tol / 2) <= c * Rpower (fr vn vd) e ->
  close tol (fr xn xd) (reading c e lo hi fl (fr vn vd)).
Proof.
  intros B H. bools B. apply (corr_hi _ _ _ _ _ Hadm _ Htol).
  - rewrite Efl. apply fr_le. exact B.
  - rewrite Ehi. apply fr_eq. assumption.
  - exact H.
Qed.

Lemma q_lo vn vd xn xd :
  (fr_leb fln fld vn vd && fr_eqb xn xd lon lod)%bool = true ->
  c * Rpower (fr vn vd) e <= lo * (1 + tol / 2) ->
  close tol (fr xn xd) (reading c e lo hi fl (fr vn vd)).
Proof.
  intros B H. bools B. apply (corr_lo _ _ _ _ _ Hadm _ Htol).
  - rewrite Efl. apply fr_le. exact B.
  - rewrite Elo. apply fr_eq. assumption.
  - exact H.
Qed.

Lemma q_floor vn vd xn xd :
  hi <= c * Rpower fl e ->
  (fr_leb vn vd fln fld && fr_eqb xn xd hin hid)%bool = true ->
  close tol (fr xn xd) (reading c e lo hi fl (fr vn vd)).
Proof.
  intros Hf B. bools B. apply (corr_floor _ _ _ _ _ Hadm _ Htol _ _ Hf).
  - rewrite Efl. apply fr_le. exact B.
  - rewrite Ehi. apply fr_eq. assumption.
Qed.

Lemma q_volts_mid dn dd un ud :
  (fr_leb lon lod dn dd && fr_leb dn dd hin hid)%bool = true ->
  close tol (fr un ud) (Rpower (fr dn dd / c) (1 / e)) ->
  close tol (fr un ud) (volts c e lo hi (fr dn dd)).
Proof.
  intros B H. bools B. apply (corr_volts_mid _ _ _ _ _ Hadm _ Htol).
  - rewrite Elo, Ehi. split; apply fr_le; assumption.
  - exact H.
Qed.

Lemma q_volts_hi dn dd un ud :
  fr_leb hin hid dn dd = true ->
  close tol (fr un ud) (Rpower (hi / c) (1 / e)) ->
  close tol (fr un ud) (volts c e lo hi (fr dn dd)).
Proof.
  intros B H. apply (corr_volts_hi _ _ _ _ _ Hadm _ Htol).
  - rewrite Ehi. apply fr_le. exact B.
  - exact H.
Qed.

Lemma q_volts_lo dn dd un ud :
  fr_leb dn dd lon lod = true ->
  close tol (fr un ud) (Rpower (lo / c) (1 / e)) ->
  close tol (fr un ud) (volts c e lo hi (fr dn dd)).
Proof.
  intros B H. apply (corr_volts_lo _ _ _ _ _ Hadm _ Htol).
  - rewrite Elo. apply fr_le. exact B.
  - exact H.
Qed.

Lemma q_clamp_mid dn dd xn xd :
  (fr_leb lon lod dn dd && fr_leb dn dd hin hid && fr_closeb tn td xn xd dn dd)%bool = true ->
  close tol (fr xn xd) (clamp lo hi (fr dn dd)).
Proof.
  intros B. bools B. apply (corr_clamp_mid _ _ _ _ _ Hadm _ Htol).
  - rewrite Elo, Ehi. split; apply fr_le; assumption.
  - rewrite Etol. apply fr_close. assumption.
Qed.

Lemma q_clamp_hi dn dd xn xd :
  (fr_leb hin hid dn dd && fr_closeb tn td xn xd hin hid)%bool = true ->
  close tol (fr xn xd) (clamp lo hi (fr dn dd)).
Proof.
  intros B. bools B. apply (corr_clamp_hi _ _ _ _ _ Hadm _ Htol).
  - rewrite Ehi. apply fr_le. exact B.
  - rewrite Etol, Ehi. apply fr_close. assumption.
Qed.

Lemma q_clamp_lo dn dd xn xd :
  (fr_leb dn dd lon lod && fr_closeb tn td xn xd lon lod)%bool = true ->
  close tol (fr xn xd) (clamp lo hi (fr dn dd)).
Proof.
  intros B. bools B. apply (corr_clamp_lo _ _ _ _ _ Hadm _ Htol).
  - rewrite Elo. apply fr_le. exact B.
  - rewrite Etol, Elo. apply fr_close. assumption.
Qed.

End Frac.

(* the literals of the three parameter sets as fractions *)
Lemma floor_volts_fr : floor_volts = fr 1 100000.
Proof. unfold floor_volts, fr. lra. Qed.
Lemma ctol_fr : ctol = fr 1 1000000000000.
Proof. unfold ctol, fr. lra. Qed.
Lemma A02_lo_fr : A02_lo = fr 45 2.  Proof. unfold A02_lo, fr. lra. Qed.
Lemma A02_hi_fr : A02_hi = fr 145 1. Proof. unfold A02_hi, fr. lra. Qed.
Lemma A21_lo_fr : A21_lo = fr 10 1.  Proof. unfold A21_lo, fr. lra. Qed.
Lemma A21_hi_fr : A21_hi = fr 80 1.  Proof. unfold A21_hi, fr. lra. Qed.
Lemma A41_lo_fr : A41_lo = fr 9 2.   Proof. unfold A41_lo, fr. lra. Qed.
Lemma A41_hi_fr : A41_hi = fr 35 1.  Proof. unfold A41_hi, fr. lra. Qed.

(* the instances used by the generated files: A02_q_mid vn vd xn xd ... *)
Definition A02_q_mid := q_mid _ _ _ _ _ A02_admissible _ ctol_ok _ _ _ _ _ _ A02_lo_fr A02_hi_fr floor_volts_fr.
Definition A02_q_hi := q_hi _ _ _ _ _ A02_admissible _ ctol_ok _ _ _ _ A02_hi_fr floor_volts_fr.
Definition A02_q_lo := q_lo _ _ _ _ _ A02_admissible _ ctol_ok _ _ _ _ A02_lo_fr floor_volts_fr.
Definition A02_q_floor := fun vn vd xn xd => q_floor _ _ _ _ _ A02_admissible _ ctol_ok _ _ _ _ A02_hi_fr floor_volts_fr vn vd xn xd A02_floor_reads_hi.
Definition A02_q_volts_mid := q_volts_mid _ _ _ _ _ A02_admissible _ ctol_ok _ _ _ _ A02_lo_fr A02_hi_fr.
Definition A02_q_volts_hi := q_volts_hi _ _ _ _ _ A02_admissible _ ctol_ok _ _ A02_hi_fr.
Definition A02_q_volts_lo := q_volts_lo _ _ _ _ _ A02_admissible _ ctol_ok _ _ A02_lo_fr.
Definition A02_q_clamp_mid := q_clamp_mid _ _ _ _ _ A02_admissible _ ctol_ok _ _ _ _ _ _ A02_lo_fr A02_hi_fr ctol_fr.
Definition A02_q_clamp_hi := q_clamp_hi _ _ _ _ _ A02_admissible _ ctol_ok _ _ _ _ A02_hi_fr ctol_fr.
Definition A02_q_clamp_lo := q_clamp_lo _ _ _ _ _ A02_admissible _ ctol_ok _ _ _ _ A02_lo_fr ctol_fr.
Definition A21_q_mid := q_mid _ _ _ _ _ A21_admissible _ ctol_ok _ _ _ _ _ _ A21_lo_fr A21_hi_fr floor_volts_fr.
Definition A21_q_hi := q_hi _ _ _ _ _ A21_admissible _ ctol_ok _ _ _ _ A21_hi_fr floor_volts_fr.
Definition A21_q_lo := q_lo _ _ _ _ _ A21_admissible _ ctol_ok _ _ _ _ A21_lo_fr floor_volts_fr.
Definition A21_q_floor := fun vn vd xn xd => q_floor _ _ _ _ _ A21_admissible _ ctol_ok _ _ _ _ A21_hi_fr floor_volts_fr vn vd xn xd A21_floor_reads_hi.
Definition A21_q_volts_mid := q_volts_mid _ _ _ _ _ A21_admissible _ ctol_ok _ _ _ _ A21_lo_fr A21_hi_fr.
Definition A21_q_volts_hi := q_volts_hi _ _ _ _ _ A21_admissible _ ctol_ok _ _ A21_hi_fr.
Definition A21_q_volts_lo := q_volts_lo _ _ _ _ _ A21_admissible _ ctol_ok _ _ A21_lo_fr.
Definition A21_q_clamp_mid := q_clamp_mid _ _ _ _ _ A21_admissible _ ctol_ok _ _ _ _ _ _ A21_lo_fr A21_hi_fr ctol_fr.
Definition A21_q_clamp_hi := q_clamp_hi _ _ _ _ _ A21_admissible _ ctol_ok _ _ _ _ A21_hi_fr ctol_fr.
Definition A21_q_clamp_lo := q_clamp_lo _ _ _ _ _ A21_admissible _ ctol_ok _ _ _ _ A21_lo_fr ctol_fr.
Definition A41_q_mid := q_mid _ _ _ _ _ A41_admissible _ ctol_ok _ _ _ _ _ _ A41_lo_fr A41_hi_fr floor_volts_fr.
Definition A41_q_hi := q_hi _ _ _ _ _ A41_admissible _ ctol_ok _ _ _ _ A41_hi_fr floor_volts_fr.
Definition A41_q_lo := q_lo _ _ _ _ _ A41_admissible _ ctol_ok _ _ _ _ A41_lo_fr floor_volts_fr.
Definition A41_q_floor := fun vn vd xn xd => q_floor _ _ _ _ _ A41_admissible _ ctol_ok _ _ _ _ A41_hi_fr floor_volts_fr vn vd xn xd A41_floor_reads_hi.
Definition A41_q_volts_mid := q_volts_mid _ _ _ _ _ A41_admissible _ ctol_ok _ _ _ _ A41_lo_fr A41_hi_fr.
Definition A41_q_volts_hi := q_volts_hi _ _ _ _ _ A41_admissible _ ctol_ok _ _ A41_hi_fr.
Definition A41_q_volts_lo := q_volts_lo _ _ _ _ _ A41_admissible _ ctol_ok _ _ A41_lo_fr.
Definition A41_q_clamp_mid := q_clamp_mid _ _ _ _ _ A41_admissible _ ctol_ok _ _ _ _ _ _ A41_lo_fr A41_hi_fr ctol_fr.
Definition A41_q_clamp_hi := q_clamp_hi _ _ _ _ _ A41_admissible _ ctol_ok _ _ _ _ A41_hi_fr ctol_fr.
Definition A41_q_clamp_lo := q_clamp_lo _ _ _ _ _ A41_admissible _ ctol_ok _ _ _ _ A41_lo_fr ctol_fr.

(* samples taken on a whole simulated roboRIO *)
Definition A02_rio_fin := rio_reads_fin _ _ _ _ _ A02_admissible _ ctol_ok.
Definition A21_rio_fin := rio_reads_fin _ _ _ _ _ A21_admissible _ ctol_ok.
Definition A41_rio_fin := rio_reads_fin _ _ _ _ _ A41_admissible _ ctol_ok.
Definition A02_rio_x := rio_reads_x _ _ _ _ _ A02_admissible.
Definition A21_rio_x := rio_reads_x _ _ _ _ _ A21_admissible.
Definition A41_rio_x := rio_reads_x _ _ _ _ _ A41_admissible.

(* non-vacuity: 1 V on the pin reads the coefficient on every roboRIO *)
Lemma A21_rio_at_1V u5 u3 u6 vb a5 a3 a6 ax :
  rio_distance_opt A21_c A21_e A21_lo A21_hi floor_volts
    {| pin := Fin 1; user5V := u5; user3V3 := u3; user6V := u6; vin := vb;
       active5V := a5; active3V3 := a3; active6V := a6; aux := ax |} = Some 26.449.
Proof.
  rewrite (rio_total _ _ _ _ _ A21_admissible). cbn [pin reading_x].
  f_equal. exact A21_at_1V.
Qed.
