(* Comparators used by the correspondence check of C09 (harness/c09.py): the
   observations recorded from the implementation are compared with the
   model's events INSIDE Coq with these functions.  The equality tests are
   proved to decide Leibniz equality, so a comparator cannot silently accept
   two different values. *)
From Coq Require Import String Ascii List Bool ZArith NArith.
From RV Require Import Tunable.Model.
Import ListNotations.
Open Scope string_scope.

Fixpoint list_eqb {A : Type} (f : A -> A -> bool) (l1 l2 : list A) : bool :=
  match l1, l2 with
  | [], [] => true
  | x :: r1, y :: r2 => f x y && list_eqb f r1 r2
  | _, _ => false
  end.

Definition scalar_eqb (a b : scalar) : bool :=
  match a, b with
  | SBool x, SBool y => Bool.eqb x y
  | SInt x, SInt y => Z.eqb x y
  | SFloat x, SFloat y => Z.eqb x y
  | SStr x, SStr y => String.eqb x y
  | SBytes x, SBytes y => list_eqb N.eqb x y
  | SStruct n f, SStruct m g => String.eqb n m && list_eqb Z.eqb f g
  | SOther, SOther => true
  | _, _ => false
  end.

Definition value_eqb (a b : value) : bool :=
  match a, b with
  | VScalar x, VScalar y => scalar_eqb x y
  | VList x, VList y => list_eqb scalar_eqb x y
  | VTuple x, VTuple y => list_eqb scalar_eqb x y
  | _, _ => false
  end.

Lemma list_eqb_eq : forall (A : Type) (f : A -> A -> bool),
  (forall x y, f x y = true <-> x = y) ->
  forall l1 l2, list_eqb f l1 l2 = true <-> l1 = l2.
Proof.
  intros A f Hf. induction l1 as [|x l1 IH]; intros [|y l2]; simpl; split; intros H;
    try discriminate; try reflexivity.
  - apply andb_true_iff in H as [H1 H2]. apply Hf in H1. apply IH in H2. now subst.
  - injection H as -> ->. apply andb_true_iff. split; [now apply Hf | now apply IH].
Qed.

Lemma scalar_eqb_eq : forall a b, scalar_eqb a b = true <-> a = b.
Proof.
  intros a b. destruct a, b; simpl; split; intros H; try discriminate; try reflexivity.
  - apply Bool.eqb_prop in H. now subst.
  - injection H as ->. apply Bool.eqb_reflx.
  - apply Z.eqb_eq in H. now subst.
  - injection H as ->. apply Z.eqb_refl.
  - apply Z.eqb_eq in H. now subst.
  - injection H as ->. apply Z.eqb_refl.
  - apply String.eqb_eq in H. now subst.
  - injection H as ->. apply String.eqb_refl.
  - apply (list_eqb_eq N N.eqb N.eqb_eq) in H. now subst.
  - injection H as ->. now apply (list_eqb_eq N N.eqb N.eqb_eq).
  - apply andb_true_iff in H as [H1 H2]. apply String.eqb_eq in H1.
    apply (list_eqb_eq Z Z.eqb Z.eqb_eq) in H2. now subst.
  - injection H as -> ->. apply andb_true_iff. split; [apply String.eqb_refl|].
    now apply (list_eqb_eq Z Z.eqb Z.eqb_eq).
Qed.

Lemma value_eqb_eq : forall a b, value_eqb a b = true <-> a = b.
Proof.
  intros a b. destruct a, b; simpl; split; intros H; try discriminate.
  - apply scalar_eqb_eq in H. now subst.
  - injection H as ->. now apply scalar_eqb_eq.
  - apply (list_eqb_eq _ _ scalar_eqb_eq) in H. now subst.
  - injection H as ->. now apply (list_eqb_eq _ _ scalar_eqb_eq).
  - apply (list_eqb_eq _ _ scalar_eqb_eq) in H. now subst.
  - injection H as ->. now apply (list_eqb_eq _ _ scalar_eqb_eq).
Qed.

(* ---- histories ------------------------------------------------------ *)

(* what the harness records per operation; exception classes are masked
   (the property does not fix them), the topic type is its type string *)
Inductive obs :=
| OSetup (ok : bool)
| OWrote
| OVal (v : value)
| OErr
| ONt (r : option (string * value))
| OBad                         (* an observation the harness could not canonicalise *)
| OSelf                        (* an attribute read on an INSTANCE handed back the tunable object *)
| ODone                        (* the harness changed the owner's truthiness / stepped the clock /
                                  assigned a class attribute / constructed an instance (no call of
                                  magic_tunable) *)
| OStamp (t : Z)               (* the timestamp an independent subscriber sees on a topic, relative
                                  to the start of the history (only recorded under the paused clock) *)
| OAny.                        (* masked: access to a tunable that is not bound (instance not set
                                  up yet, or a private name setup_tunables skips) -- the property
                                  says nothing about it *)

Definition ev_match (e : event) (o : obs) : bool :=
  match e, o with
  | EvSetup a, OSetup b => Bool.eqb a b
  | EvWrote, OWrote => true
  | EvVal v, OVal v' => value_eqb v v'
  | EvErr, OErr => true
  | EvNt None, ONt None => true
  | EvNt (Some (ty, v)), ONt (Some (s, v')) => String.eqb (type_string ty) s && value_eqb v v'
  | EvErr, OAny => true        (* the model agrees that nothing is bound there *)
  | _, _ => false
  end.

(* list_eqb on two different types *)
Fixpoint all2 {A B : Type} (f : A -> B -> bool) (l1 : list A) (l2 : list B) : bool :=
  match l1, l2 with
  | [], [] => true
  | x :: r1, y :: r2 => f x y && all2 f r1 r2
  | _, _ => false
  end.

Definition hist_ok (c : list op * list obs) : bool :=
  all2 ev_match (snd (run w0 (fst c))) (snd c).

(* histories in which the owners' truthiness (bool(instance): __len__ /
   __bool__ of the owner class) changes as well; OSelf matches only XSelf,
   which the model never emits for a read on an instance *)
Definition xev_match (e : xevent) (o : obs) : bool :=
  match e, o with
  | XEv e', _ => ev_match e' o
  | XSelf, OSelf => true
  | XDone, ODone => true
  | _, _ => false
  end.

Definition xhist_ok (c : list xop * list obs) : bool :=
  all2 xev_match (snd (xrun x0 (fst c))) (snd c).

(* a history whose classes come from a PROGRAM of shared tunable objects
   (Model section 12): [fst c] is Model.prog_in_model of that program and the
   classes used -- every class statement executes and no class is outside the
   model (one object under two public names of one class); it is [true] for a
   history whose classes are written out directly.  A case outside the model
   counts as a disagreement, it is never silently accepted. *)
Definition ghist_ok (c : bool * (list xop * list obs)) : bool :=
  fst c && xhist_ok (snd c).

(* histories in the environment of Model section 13: a clock (paused and
   stepped, or running), client updates with timestamps of their own, class
   attributes assigned between two setups (StateMachine instances constructed
   one after another).  [c] = (the classes as their class statements leave
   them, the clock at the start, (operations, observations)).  A timestamp
   that could not be recorded (running clock: OAny) is masked. *)
Definition gev_match (e : gevent * bool) (o : obs) : bool :=
  match fst e, o with
  | GEv e', _ => xev_match e' o
  | GStamp t, OStamp t' => Z.eqb t t'
  | GStamp _, OAny => true
  | GDone, ODone => true
  | _, _ => false
  end.

Definition envhist_ok (c : list (list classbody) * Z * (list gop * list obs)) : bool :=
  all2 gev_match (snd (grun (g0 (snd (fst c)) (fst (fst c))) (fst (snd c)))) (snd (snd c)).

Fixpoint bad_from {A : Type} (ok : A -> bool) (i : nat) (l : list A) : list nat :=
  match l with
  | [] => []
  | c :: r => if ok c then bad_from ok (S i) r else i :: bad_from ok (S i) r
  end.

(* ---- the type grid --------------------------------------------------- *)

Inductive gobs :=
| GRaise                       (* the class statement raised *)
| GCreated                     (* class created; not bound (default does not fit the hinted type) *)
| GBound (s : string).         (* bound; type string read back from NetworkTables *)

Definition grid_match (dh : value * option tyexpr) (g : gobs) : bool :=
  match res_to_option (decl_topic (fst dh) (snd dh)), g with
  | None, GRaise => true
  | Some _, GCreated => true
  | Some t, GBound s => String.eqb (type_string t) s
  | _, _ => false
  end.

(* observed results, aligned with the model's own enumeration [grid_decls];
   indices in binary (the grid has 37842 points), at most the first 40
   disagreements are reported *)
Fixpoint bad_grid_all (i : N) (l : list (value * option tyexpr)) (o : list gobs) : list N :=
  match l, o with
  | [], [] => []
  | dh :: r, g :: ro => if grid_match dh g then bad_grid_all (N.succ i) r ro
                        else i :: bad_grid_all (N.succ i) r ro
  | _, _ => [i]                (* lengths differ *)
  end.
Definition bad_grid (l : list (value * option tyexpr)) (o : list gobs) : list N :=
  firstn 40 (bad_grid_all 0%N l o).

(* the same with the hint WRITTEN in a given spelling (Model.spell): the model
   resolves it the way __set_name__ does (__orig_class__ / get_type_hints /
   ClassVar and tunable unwrapping) before the table lookup.  Point i of the
   grid uses spelling  pattern[i mod length pattern]  -- the harness writes the
   class statement of point i in exactly that spelling. *)
Definition grid_match_src (sp : spelling) (dh : value * option tyexpr) (g : gobs) : bool :=
  match res_to_option (decl_topic_src (fst dh) (spell_opt sp (snd dh))), g with
  | None, GRaise => true
  | Some _, GCreated => true
  | Some t, GBound s => String.eqb (type_string t) s
  | _, _ => false
  end.

Fixpoint bad_grid_src_all (pattern cur : list spelling) (i : N)
         (l : list (value * option tyexpr)) (o : list gobs) : list N :=
  match l, o with
  | [], [] => []
  | dh :: r, g :: ro =>
      match (match cur with [] => pattern | _ => cur end) with
      | [] => [i]              (* empty pattern *)
      | sp :: rest =>
          if grid_match_src sp dh g then bad_grid_src_all pattern rest (N.succ i) r ro
          else i :: bad_grid_src_all pattern rest (N.succ i) r ro
      end
  | _, _ => [i]                (* lengths differ *)
  end.
Definition bad_grid_src (pattern : list spelling) (l : list (value * option tyexpr))
           (o : list gobs) : list N :=
  firstn 40 (bad_grid_src_all pattern pattern 0%N l o).

(* ---- @feedback ------------------------------------------------------- *)

Inductive fobs :=
| FRaise                                   (* collect_feedbacks raised *)
| FTopic (key : string)                    (* the one topic that appeared under the owner *)
         (before : option string)          (* its type string right after collect_feedbacks *)
         (after : option string)           (* ... and after the setter was called with a value *)
| FBad.

Definition opt_string_eqb (a b : option string) : bool :=
  match a, b with
  | None, None => true
  | Some x, Some y => String.eqb x y
  | _, _ => false
  end.

(* [v]: the value the getter returned (decides the type of a generic entry;
   ntcore's inference, see Model.generic_infer) *)
Definition fb_match (prefix : option string) (cname : string) (explicit : option string)
           (name : string) (ann : option tyexpr) (v : value) (o : fobs) : bool :=
  match fb_publisher ann, o with
  | FbRaises, FRaise => true
  | FbTyped t, FTopic k b a =>
      String.eqb k (fb_topic_key prefix cname explicit name)
      && opt_string_eqb b (Some (type_string t))
      && opt_string_eqb a (Some (type_string t))
  | FbGeneric, FTopic k b a =>
      String.eqb k (fb_topic_key prefix cname explicit name)
      && opt_string_eqb b None
      && opt_string_eqb a (option_map type_string (generic_infer v))
  | _, _ => false
  end.
